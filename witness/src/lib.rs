//! Compile-fail witnesses (R-WITNESS): a user program that would violate a property does not type-check.
//! Every `compile_fail,E....` example is paired with a compiling twin that differs only in the offending
//! expression, so a witness cannot pass merely because a path or import is wrong.

/// C08: the hidden fourth lane of `Vec3A` is not nameable: there is no `w` field.
/// ```compile_fail,E0609
/// let v = glam::Vec3A::new(1.0, 2.0, 3.0);
/// let _ = v.w;
/// ```
/// twin: the third lane is
/// ```
/// let v = glam::Vec3A::new(1.0, 2.0, 3.0);
/// let _ = v.z;
/// ```
pub struct C08NoWField;

/// C08: the backing register of `Vec3A` is private outside the crate.
/// ```compile_fail,E0616
/// let v = glam::Vec3A::new(1.0, 2.0, 3.0);
/// let _ = v.0;
/// ```
/// twin: the same expression shape on a public tuple field of a user type
/// ```
/// struct W(pub glam::Vec3A);
/// let w = W(glam::Vec3A::new(1.0, 2.0, 3.0));
/// let _ = w.0;
/// ```
pub struct C08PrivateRegister;

/// C15: a SIMD mask cannot be built from a raw register by a user (masks stay canonical).
/// ```compile_fail,E0277
/// #[cfg(target_arch = "x86_64")]
/// fn f(r: core::arch::x86_64::__m128) -> glam::BVec4A { glam::BVec4A::from(r) }
/// #[cfg(not(target_arch = "x86_64"))]
/// compile_error!("witness is written for x86_64");
/// ```
/// twin: the numeric vector does have the raw conversion
/// ```
/// #[cfg(all(target_arch = "x86_64", not(feature = "scalar-math")))]
/// fn f(r: core::arch::x86_64::__m128) -> glam::Vec4 { glam::Vec4::from(r) }
/// ```
pub struct C15NoRawMask;

/// C19: padded SIMD types are not `Pod`.
/// ```compile_fail,E0277
/// fn assert_pod<T: bytemuck::Pod>() {}
/// assert_pod::<glam::Vec3A>();
/// ```
/// ```compile_fail,E0277
/// fn assert_pod<T: bytemuck::Pod>() {}
/// assert_pod::<glam::Mat3A>();
/// ```
/// ```compile_fail,E0277
/// fn assert_pod<T: bytemuck::Pod>() {}
/// assert_pod::<glam::Affine3A>();
/// ```
/// twin: the unpadded types are
/// ```
/// fn assert_pod<T: bytemuck::Pod>() {}
/// assert_pod::<glam::Vec3>();
/// assert_pod::<glam::Mat3>();
/// assert_pod::<glam::Vec4>();
/// ```
pub struct C19PodOnlyWithoutPadding;
