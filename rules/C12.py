"""C12 - interpolation, steering and clamping helpers hit endpoints and never overshoot.

Decided clauses (R-ALG / R-GUARD): vector lerp returns exactly the first operand at s = 0 and exactly the second at s = 1 (constant
folding with IEEE-exact rewrites) and is self + s (rhs - self) in between; move_towards returns rhs exactly when len <= d (or len <= 1e-4)
and otherwise self + (rhs - self) d / len (so the distance moved is d and d < len there); clamp_length* returns self or one common
positive scalar times self with guards len^2 < min^2 / len^2 > max^2; any_orthogonal_vector / any_orthonormal_vector / pair are orthogonal
(and unit, mutually orthogonal under |self|^2 = 1, sign^2 = 1); quaternion lerp negates the end point exactly when dot < 0.
R-APPROX: the polynomial arccos (all backends) and the SSE2 sine polynomial with its 2 pi range reduction are within 1e-6 / 2e-6 of acos / sin
over their whole domain, binary32 rounding included (interval certificates).
R-SLERP: on every branch that evaluates the arccos, quaternion and vector slerp return (sin((1-s) t) a^ + sin(s t) b^) / sin t with t = acos_approx(cos angle),
b negated on the longer quaternion arc and vector lengths interpolated linearly (the arccos / SSE2 sine polynomials read as the functions they are certified to approximate).
Not decided: numeric angle error near the parallel / anti-parallel thresholds, rotate_towards' angle arithmetic, from_rotation_arc(a, b) a = b."""
import re
import math
import terms as tm
from terms import ite
import nf
from nf import Poly, ONE
from spec import Spec
from lift import value_lanes, strip_ref, ArgView
from common import api_roots, vec_info, tydef, atom_at, cell_term, TRUSTED_COMMON
from C02 import common_guard

LEVEL = 'other'
TECHNIQUE = 'real-field normal forms with trigonometric relations, guard-predicate matching, constant-endpoint folding and interval accuracy certificates over rustc MIR (abstract interpretation)'
EXPLANATION = ('Decides for all inputs the algebraic and guard clauses of lerp / move_towards / clamp_length / any_ortho* / quaternion lerp (sign flip by the full dot product, normalised), '
               'that slerp is the spherical formula (with the lemma: angle from the start = s x total angle, unit / linearly interpolated length), that vector rotate_towards rotates self '
               'about normalize(self x rhs) by min(A, max(m, A - pi)) and keeps its length on every branch, that from_rotation_arc* maps from onto +-to with O(eps) singular thresholds, and '
               'certifies the arccos / SSE2 sine polynomials within 1e-6 / 2e-6 by interval analysis.  Angle error near the parallel thresholds is not decided.')
LEVEL_NOTE = 'Decides the formulas, guards and approximation certificates listed; end-to-end angle error near the degenerate thresholds is not claimed. Trusted: rustc MIR, intrinsic table, IEEE-exact rewrites x*1=x, x+0=x, x*0=0 for finite x.'

CONFIGS_QUICK = ['sse2', 'sse2-fma', 'sse41', 'fastmath', 'scalar', 'coresimd', 'libm', 'neon', 'wasm32']
CONFIGS_THOROUGH = ['sse2', 'sse2-fma', 'sse41', 'fastmath', 'scalar', 'coresimd', 'libm', 'neon', 'wasm32']
FLOAT_TYPES = {'Vec2': 'f32', 'Vec3': 'f32', 'Vec3A': 'f32', 'Vec4': 'f32', 'DVec2': 'f64', 'DVec3': 'f64', 'DVec4': 'f64'}


def orthogonal_grid(lanes, atoms):
    """decide 'non-zero and orthogonal for every non-zero input' for result lanes built from the input lanes by selection only.
    -> True (decided, holds), a problem text (decided, fails), None (the lanes are not of that shape: not decided here)"""
    ok_ops = {'ite', 'flt', 'fle', 'feq', 'fne', 'fabs', 'fneg', 'atom', 'c', 'and', 'or', 'not'}
    seen = set()
    st = list(lanes)
    while st:
        t = st.pop()
        if t.id in seen:
            continue
        seen.add(t.id)
        if t.op not in ok_ops:
            return None
        if t.op == 'atom' and t not in atoms:
            return None
        if t.op == 'c' and tm.f_of(t) != 0.0:
            return None
        st.extend(x for x in t.args if isinstance(x, tm.T))
    import itertools
    sz = _width_of(*lanes) if any(tm.is_const(x) for x in seen_terms(lanes)) else 4
    n = len(atoms)
    for vals in itertools.product(range(-3, 4), repeat=n):
        if not any(vals):
            continue
        mp = {a: tm.fconst(float(v), sz) for a, v in zip(atoms, vals)}
        out = [tm.subst(l, mp) for l in lanes]
        if not all(tm.is_const(o) for o in out):
            return None
        ov = [tm.f_of(o) for o in out]
        if not any(ov):
            return 'returns the zero vector for the non-zero input %s' % (list(vals),)
        if sum(x * y for x, y in zip(ov, vals)) != 0:
            return 'the result %s is not orthogonal to the input %s' % (ov, list(vals))
    return True


def seen_terms(ts):
    out, seen, st = [], set(), list(ts)
    while st:
        t = st.pop()
        if t.id in seen:
            continue
        seen.add(t.id)
        out.append(t)
        st.extend(x for x in t.args if isinstance(x, tm.T))
    return out


def _width_of(*ts):
    """byte width of the float constants occurring in the terms (4 when none is found)"""
    seen = set()
    st = list(ts)
    while st:
        x = st.pop()
        if not isinstance(x, tm.T) or x.id in seen:
            continue
        seen.add(x.id)
        if tm.is_const(x) and tm.csize(x) in (4, 8):
            return tm.csize(x)
        st.extend(x.args)
    return 4


def fold_exact(t, memo=None):
    """IEEE-exact endpoint folding: x*1 -> x, x*0 -> 0 (x finite), x+0 -> x (up to -0 == +0), constants folded"""
    if memo is None:
        memo = {}
    r = memo.get(t.id)
    if r is not None:
        return r
    if t.op in ('atom', 'c'):
        memo[t.id] = t
        return t
    args = [fold_exact(a, memo) if isinstance(a, tm.T) else a for a in t.args]

    def cval(x):
        return tm.f_of(x) if tm.is_const(x) and tm.csize(x) in (4, 8) else None
    r = None
    if t.op in ('fadd', 'fmul') and len(args) == 2:
        a, b = args
        ca, cb = cval(a), cval(b)
        if ca is not None and cb is not None:
            v = ca + cb if t.op == 'fadd' else ca * cb
            r = tm.fconst(v, tm.csize(a))
        elif t.op == 'fmul':
            for x, cx, y in ((a, ca, b), (b, cb, a)):
                if cx == 1.0:
                    r = y
                elif cx == 0.0:
                    r = tm.fconst(0.0, tm.csize(x))
        else:
            for x, cx, y in ((a, ca, b), (b, cb, a)):
                if cx == 0.0:
                    r = y
            if r is None and ((a.op == 'fneg' and a.args[0] is b) or (b.op == 'fneg' and b.args[0] is a)):
                r = tm.fconst(0.0, _width_of(a, b))      # x - x = +0 exactly for finite x
    elif t.op == 'fneg' and cval(args[0]) is not None:
        r = tm.fconst(-cval(args[0]), tm.csize(args[0]))
    if r is None:
        r = tm.rebuild(t.op, args)
    memo[t.id] = r
    return r


def cases_with_assignment(ts, limit=6):
    """[(assignment {condition term: bool}, branch-free terms)] over all selections of the terms; None when more than `limit` conditions"""
    from post import _collect_conds
    conds = []
    seen = set()
    for t in ts:
        _collect_conds(t, conds, seen)
    for c in [c for c in conds if c.op == 'fne' and c.args[0] is c.args[1]]:
        ts = [tm.subst(t, {c: tm.FALSE}) for t in ts]
    conds = []
    seen = set()
    for t in ts:
        _collect_conds(t, conds, seen)
    if len(conds) > limit:
        return None
    out = []
    for case in range(1 << len(conds)):
        cur = ts
        asg = {}
        for j, c in enumerate(conds):
            v = bool((case >> j) & 1)
            asg[c] = v
            cur = [tm.subst(t, {c: tm.TRUE if v else tm.FALSE}) for t in cur]
        out.append((asg, cur))
    return out


def check_rotation_arc(ctx, cfg, F, H, done):
    """from_rotation_arc(a, b) * a == b, from_rotation_arc_colinear(a, b) * a == +-b (sign of a.b), from_rotation_arc_2d likewise in the plane:
    exact identities under |a| = |b| = 1 on the regular branch (neither a.b > 1 - eps nor a.b < -(1 - eps)); the two singular branches return
    constant / half-turn quaternions and are only required to be unit (C20 R-POST)."""
    from post import unit_relation
    for name, it in api_roots(F):
        st = (it.get('self_ty') or '').lstrip('&')
        tname = st.rsplit('::', 1)[-1]
        mname = it.get('name') or ''
        if it.get('trait') or tname not in ('Quat', 'DQuat') or mname not in ('from_rotation_arc', 'from_rotation_arc_colinear', 'from_rotation_arc_2d'):
            continue
        body = F.body(it['key'])
        argtys = body['locals'][1:1 + body['argc']]
        rty = body['locals'][0]
        r = H.run(it['key'])
        if r.abort or r.ret is None:
            ctx.unverifiable('R-ARCROT', cfg, name, r.abort or 'diverges')
            continue
        views = [ArgView(F, r, i, argtys[i]) for i in range(2)]
        lanes = value_lanes(F, r.ret, rty)
        if lanes is None or any(v.lanes is None for v in views):
            ctx.unverifiable('R-ARCROT', cfg, name, 'operands / result lanes not found')
            continue
        cases = cases_with_assignment(lanes)
        if cases is None:
            ctx.undecided('R-ARCROT', cfg, name, 'too many selections')
            continue
        n_main = 0
        bad = None
        for asg, ls in cases:
            alg = nf.Algebra()
            alg.budget = 400000
            S = Spec(alg)
            unit_relation(alg, views[0].lanes)
            unit_relation(alg, views[1].lanes)
            a = [alg.nf(x) for x in views[0].lanes]
            b = [alg.nf(x) for x in views[1].lanes]
            if len(a) == 2:
                a, b = a + [S.c(0)], b + [S.c(0)]
            dot = S.dot(a, b)
            # classify the conditions of this case: comparisons of a.b (or -(a.b)) with constants
            singular = False
            flip = False
            unknown = None
            hi = lo = False        # "a.b > +k" / "a.b < -k" hold in this case (k close to 1)
            for c, v in asg.items():
                if c.op not in ('flt', 'fle'):
                    unknown = c
                    break
                x, y = c.args
                kx, ky = (tm.f_of(x) if tm.is_const(x) else None), (tm.f_of(y) if tm.is_const(y) else None)
                other = y if kx is not None else x
                k = kx if kx is not None else ky
                if k is None:
                    unknown = c
                    break
                d = alg.nf(other)
                if S.eq(d, dot):
                    sgn = 1
                elif S.eq(d, S.neg(dot)):
                    sgn = -1
                else:
                    unknown = c
                    break
                if k == 0.0:
                    # a.b < 0 (or its mirror): the colinear form's choice of target
                    lt0 = (ky is not None) if sgn == 1 else (kx is not None)     # condition reads "a.b < 0"
                    if (v and lt0) or (not v and not lt0):
                        flip = not flip if mname == 'from_rotation_arc_colinear' else flip
                else:
                    # the singular branches start at |a.b| > 1 - m eps with a small m, eps the scalar type's own epsilon (documented: 2 eps):
                    # a wider band would hand nearly-parallel inputs the fixed identity / half-turn instead of the small rotation they need
                    kc = x if kx is not None else y
                    eps = 2.0 ** -23 if tm.csize(kc) == 4 else 2.0 ** -52
                    mgn = (1.0 - abs(k)) / eps
                    if not (0.5 <= mgn <= 64):
                        bad = 'singular-branch threshold %r is 1 - %.3g epsilon of the scalar type (expected a small multiple of epsilon: documented 2)' % (k, mgn)
                        break
                    # the statement about a.b this condition makes when it is true: X = sgn * a.b, "X > k" (constant first) or "X < k"
                    gt = kx is not None
                    if sgn == -1:
                        gt, kk = (not gt), -k
                    else:
                        kk = k
                    holds_gt = v if gt else None       # "a.b > kk" known true
                    holds_lt = v if not gt else None    # "a.b < kk" known true
                    if gt and not v:
                        holds_lt = None                  # a.b <= kk: says nothing decisive for the bands
                    if holds_gt and kk > 0.25:
                        hi = True
                    if holds_lt and kk < -0.25:
                        lo = True
            if bad:
                break
            if unknown is not None:
                bad = 'branch condition %s is not a comparison of a.b with a constant' % tm.show(unknown, 0, 4)[:160]
                break
            singular = not any('sqrt(' in tm.show(l, 0, 40) for l in ls)       # the regular branch normalises (c, 1 + a.b); which conditions matter follows from the nesting
            if mname != 'from_rotation_arc_colinear':
                consts_ = [tm.f_of(x) if tm.is_const(x) else None for x in ls]
                is_identity = consts_ == [0.0, 0.0, 0.0, 1.0]
                if hi and not is_identity:
                    bad = 'for a.b above the near-parallel threshold the result is not the identity (the comparison is reversed or the branches are swapped)'
                    break
                if not hi and lo and not singular:
                    bad = 'for a.b below the anti-parallel threshold the regular formula (1 + a.b ~ 0) is used instead of the half turn'
                    break
                if not hi and not lo and singular:
                    bad = 'a singular branch (identity / half turn) is returned for operands that are neither near-parallel nor near-anti-parallel'
                    break
                if not hi and lo and is_identity:
                    bad = 'the identity is returned for nearly opposite operands'
                    break
            if singular:
                # near-parallel: the identity; near-anti-parallel: a half turn (angle pi) about an axis orthogonal to from (unit-ness: C20 R-POST)
                consts = [tm.f_of(x) if tm.is_const(x) else None for x in ls]
                trig = []
                seen_ = set()
                for l in ls:
                    _subterms(l, 'sin', trig, seen_)
                seen_ = set()
                for l in ls:
                    _subterms(l, 'cos', trig, seen_)
                if all(c is not None for c in consts):
                    if consts not in ([0.0, 0.0, 0.0, 1.0], [0.0, 0.0, 1.0, 0.0], [0.0, 0.0, -1.0, 0.0]):
                        bad = 'a singular branch returns the constant %s, which is neither the identity nor a half turn about z' % consts
                        break
                elif trig:
                    def cval(t):
                        if tm.is_const(t):
                            return tm.f_of(t)
                        if t.op in ('fmul', 'fadd') and all(isinstance(x, tm.T) for x in t.args):
                            vs = [cval(x) for x in t.args]
                            if all(v is not None for v in vs):
                                out_ = vs[0]
                                for v in vs[1:]:
                                    out_ = out_ * v if t.op == 'fmul' else out_ + v
                                return out_
                        if t.op == 'fneg':
                            v = cval(t.args[0])
                            return None if v is None else -v
                        return None
                    wdt = 4 if tname == 'Quat' else 8
                    # the axis of the half turn is orthogonal to `from` (otherwise from is not sent to -from)
                    algh = nf.Algebra()
                    Sh = Spec(algh)
                    unit_relation(algh, views[0].lanes)
                    try:
                        for l in ls:
                            algh.nf(l)
                        for v_, info in list(algh.var_info.items()):
                            if info[0] == 'fn' and info[1] in ('copysign', 'signum'):
                                algh.rel[v_] = Poly.const(1)
                        algh.memo.clear()
                        ah = [algh.nf(x) for x in views[0].lanes]
                        lh = [algh.nf(l) for l in ls[:3]]
                        if not algh.reduce(Sh.dot(ah, lh[:len(ah)])[0]).is_zero():
                            bad = 'the axis of the half turn is not orthogonal to `from`, so from is not mapped onto -from'
                            break
                    except ValueError:
                        pass
                    for t_ in trig:
                        c_ = t_.args[0]
                        cv = cval(c_)
                        if cv is None or not _pi_like(abs(cv), math.pi / 2, wdt):
                            bad = 'the anti-parallel branch rotates by twice %s, which is not a half turn (pi)' % (tm.show(c_, 0, 3)[:60])
                            break
                    if bad:
                        break
                else:
                    bad = 'a singular branch is neither a constant nor a fixed-angle rotation'
                    break
                continue
            try:
                q = [alg.nf(l) for l in ls]
                rot = S.quat_rotate(q, a)
                target = [S.neg(x) for x in b] if flip else b
                if not all(alg.reduce(S.sub(x, y)[0]).is_zero() for x, y in zip(rot, target)):
                    bad = 'on the regular branch q * from is not %sto (under |from| = |to| = 1)' % ('-' if flip else '')
                    break
                n_main += 1
            except ValueError as e:
                bad = 'not analysable: %s' % e
                break
        if bad is None and n_main == 0:
            bad = 'no regular branch found'
        done('R-ARCROT', name, bad, it)


def _subterms(t, op, out, seen):
    if t.id in seen:
        return
    seen.add(t.id)
    if t.op == op:
        out.append(t)
    for a in t.args:
        if isinstance(a, tm.T):
            _subterms(a, op, out, seen)


def _match_clamped(theta, m_atom):
    """theta == min(A, max(m, A - pi)) (any argument order)  ->  A, else None"""
    if theta.op == 'fmax~' and len(theta.args) == 2:
        # max(min(m, A), A - pi): the same value, because A - pi <= A
        for mn, low in ((theta.args[0], theta.args[1]), (theta.args[1], theta.args[0])):
            if mn.op == 'fmin~' and len(mn.args) == 2 and m_atom in mn.args and low.op == 'fadd':
                A = mn.args[0] if mn.args[1] is m_atom else mn.args[1]
                if A in low.args:
                    k = low.args[0] if low.args[1] is A else low.args[1]
                    if tm.is_const(k) and _pi_like(-tm.f_of(k), math.pi, tm.csize(k)):
                        return A
        return None
    if theta.op != 'fmin~' or len(theta.args) != 2:
        return None
    for A, mx in ((theta.args[0], theta.args[1]), (theta.args[1], theta.args[0])):
        if mx.op != 'fmax~' or len(mx.args) != 2 or m_atom not in mx.args:
            continue
        low = mx.args[0] if mx.args[1] is m_atom else mx.args[1]
        if low.op == 'fadd' and A in low.args:
            k = low.args[0] if low.args[1] is A else low.args[1]
            if tm.is_const(k) and _pi_like(-tm.f_of(k), math.pi, tm.csize(k)):
                return A
    return None


def check_rotate_towards(ctx, cfg, F, done):
    """Vec2 / Vec3 / Vec3A (and f64) rotate_towards(rhs, m): the result is self rotated - in the plane (2D) or about normalize(self x rhs) (3D) - by
    t = min(A, max(m, A - pi)) (2D: times the sign of the signed angle), A = the angle between the operands as computed by angle_between / |angle_to|.
    So the rotation never exceeds the remaining angle, equals it once m >= A, goes at most to the opposite direction for negative m, and preserves length."""
    from lift import canon_float
    Hx = _abstract_harness(F)
    for name, it in api_roots(F):
        st = (it.get('self_ty') or '').lstrip('&')
        tname = st.rsplit('::', 1)[-1]
        if it.get('trait') or (it.get('name') or '') != 'rotate_towards' or tname not in FLOAT_TYPES:
            continue
        body = F.body(it['key'])
        argtys = body['locals'][1:1 + body['argc']]
        rty = body['locals'][0]
        r = Hx.run(it['key'])
        if r.abort or r.ret is None:
            ctx.undecided('R-ROTTOW', cfg, name, r.abort or 'diverges')
            continue
        views = [ArgView(F, r, i, argtys[i]) for i in range(3)]
        lanes = value_lanes(F, r.ret, rty)
        if lanes is None or any(v.lanes is None for v in views):
            ctx.unverifiable('R-ROTTOW', cfg, name, 'operands / result lanes not found')
            continue
        lanes = [canon_float(l) for l in lanes]
        N = len(lanes)
        m_atom = views[2].lanes[0]
        trig = []
        seen = set()
        for l in lanes:
            _subterms(l, 'sin', trig, seen)
        seen = set()
        for l in lanes:
            _subterms(l, 'cos', trig, seen)
        targs = set(t.args[0] for t in trig)
        bad = None
        if len(targs) != 1:
            done('R-ROTTOW', name, 'the result is not built from the sine and cosine of one angle (%d distinct arguments)' % len(targs), it)
            continue
        T = list(targs)[0]
        alg = nf.Algebra()
        alg.budget = 600000
        S = Spec(alg)
        a = [alg.nf(x) for x in views[0].lanes]
        b = [alg.nf(x) for x in views[1].lanes]
        cosang = S.div(S.dot(a, b), alg.sqrt_r(S.mul(S.dot(a, a), S.dot(b, b))))
        if N == 2:
            theta = T
            if theta.op != 'fmul' or len(theta.args) != 2:
                bad = 'rotation angle is not (clamped angle) * sign'
            else:
                cl = [x for x in theta.args if _match_clamped(x, m_atom) is not None]
                if not cl:
                    bad = 'rotation angle is not min(A, max(max_angle, A - pi)) * sign(A)'
                else:
                    A = _match_clamped(cl[0], m_atom)
                    sg = [x for x in theta.args if x is not cl[0]][0]
                    cs = sg.args[2] if sg.op == 'ite' else sg
                    signed = A.args[0] if A.op == 'fabs' else None
                    if signed is None or cs.op != 'copysign' or cs.args[1] is not signed:
                        bad = 'the clamped magnitude is not |angle_to| or the sign factor is not signum(angle_to)'
                    else:
                        ac = [x for x in signed.args if x.op == 'acos_approx'] if signed.op == 'fmul' else []
                        if not ac or not S.eq(alg.nf(ac[0].args[0]), cosang):
                            bad = 'the signed angle is not acos_approx(a.b / sqrt(|a|^2 |b|^2)) * signum(perp_dot)'
            if not bad:
                h = alg.nf(T)
                s_, c_ = alg.sin_r(h), alg.cos_r(h)
                exp = [S.sub(S.mul(c_, a[0]), S.mul(s_, a[1])), S.add(S.mul(s_, a[0]), S.mul(c_, a[1]))]
                got = [alg.nf(l) for l in lanes]
                if not all(S.eq(g, e) for g, e in zip(got, exp)):
                    bad = 'result is not self rotated by the clamped angle (cos t x - sin t y, sin t x + cos t y)'
        else:
            theta = None
            if T.op == 'fmul' and len(T.args) == 2 and any(tm.is_const(x) and tm.f_of(x) == 0.5 for x in T.args):
                theta = [x for x in T.args if not (tm.is_const(x) and tm.f_of(x) == 0.5)][0]
            A = _match_clamped(theta, m_atom) if theta is not None else None
            if A is None:
                bad = 'rotation angle is not min(A, max(max_angle, A - pi)) evaluated at half angle'
            elif A.op != 'acos_approx' or not S.eq(alg.nf(A.args[0]), cosang):
                bad = 'A is not acos_approx(a.b / sqrt(|a|^2 |b|^2))'
            else:
                cases = cases_with_assignment(lanes, 8)
                if cases is None:
                    ctx.undecided('R-ROTTOW', cfg, name, 'too many selections')
                    continue
                h = alg.nf(T)
                s_, c_ = alg.sin_r(h), alg.cos_r(h)
                cr = S.cross(a[:3], b[:3])
                inv = S.div(S.c(1), alg.sqrt_r(S.dot(cr, cr)))
                q = [S.mul(x, inv, s_) for x in cr] + [c_]
                exp = S.quat_rotate(q, a[:3])
                n_main = 0
                try:
                    for asg, ls in cases:
                        got = [alg.nf(l) for l in ls[:3]]
                        if all(S.eq(g, e) for g, e in zip(got, exp)):
                            n_main += 1
                            continue
                        # every other branch (colinear operands: some orthogonal axis is chosen) must still preserve the length of self
                        alg2 = nf.Algebra()
                        alg2.budget = 600000
                        S2 = Spec(alg2)
                        for l in ls[:3]:
                            alg2.nf(l)
                        for v_, info in list(alg2.var_info.items()):
                            if info[0] == 'fn' and info[1] in ('copysign', 'signum'):
                                alg2.rel[v_] = Poly.const(1)
                        alg2.memo.clear()
                        g2 = [alg2.nf(l) for l in ls[:3]]
                        a2 = [alg2.nf(x) for x in views[0].lanes[:3]]
                        if not alg2.reduce(S2.sub(S2.dot(g2, g2), S2.dot(a2, a2))[0]).is_zero():
                            bad = 'a fallback branch does not preserve the length of self (the rotation axis it picks is not unit length)'
                            break
                        # and it turns self by the clamped angle: self . result = |self|^2 cos(angle), which needs the axis orthogonal to self
                        h2 = alg2.nf(T)
                        s2_, c2_ = alg2.sin_r(h2), alg2.cos_r(h2)
                        cosfull = S2.sub(S2.mul(c2_, c2_), S2.mul(s2_, s2_))
                        if not alg2.reduce(S2.sub(S2.dot(a2, g2), S2.mul(S2.dot(a2, a2), cosfull))[0]).is_zero():
                            bad = 'a fallback branch does not turn self by the clamped angle (its rotation axis is not orthogonal to self)'
                            break
                except ValueError as e:
                    ctx.undecided('R-ROTTOW', cfg, name, 'not analysable: %s' % e)
                    continue
                if not bad and n_main == 0:
                    bad = 'no branch is self rotated about normalize(self x rhs) by the clamped angle'
        done('R-ROTTOW', name, bad, it)


def _rename(src_root, dst_root, pairs):
    """atom mapping from the arguments of one root to those of another: pairs = [(src arg index, dst arg index)], matched by byte offset"""
    mp = {}
    for (si, di) in pairs:
        for a, ia in src_root.atoms.items():
            if ia.arg != si or ia.kind in ('len', 'discr', 'slice_all'):
                continue
            for b, ib in dst_root.atoms.items():
                if ib.arg == di and ib.off == ia.off and ib.kind == ia.kind:
                    mp[a] = b
    return mp


def _contains(t, sub, memo):
    r = memo.get(t.id)
    if r is not None:
        return r
    r = t is sub or any(isinstance(x, tm.T) and _contains(x, sub, memo) for x in t.args)
    memo[t.id] = r
    return r


def check_quat_rotate_towards(ctx, cfg, F, done):
    """Quat / DQuat rotate_towards(rhs, m): rhs itself when angle_between(self, rhs) <= a tiny threshold, otherwise self.slerp(rhs, s) with
    s = clamp(m / angle, -1, 1): at most the remaining angle (never past the target), the target exactly once m >= angle, towards the opposite for
    negative m.  The clamp is decided by the three orderings of m / angle against -1 and 1."""
    from C07 import canon_c07
    Hx = _abstract_harness(F)

    def find(tn, mn):
        for name, it in api_roots(F):
            st = (it.get('self_ty') or '').lstrip('&')
            if not it.get('trait') and st.rsplit('::', 1)[-1] == tn and (it.get('name') or '') == mn:
                return name, it
        return None, None
    for tn in ('Quat', 'DQuat'):
        name, it = find(tn, 'rotate_towards')
        sname, sit = find(tn, 'slerp')
        aname, ait = find(tn, 'angle_between')
        if it is None:
            continue
        if sit is None or ait is None:
            ctx.unverifiable('R-ROTTOW-Q', cfg, name, 'slerp / angle_between not found')
            continue
        rt, rs, ra = Hx.run(it['key']), Hx.run(sit['key']), Hx.run(ait['key'])
        if rt.abort or rs.abort or ra.abort or rt.ret is None:
            ctx.undecided('R-ROTTOW-Q', cfg, name, rt.abort or rs.abort or ra.abort or 'diverges')
            continue
        body = F.body(it['key'])
        argtys = body['locals'][1:1 + body['argc']]
        L = value_lanes(F, rt.ret, body['locals'][0])
        SL = value_lanes(F, rs.ret, F.body(sit['key'])['locals'][0])
        views = [ArgView(F, rt, i, argtys[i]) for i in range(3)]
        bad = None
        if L is None or SL is None or any(v.lanes is None for v in views) or not isinstance(ra.ret, tm.T):
            ctx.unverifiable('R-ROTTOW-Q', cfg, name, 'result / operand lanes not found')
            continue
        L = [canon_c07(l) for l in L]
        m_atom = views[2].lanes[0]
        A = tm.subst(canon_c07(ra.ret), _rename(ra, rt, [(0, 0), (1, 1)]))
        g = common_guard(L)
        if g is None:
            done('R-ROTTOW-Q', name, 'the result is not gated by one within-reach condition', it)
            continue
        G, X1, X2 = g
        near, main = (X1, X2) if all(x is y for x, y in zip(X1, views[1].lanes)) else ((X2, X1) if all(x is y for x, y in zip(X2, views[1].lanes)) else (None, None))
        if near is None:
            bad = 'neither branch returns rhs itself'
        else:
            near_when = (near is X1)
            ks = [x for x in G.args if isinstance(x, tm.T) and tm.is_const(x)] if G.op in ('flt', 'fle') else []
            others = [x for x in G.args if not tm.is_const(x)] if ks else []
            if len(ks) != 1 or len(others) != 1 or canon_c07(others[0]) is not A:
                bad = 'the within-reach condition is not a comparison of angle_between(self, rhs) with a constant'
            else:
                k = tm.f_of(ks[0])
                angle_small = (G.args[1] is ks[0])          # reads "angle < / <= k"
                if (angle_small != near_when) or not (0.0 < k <= 2e-4):
                    bad = 'rhs is not returned exactly when the remaining angle is below a tiny threshold (threshold %r)' % k
        if not bad:
            ren = _rename(rs, rt, [(0, 0), (1, 1)])
            s_atoms = [a for a, ia in rs.atoms.items() if ia.arg == 2]
            SLr = [tm.subst(canon_c07(l), ren) for l in SL]
            cands = []
            seen = set()
            memo = {}

            def collect(t):
                if t.id in seen:
                    return
                seen.add(t.id)
                if _contains(t, m_atom, memo):
                    cands.append(t)
                    for x in t.args:
                        if isinstance(x, tm.T):
                            collect(x)
            for l in main:
                collect(l)
            cands.sort(key=lambda t: len(tm.show(t, 0, 50)))
            T = None
            for c in cands:
                if all(tm.subst(x, {s_atoms[0]: c}) is y for x, y in zip(SLr, main)):
                    T = c
                    break
            if T is None:
                bad = 'the out-of-reach branch is not self.slerp(rhs, s) for any sub-expression s of the result'
            else:
                X = tm.f2('fdiv', m_atom, A)
                if not _contains(T, X, {}):
                    bad = 'the interpolation parameter does not depend on max_angle / angle'
                else:
                    sz = tm.csize(ks[0])
                    one, mone = tm.fconst(1.0, sz), tm.fconst(-1.0, sz)
                    B = lambda v: tm.TRUE if v else tm.FALSE
                    for (lo_, hi_, want) in ((True, False, mone), (False, False, X), (False, True, one)):
                        # lo_: X < -1, hi_: X > 1
                        mp = {tm.f2('flt', X, mone): B(lo_), tm.f2('fle', X, mone): B(lo_), tm.f2('flt', mone, X): B(not lo_), tm.f2('fle', mone, X): B(not lo_),
                              tm.f2('flt', one, X): B(hi_), tm.f2('fle', one, X): B(hi_), tm.f2('flt', X, one): B(not hi_), tm.f2('fle', X, one): B(not hi_),
                              tm.mk('fmax~', *sorted((X, mone))): (mone if lo_ else X), tm.mk('fmin~', *sorted((X, one))): (one if hi_ else X)}
                        v = T
                        for _it in range(5):
                            mp2 = {k_: v_ for k_, v_ in mp.items() if not tm.is_const(k_)}
                            for a_, b_ in ((X, mone), (X, one)):
                                for op_ in ('fmin~', 'fmax~'):
                                    for args_ in ((a_, b_), (b_, a_)):
                                        key_ = tm.mk(op_, *args_)
                                        lo_b = (b_ is mone)
                                        if op_ == 'fmax~':
                                            mp2[key_] = (mone if lo_ else X) if lo_b else (X if hi_ else one)
                                        else:
                                            mp2[key_] = (X if lo_ else mone) if lo_b else (one if hi_ else X)
                            v2 = canon_c07(tm.subst(v, mp2))
                            if v2 is v:
                                break
                            v = v2
                        if v.op == 'fmin~' and set(v.args) == {mone, one}:
                            v = mone
                        if v.op == 'fmax~' and set(v.args) == {mone, one}:
                            v = one
                        if v.op in ('fmin~', 'fmax~') and want in v.args and all(tm.is_const(x) for x in v.args):
                            fs = [tm.f_of(x) for x in v.args]
                            v = tm.fconst(min(fs) if v.op == 'fmin~' else max(fs), sz)
                        if v is not want:
                            bad = 'the interpolation parameter is not clamp(max_angle / angle, -1, 1): for max_angle / angle %s it is %s' % ('< -1' if lo_ else ('> 1' if hi_ else 'in [-1, 1]'), tm.show(v, 0, 4)[:120])
                            break
        done('R-ROTTOW-Q', name, bad, it)


def check_floatext(ctx, cfg, F, H, done):
    """FloatExt for f32 / f64: lerp(a, b, t) = a + (b - a) t, inverse_lerp(a, b, v) = (v - a) / (b - a), remap(x, i0, i1, o0, o1) = o0 + (o1 - o0) (x - i0) / (i1 - i0)"""
    n = 0
    for name, it in sorted(F.items.items()):
        if it.get('generic') or not (it.get('trait') or '').endswith('FloatExt') or it.get('name') not in ('lerp', 'inverse_lerp', 'remap'):
            continue
        r = H.run(it['key'])
        body = F.body(it['key'])
        n += 1
        if r.abort or not isinstance(r.ret, tm.T):
            ctx.unverifiable('R-FLOATEXT', cfg, name, r.abort or 'no scalar result')
            continue
        alg = nf.Algebra()
        S = Spec(alg)
        xs = [alg.nf(atom_at(r, i, 0)) for i in range(body['argc'])]
        mn = it['name']
        if mn == 'lerp':
            exp = S.add(xs[0], S.mul(S.sub(xs[1], xs[0]), xs[2]))
        elif mn == 'inverse_lerp':
            exp = S.div(S.sub(xs[2], xs[0]), S.sub(xs[1], xs[0]))
        else:
            t_ = S.div(S.sub(xs[0], xs[1]), S.sub(xs[2], xs[1]))
            exp = S.add(xs[3], S.mul(S.sub(xs[4], xs[3]), t_))
        bad = None if S.eq(alg.nf(r.ret), exp) else '%s is not its documented formula: got (%s) / (%s)' % (mn, alg.nf(r.ret)[0].show(alg.name, 6), alg.nf(r.ret)[1].show(alg.name, 4))
        done('R-FLOATEXT', name, bad, it)
    ctx.floor('FloatExt helper instances (%s)' % cfg, n, 6)


def _abstract_harness(F):
    """harness in which the polynomial arccos is the symbol acos_approx(.) and the SSE2 sine polynomial is sin(.) lane-wise (both certified by R-APPROX)"""
    from harness import Harness
    import tables
    from C02 import EXTRA
    xl = dict(EXTRA)
    import approx
    for hn in approx.sin_helpers(F) or ['sse2::m128_sin']:
        xl[hn] = lambda I, fr, callee, args, dest, argops, line: tables.vec([tm.mk('sin', x) for x in tables.lanes(I, args[0], 4, 4)], 4)
    return Harness(F, {'extra_leaf': xl})


_LEMMA = {}


def slerp_lemma(n, is_quat):
    """the semantic clause, as a lemma about the formula the code was just shown to compute: with t = acos(c) exactly and sines / cosines of sums
    expanded by the addition formulas,  r = (sin((1-s) t) a^ + sin(s t) b^) / sin t  satisfies  a.r = |a| |r| cos(s t),  b.r = |b| |r| cos((1-s) t)  and
    |r| = 1 (unit quaternions, c = a.b) / |r| = |a| + s (|b| - |a|) (vectors, c = a.b / |a||b|): the angle from the start is s times the total angle.
    Checked mechanically once per shape; returns None when it holds, else the failing clause."""
    if not is_quat:
        n = 2      # the three claims involve a, b, r = alpha a + beta b only through a.a, b.b, a.b, which are algebraically independent already in the plane
    key = (n, is_quat)
    if key in _LEMMA:
        return _LEMMA[key]
    from post import unit_relation
    alg = nf.Algebra()
    alg.budget = 400000
    alg.expand_angles = True
    alg.acos_exact = True
    S = Spec(alg)
    A = [tm.atom('lemma_a%d' % i) for i in range(n)]
    B = [tm.atom('lemma_b%d' % i) for i in range(n)]
    if is_quat:
        unit_relation(alg, A)
        unit_relation(alg, B)
    a = [alg.nf(x) for x in A]
    b = [alg.nf(x) for x in B]
    s_ = alg.nf(tm.atom('lemma_s'))
    dot = S.dot(a, b)
    res = None
    try:
        if is_quat:
            c = dot
            la = lb = L = S.c(1)
            aa, bb = a, b
        else:
            la, lb = alg.sqrt_r(S.dot(a, a)), alg.sqrt_r(S.dot(b, b))
            c = S.div(dot, S.mul(la, lb))
            L = S.add(la, S.mul(s_, S.sub(lb, la)))
            aa = [S.mul(x, S.div(L, la)) for x in a]
            bb = [S.mul(x, S.div(L, lb)) for x in b]
        theta = alg.fn_r('acos_approx', [c])
        t1 = alg.sin_r(S.mul(theta, S.sub(S.c(1), s_)))
        t2 = alg.sin_r(S.mul(theta, s_))
        st_ = alg.sin_r(theta)
        r = [S.div(S.add(S.mul(x, t1), S.mul(y, t2)), st_) for x, y in zip(aa, bb)]
        zero = lambda x: alg.reduce(x[0]).is_zero()
        if not zero(S.sub(S.dot(r, r), S.mul(L, L))):
            res = '|result| is not %s' % ('1' if is_quat else '|a| + s (|b| - |a|)')
        elif not zero(S.sub(S.dot(a, r), S.mul(la, L, alg.cos_r(S.mul(theta, s_))))):
            res = 'the angle between the start and the result is not s times the total angle'
        elif not zero(S.sub(S.dot(b, r), S.mul(lb, L, alg.cos_r(S.mul(theta, S.sub(S.c(1), s_)))))):
            res = 'the angle between the result and the end is not (1 - s) times the total angle'
    except ValueError as e:
        res = 'lemma not normalisable: %s' % e
    _LEMMA[key] = res
    return res


def _pi_like(v, target, width):
    """is the constant v the correctly rounded `target` of that float width (within 4 ulp)?"""
    eps = 2.0 ** -23 if width == 4 else 2.0 ** -52
    return abs(v - target) <= 4 * eps * abs(target)


def antiparallel_fallback(ls, views, width):
    """vector slerp between anti-parallel operands: r = R(axis, pi s) a (L / |a|) with axis a unit vector orthogonal to a:
    |r| = L, a.r = |a| L cos(pi s) (so the turn is s times the half turn, about an axis orthogonal to self), the trigonometric argument is
    (pi / 2) s with pi correctly rounded for the scalar type"""
    trig = []
    seen = set()
    for l in ls:
        _subterms(l, 'sin', trig, seen)
    seen = set()
    for l in ls:
        _subterms(l, 'cos', trig, seen)
    targs = set(t.args[0] for t in trig)
    if len(targs) != 1:
        return 'the half-turn fallback does not use the sine and cosine of one angle'
    T = list(targs)[0]
    alg = nf.Algebra()
    alg.budget = 600000
    S = Spec(alg)
    try:
        for l in ls:
            alg.nf(l)
        for v_, info in list(alg.var_info.items()):
            if info[0] == 'fn' and info[1] in ('copysign', 'signum'):
                alg.rel[v_] = Poly.const(1)
        alg.memo.clear()
        g = [alg.nf(l) for l in ls]
        a = [alg.nf(x) for x in views[0].lanes]
        b = [alg.nf(x) for x in views[1].lanes]
        s_ = alg.nf(views[2].lanes[0])
        h = alg.nf(T)
        # h = c * s with c = pi / 2
        if h[1] != ONE or len(h[0].t) != 1 or s_[1] != ONE or len(s_[0].t) != 1:
            return 'the half-turn angle is not a constant multiple of s'
        (mh, ch), = h[0].t.items()
        (ms, cs), = s_[0].t.items()
        if mh != ms or not _pi_like(float(ch / cs), math.pi / 2, width):
            return 'the half-turn fallback turns by %.9g s instead of pi s (pi of the scalar type)' % (2 * float(ch / cs) if mh == ms else float('nan'))
        sh, ch_ = alg.sin_r(h), alg.cos_r(h)
        la, lb = alg.sqrt_r(S.dot(a, a)), alg.sqrt_r(S.dot(b, b))
        L = S.add(la, S.mul(s_, S.sub(lb, la)))
        zero = lambda x: alg.reduce(x[0]).is_zero()
        if not zero(S.sub(S.dot(g, g), S.mul(L, L))):
            return 'the anti-parallel fallback branch does not have the interpolated length |a| + s (|b| - |a|)'
        cos_full = S.sub(S.mul(ch_, ch_), S.mul(sh, sh))
        if not zero(S.sub(S.dot(a, g), S.mul(la, L, cos_full))):
            return 'the anti-parallel fallback does not turn self by pi s about an axis orthogonal to self'
    except ValueError:
        return None
    return None


def check_slerp(ctx, cfg, F, done):
    """slerp(a, b, s): with b' = -b when a.b < 0 (quaternions: shorter arc), c = |a.b| (quaternions) or a.b / (|a||b|) (vectors) and theta = acos_approx(c),
    the spherical branch returns (sin((1-s) theta) a^ + sin(s theta) b^) / sin(theta) (vectors: a^ = a L/|a|, b^ = b L/|b|, L = |a| + s(|b| - |a|));
    the near-parallel branch of the quaternion form is the normalised lerp.  Decided per branch (conditions substituted by constants)."""
    from post import split_cases
    from C07 import canon_c07
    Hx = _abstract_harness(F)
    for name, it in api_roots(F):
        st = (it.get('self_ty') or '').lstrip('&')
        tname = st.rsplit('::', 1)[-1]
        if it.get('trait') or (it.get('name') or '') != 'slerp':
            continue
        is_quat = tname in ('Quat', 'DQuat')
        if not is_quat and tname not in FLOAT_TYPES:
            continue
        body = F.body(it['key'])
        argtys = body['locals'][1:1 + body['argc']]
        rty = body['locals'][0]
        r = Hx.run(it['key'])
        if r.abort or r.ret is None:
            ctx.undecided('R-SLERP', cfg, name, r.abort or 'diverges')
            continue
        views = [ArgView(F, r, i, argtys[i]) for i in range(3)]
        lanes = value_lanes(F, r.ret, rty)
        if lanes is None or any(v.lanes is None for v in views):
            ctx.unverifiable('R-SLERP', cfg, name, 'operands / result lanes not found')
            continue
        lanes = [canon_c07(l) for l in lanes]
        cases = cases_with_assignment(lanes, 7)
        if cases is None:
            ctx.undecided('R-SLERP', cfg, name, 'too many selections')
            continue
        n_sph = 0
        n_fallback = 0
        bad = None
        width = 4 if (tname in ('Quat',) or FLOAT_TYPES.get(tname) == 'f32') else 8
        for asg, ls in cases:
            alg = nf.Algebra()
            alg.budget = 400000
            S = Spec(alg)
            a = [alg.nf(x) for x in views[0].lanes]
            b = [alg.nf(x) for x in views[1].lanes]
            s_ = alg.nf(views[2].lanes[0])
            try:
                got = [alg.nf(l) for l in ls]
            except ValueError as e:
                bad = 'not analysable: %s' % e
                break
            dot = S.dot(a, b)
            # --- what the branch conditions of this case say: is a.b negative?  is the pair beyond the near-parallel threshold?
            neg = near = None
            for c_, v_ in asg.items():
                if c_.op not in ('flt', 'fle') or len(c_.args) != 2:
                    continue
                x_, y_ = c_.args
                kx, ky = (tm.f_of(x_) if tm.is_const(x_) else None), (tm.f_of(y_) if tm.is_const(y_) else None)
                k = kx if kx is not None else ky
                if k is None:
                    continue
                other = y_ if kx is not None else x_
                if k == 0.0:
                    sg = None
                    if is_quat:
                        try:
                            d_ = alg.nf(other)
                            sg = 1 if S.eq(d_, dot) else (-1 if S.eq(d_, S.neg(dot)) else None)
                        except ValueError:
                            sg = None
                    else:
                        sg = 1        # the vector form tests its normalised dot product
                    if sg is not None:
                        reads_neg = (ky is not None) if sg == 1 else (kx is not None)      # the condition reads "a.b < 0"
                        neg = v_ if reads_neg else not v_
                elif 0.25 < abs(k) < 1.0 + 1e-9:
                    # quaternions: the threshold is 1 - eps of the scalar type itself (a binary32 epsilon in the f64 file switches to the
                    # linear fallback for arcs of up to 5e-4 rad); the vector form uses one absolute threshold for both widths
                    lim_ = 1e-6 if not is_quat else 64 * (2.0 ** -23 if tm.csize(x_ if kx is not None else y_) == 4 else 2.0 ** -52)
                    if 1.0 - abs(k) > lim_:
                        bad = 'the near-parallel fallback starts at |cos angle| > %r: arcs of up to %.3g rad are interpolated linearly instead of spherically' % (k, math.acos(min(1.0, abs(k))))
                    reads_gt = kx is not None           # flt(k, X): X > k
                    near = v_ if reads_gt else not v_
            if bad:
                break
            txt = ''.join(tm.show(l, 0, 60) for l in ls)
            spherical = 'acos_approx' in txt
            trig = ('sin(' in txt or 'cos(' in txt)
            if spherical and near:
                bad = 'the spherical formula is used on the near-parallel side of the threshold (sin t ~ 0 in the denominator) and the fallback on the regular side: the comparison is reversed'
                break
            if not spherical:
                if near is False:
                    bad = 'a fallback branch is taken although the operands are not near-parallel (comparison reversed)'
                    break
                if is_quat:
                    # near-parallel quaternions: the normalised lerp towards +-end
                    sgn = S.c(-1) if neg else S.c(1)
                    un = [S.add(x, S.mul(s_, S.sub(S.mul(y, sgn), x))) for x, y in zip(a, b)]
                    inv = S.div(S.c(1), alg.sqrt_r(S.dot(un, un)))
                    try:
                        if not all(S.eq(g, S.mul(u, inv)) for g, u in zip(got, un)):
                            bad = 'the near-parallel branch is not normalize(self + s (+-end - self)) with the sign of the arc'
                            break
                    except ValueError:
                        pass
                    n_fallback += 1
                    continue
                if trig:
                    if neg is False:
                        bad = 'the half-turn fallback is taken for operands pointing the same way (a.b >= 0): comparison reversed'
                        break
                    # anti-parallel vectors: self turned by pi s about an axis orthogonal to it, rescaled to the interpolated length
                    why = antiparallel_fallback(ls, views, width)
                    if why:
                        bad = why
                        break
                    n_fallback += 1
                    continue
                if neg is True:
                    bad = 'the linear fallback is taken for anti-parallel operands (a.b < 0): comparison reversed'
                    break
                un = [S.add(x, S.mul(s_, S.sub(y, x))) for x, y in zip(a, b)]
                try:
                    if not all(S.eq(g, u) for g, u in zip(got, un)):
                        bad = 'the near-parallel branch is not self + s (rhs - self)'
                        break
                except ValueError:
                    pass
                n_fallback += 1
                continue
            ok = False
            for sign in (((-1 if neg else 1),) if (is_quat and neg is not None) else (1, -1)):
                if is_quat:
                    c = dot if sign == 1 else S.neg(dot)
                    bb = b if sign == 1 else [S.neg(x) for x in b]
                    aa = a
                else:
                    if sign == -1:
                        continue
                    la, lb = alg.sqrt_r(S.dot(a, a)), alg.sqrt_r(S.dot(b, b))
                    c = S.div(dot, S.mul(la, lb))
                    L = S.add(la, S.mul(s_, S.sub(lb, la)))
                    aa = [S.mul(x, S.div(L, la)) for x in a]
                    bb = [S.mul(x, S.div(L, lb)) for x in b]
                theta = alg.fn_r('acos_approx', [c])
                t1 = alg.sin_r(S.mul(theta, S.sub(S.c(1), s_)))
                t2 = alg.sin_r(S.mul(theta, s_))
                st_ = alg.sin_r(theta)
                exp = [S.div(S.add(S.mul(x, t1), S.mul(y, t2)), st_) for x, y in zip(aa, bb)]
                if all(S.eq(g, e) for g, e in zip(got, exp)):
                    ok = True
                    break
            if ok:
                n_sph += 1
                why = slerp_lemma(len(views[0].lanes), is_quat)
                if why:
                    bad = why
                    break
            else:
                bad = 'a spherical branch is not (sin((1-s) t) a + sin(s t) b) / sin(t) with t = acos_approx(cos of the angle): lane 0 is %s' % got[0][0].show(alg.name, 6)
                break
        if bad is None and n_fallback == 0:
            bad = 'no near-parallel fallback branch found'
        if bad is None and n_sph == 0:
            bad = 'no spherical branch found'
        done('R-SLERP', name, bad, it)


def run(ctx):
    configs = ctx.need(CONFIGS_QUICK if ctx.tier == 'quick' else CONFIGS_THOROUGH)
    ctx.trusted = TRUSTED_COMMON + ['x*1 = x, x+0 = x (up to the sign of zero), x*0 = 0 for finite x', 'reference mathematics rules/spec.py']
    for cfg in configs:
        F = ctx.facts(cfg)
        H = ctx.harness(cfg)
        counts = {}

        def done(rule, name, bad, it):
            counts[rule] = counts.get(rule, 0) + 1
            if bad:
                ctx.violation(rule, cfg, name, {'file': it['file'], 'line': it['line'], 'problem': bad})
            else:
                ctx.holds(rule, cfg, name)

        for name, it in api_roots(F):
            st = (it.get('self_ty') or '').lstrip('&')
            tname = st.rsplit('::', 1)[-1]
            mname = it.get('name') or ''
            if it.get('trait'):
                continue
            body = F.body(it['key'])
            argtys = body['locals'][1:1 + body['argc']]
            rty = body['locals'][0]
            if tname in FLOAT_TYPES:
                sz = 4 if FLOAT_TYPES[tname] == 'f32' else 8
                if mname == 'lerp':
                    bad = None
                    for sval, which in ((0.0, 0), (1.0, 1)):
                        r = H.run(it['key'], overrides={(2, 0): tm.fconst(sval, sz)})
                        if r.abort:
                            bad = r.abort
                            break
                        views = [ArgView(F, r, i, argtys[i]) for i in range(2)]
                        lanes = value_lanes(F, r.ret, rty)
                        for i, l in enumerate(lanes or []):
                            if fold_exact(l) is not views[which].lanes[i]:
                                bad = 'lerp at s = %g: lane %d folds to %s, expected exactly the %s operand' % (sval, i, tm.show(fold_exact(l), 0, 4)[:160], 'first' if which == 0 else 'second')
                                break
                        if bad or lanes is None:
                            bad = bad or 'no lanes'
                            break
                    if not bad:
                        # ... and affine in between: the real function is a + s (b - a)
                        r = H.run(it['key'])
                        if r.abort:
                            bad = r.abort
                        else:
                            alg = nf.Algebra()
                            S = Spec(alg)
                            views = [ArgView(F, r, i, argtys[i]) for i in range(3)]
                            lanes = value_lanes(F, r.ret, rty)
                            a_ = [alg.nf(x) for x in views[0].lanes]
                            b_ = [alg.nf(x) for x in views[1].lanes]
                            s_ = alg.nf(views[2].lanes[0])
                            for i, l in enumerate(lanes or []):
                                if not S.eq(alg.nf(l), S.add(a_[i], S.mul(s_, S.sub(b_[i], a_[i])))):
                                    bad = 'lerp lane %d is not self + s (rhs - self): not affine in s' % i
                                    break
                    done('R-ENDPOINT', name, bad, it)
                elif mname == 'move_towards':
                    r = H.run(it['key'])
                    bad = r.abort
                    if not bad:
                        alg = nf.Algebra()
                        S = Spec(alg)
                        views = [ArgView(F, r, i, argtys[i]) for i in range(3)]
                        a, b = [alg.nf(x) for x in views[0].lanes], [alg.nf(x) for x in views[1].lanes]
                        d = alg.nf(views[2].lanes[0])
                        lanes = value_lanes(F, r.ret, rty)
                        g = common_guard(lanes) if lanes else None
                        diff = [S.sub(y, x) for x, y in zip(a, b)]
                        ln = alg.sqrt_r(S.dot(diff, diff))
                        if g is None:
                            bad = 'result is not gated by one condition'
                        else:
                            G, A_, B_ = g
                            eps = tm.fconst(1e-4, sz)
                            okG = G.op == 'or' and len(G.args) == 2 and all(x.op == 'fle' and S.eq(alg.nf(x.args[0]), ln) for x in G.args) and \
                                {id(x.args[1]) for x in G.args} == {id(views[2].lanes[0]), id(eps)}
                            if not okG and G.op == 'fle' and S.eq(alg.nf(G.args[0]), ln) and G.args[1].op in ('fmax', 'fmax~') and \
                                    {id(x) for x in G.args[1].args} == {id(views[2].lanes[0]), id(eps)}:
                                okG = True        # len <= max(d, 1e-4): the same condition
                            if not okG:
                                bad = 'guard is %s, expected len <= d || len <= 1e-4' % tm.show(G, 0, 3)[:200]
                            elif any(x is not y for x, y in zip(A_, views[1].lanes)):
                                bad = 'within reach the result is not exactly the target'
                            else:
                                for i in range(len(a)):
                                    exp = S.add(a[i], S.mul(diff[i], S.div(d, ln)))
                                    if not S.eq(alg.nf(B_[i]), exp):
                                        bad = 'out of reach lane %d is not self + (rhs - self) * d / len' % i
                                        break
                    done('R-STEER', name, bad, it)
                elif mname in ('clamp_length', 'clamp_length_min', 'clamp_length_max'):
                    r = H.run(it['key'])
                    bad = r.abort
                    if not bad:
                        alg = nf.Algebra()
                        S = Spec(alg)
                        views = [ArgView(F, r, i, argtys[i]) for i in range(body['argc'])]
                        a = [alg.nf(x) for x in views[0].lanes]
                        len2 = S.dot(a, a)
                        lanes = value_lanes(F, r.ret, rty)
                        # peel the nested gates (common to all lanes)
                        bounds = [v.lanes[0] for v in views[1:]]
                        cur = lanes
                        branches = []
                        while cur and all(l.op == 'ite' for l in cur) and len({l.args[0].id for l in cur}) == 1:
                            branches.append((cur[0].args[0], [l.args[1] for l in cur]))
                            cur = [l.args[2] for l in cur]
                        if not branches or any(x is not y for x, y in zip(cur, views[0].lanes)):
                            bad = 'the in-range branch does not return self unchanged'
                        for (G, vals) in branches:
                            if bad:
                                break
                            # guard: len^2 < b*b  or  b*b < len^2
                            ok = G.op == 'flt' and any(S.eq(alg.nf(x), len2) for x in G.args)
                            other = [x for x in G.args if not S.eq(alg.nf(x), len2)] if ok else []
                            ok = ok and len(other) == 1 and any(S.eq(alg.nf(other[0]), S.mul(alg.nf(bd), alg.nf(bd))) for bd in bounds)
                            if not ok:
                                bad = 'guard %s is not a comparison of length^2 with bound^2' % tm.show(G, 0, 3)[:160]
                                break
                            bd = [bd_ for bd_ in bounds if S.eq(alg.nf(other[0]), S.mul(alg.nf(bd_), alg.nf(bd_)))][0]
                            # direction of the comparison: the minimum bound applies when length^2 < min^2, the maximum when max^2 < length^2
                            len_first = S.eq(alg.nf(G.args[0]), len2)
                            is_min = (mname == 'clamp_length_min') or (mname == 'clamp_length' and bd is bounds[0])
                            if is_min != len_first:
                                bad = 'the %s bound is applied when length^2 %s bound^2 (comparison reversed)' % ('minimum' if is_min else 'maximum', '>' if is_min else '<')
                                break
                            k = S.div(alg.nf(bd), alg.sqrt_r(len2))
                            for i in range(len(a)):
                                if not S.eq(alg.nf(vals[i]), S.mul(a[i], k)):
                                    bad = 'clamped lane %d is not self[%d] * bound / length (direction not kept)' % (i, i)
                                    break
                    done('R-CLAMP', name, bad, it)
                elif mname in ('any_orthogonal_vector', 'any_orthonormal_vector', 'any_orthonormal_pair'):
                    r = H.run(it['key'])
                    bad = r.abort
                    if not bad:
                        alg = nf.Algebra()
                        S = Spec(alg)
                        views = [ArgView(F, r, 0, argtys[0])]
                        a_t = views[0].lanes
                        a = [alg.nf(x) for x in a_t]
                        if mname == 'any_orthogonal_vector':
                            lanes = value_lanes(F, r.ret, rty)
                            g = common_guard(lanes)
                            outs = [g[1], g[2]] if g else [lanes]
                            for o in outs:
                                if not S.eq(S.dot(a, [alg.nf(x) for x in o]), S.c(0)):
                                    bad = 'a branch of any_orthogonal_vector is not orthogonal to self'
                            # ... and never the zero vector for a non-zero self.  The result lanes are +-lanes of self or 0, selected by comparisons among
                            # the lanes / their absolute values / 0, so the outcome depends only on the signs and on the ordering of the magnitudes:
                            # the integer grid -3..3 realises every such pattern (three distinct magnitudes, ties and zeros included)
                            grid_ok = None
                            if not bad:
                                grid_ok = orthogonal_grid(lanes, a_t)
                                if isinstance(grid_ok, str):
                                    bad = grid_ok
                            if not bad and grid_ok is None and g and g[0].op == 'flt' and all(x.op == 'fabs' for x in g[0].args):
                                big = {True: g[0].args[1].args[0], False: g[0].args[0].args[0]}
                                for truth, o in ((True, g[1]), (False, g[2])):
                                    on = [alg.nf(x) for x in o]
                                    bq = alg.nf(big[truth])
                                    rest = S.sub(S.dot(on, on), S.mul(bq, bq))
                                    if rest[1] != ONE or not (rest[0].is_zero() or alg._nonneg(rest[0])):
                                        bad = 'on the branch taken when %s the result does not contain the larger component: it can be the zero vector for a non-zero self' % tm.show(g[0] if truth else tm.b_not(g[0]), 0, 3)[:120]
                                        break
                        else:
                            if mname == 'any_orthonormal_pair':
                                t = F.types[rty]
                                vs = []
                                for (o, fid, _n) in t['fields']:
                                    vi = vec_info(F, fid)
                                    vs.append([cell_term(r.ret, o + off, s2) for (off, s2) in vi['lanes']])
                            else:
                                vs = [value_lanes(F, r.ret, rty)]
                            # first pass creates the opaque sign variable; then add |self|^2 = 1 and sign^2 = 1
                            for v in vs:
                                for x in v:
                                    alg.nf(x)
                            xvar = alg.var_for_atom(a_t[0])
                            rel = Poly.const(1)
                            for y in a_t[1:]:
                                yv = alg.var_for_atom(y)
                                rel = rel - Poly({((yv, 2),): nf.Fraction(1)})
                            alg.add_relation(xvar, rel)
                            for v_, info in list(alg.var_info.items()):
                                if info[0] == 'fn' and info[1] in ('ite', 'copysign'):
                                    alg.add_relation(v_, Poly.const(1))
                            a = [alg.nf(x) for x in a_t]
                            vn = [[alg.nf(x) for x in v] for v in vs]

                            def is_zero(rat):
                                return alg.reduce(rat[0]).is_zero()
                            for v in vn:
                                if not is_zero(S.dot(a, v)):
                                    bad = 'result is not orthogonal to self (under |self| = 1)'
                                if not bad and not is_zero(S.sub(S.dot(v, v), S.c(1))):
                                    bad = 'result is not unit length (under |self| = 1)'
                            if not bad and len(vn) == 2 and not is_zero(S.dot(vn[0], vn[1])):
                                bad = 'the pair is not mutually orthogonal'
                            if not bad:
                                # no pole on the unit sphere: every divisor is sign(z) + z (|.| >= 1), never a plain 1 + z that vanishes at z = -1
                                dens = []
                                seen_ = set()
                                st_ = [x for v in vs for x in v]
                                while st_:
                                    t_ = st_.pop()
                                    if t_.id in seen_:
                                        continue
                                    seen_.add(t_.id)
                                    if t_.op == 'fdiv':
                                        dens.append(t_.args[1])
                                    st_.extend(x for x in t_.args if isinstance(x, tm.T))
                                for d_ in dens:
                                    dn = alg.nf(d_)
                                    vars_ = dn[0].variables()
                                    has_sign = any(alg.var_info.get(v_, ('?', '?'))[0] == 'fn' and alg.var_info[v_][1] in ('ite', 'copysign', 'signum') for v_ in vars_)
                                    if dn[1] == ONE and not dn[0].is_const() and not has_sign:
                                        bad = 'divides by %s, which vanishes for a unit input (no sign term keeps it away from zero): the result is not finite there' % dn[0].show(alg.name, 4)
                                        break
                    done('R-ORTHO', name, bad, it)
            elif tname in ('Quat', 'DQuat') and mname == 'lerp':
                r = H.run(it['key'])
                bad = r.abort
                if not bad:
                    sz = 4 if tname == 'Quat' else 8
                    views = [ArgView(F, r, i, argtys[i]) for i in range(3)]
                    alg = nf.Algebra()
                    S = Spec(alg)
                    a = [alg.nf(x) for x in views[0].lanes]
                    b = [alg.nf(x) for x in views[1].lanes]
                    dot = S.dot(a, b)
                    from C07 import canon_c07
                    lanes = [canon_c07(l) for l in (value_lanes(F, r.ret, rty) or [])]
                    # the bias: every +-1 selection in the result (scalar form: an ite; SIMD form: a sign-bit xor, read as multiplication by +-1)
                    # must be decided by the sign of the full four-component dot product
                    seen = []

                    def walk(t, memo):
                        if t.id in memo:
                            return
                        memo.add(t.id)
                        if t.op == 'ite' and tm.is_const(t.args[1]) and tm.is_const(t.args[2]):
                            seen.append(t)
                        for x in t.args:
                            if isinstance(x, tm.T):
                                walk(x, memo)
                    memo = set()
                    for l in lanes:
                        walk(l, memo)
                    biases = [t for t in seen if {tm.f_of(t.args[1]), tm.f_of(t.args[2])} == {1.0, -1.0}]
                    if not biases:
                        bad = 'no shortest-arc sign flip found'
                    zero = tm.fconst(0.0, sz)
                    for t in biases:
                        G = t.args[0]
                        pos_when_true = tm.f_of(t.args[1]) == 1.0
                        okG = (G.op == 'fle' and G.args[0] is zero and S.eq(alg.nf(G.args[1]), dot) and pos_when_true) or \
                              (G.op == 'flt' and G.args[1] is zero and S.eq(alg.nf(G.args[0]), dot) and not pos_when_true)
                        if not okG:
                            bad = 'end point is not negated exactly when the four-component dot product is negative: guard %s' % tm.show(G, 0, 3)[:200]
                            break
                    if not bad and lanes:
                        # and the result is normalize(self + s (end' - self)) lane by lane
                        sgn = alg.nf(biases[0])
                        s_ = alg.nf(views[2].lanes[0])
                        un = [S.add(x, S.mul(s_, S.sub(S.mul(y, sgn), x))) for x, y in zip(a, b)]
                        inv = S.div(S.c(1), alg.sqrt_r(S.dot(un, un)))
                        if not all(S.eq(alg.nf(l), S.mul(u, inv)) for l, u in zip(lanes, un)):
                            bad = 'lerp is not normalize(self + s (+-end - self))'
                done('R-ARC', name, bad, it)
        # R-ROTTOW-Q: quaternion rotate_towards is slerp with the clamped ratio
        check_quat_rotate_towards(ctx, cfg, F, done)
        # R-FLOATEXT: the scalar helpers lerp / inverse_lerp / remap
        check_floatext(ctx, cfg, F, H, done)
        # R-ROTTOW: vector rotate_towards is a rotation of self by the clamped angle
        check_rotate_towards(ctx, cfg, F, done)
        # R-ARCROT: from_rotation_arc(a, b) rotates a onto b
        check_rotation_arc(ctx, cfg, F, H, done)
        # R-SLERP: the interpolation formula itself, with the arccos and sine evaluations as opaque function symbols
        check_slerp(ctx, cfg, F, done)
        # accuracy of the approximations slerp / rotate_towards / angle_between are built on (interval certificates, rules/approx.py):
        # the polynomial arccos everywhere, and the SSE2 backend's own sine polynomial used by Quat::slerp
        import approx
        from harness import Harness
        Hp = Harness(F)
        has_sin = bool(approx.sin_helpers(F))
        n_c = approx.run_certs(ctx, cfg, F, Hp, ['f32::math::acos_approx_f32'] + (['sse2::m128_sin'] if has_sin else []))
        ctx.floor('approximation accuracy certificates (%s)' % cfg, n_c, 2 if has_sin else 1)
        ctx.floor('interpolation / steering / clamping instances (%s)' % cfg, sum(counts.values()), 40)
        for k, v in sorted(counts.items()):
            ctx.count('%s:%s' % (k, cfg), v)
    ctx.extra['exhaustive'] = True
