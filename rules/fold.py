"""R-FOLD: Sum / Product over iterators are left folds of + / * starting from ZERO / ONE (shared by C01 and C13).

The impls are generic over the iterator type, so they are read from the generic MIR body: it must be exactly one call of
Iterator::fold(iter, INIT, F) whose result is returned, with INIT the constant whose visible lanes are all 0 (Sum) / all 1 (Product), and F
either the type's own Add::add / Mul::mul, or a closure whose body - interpreted on symbolic operands - returns exactly what that
operator returns on (accumulator, *element) with the same panic sites."""
import re
import terms as tm
from interp import Interp
from harness import Harness, leaf_table
from common import vec_info, tydef, hidden_offsets, leaves_plain
from lift import value_lanes, strip_ref

FOLD_PATHS = ('std::iter::Iterator::fold', 'core::iter::Iterator::fold', 'core::iter::traits::iterator::Iterator::fold', 'std::iter::traits::iterator::Iterator::fold')


def _const_lanes(F, H, k, tyid):
    I = Interp(F, leaf_table(), {})
    v = I.eval_const(k)
    if isinstance(v, tm.T):
        return [v]
    lanes = value_lanes(F, v, tyid)
    if lanes is not None:
        return lanes
    hid = set(hidden_offsets(F, tyid))
    out = []
    for (o, sz, lt) in leaves_plain(F, tyid):
        if o in hid:
            continue
        c = v.cells.get(o)
        out.append(c[1] if c else None)
    return out


def _is_value(t, want, is_float):
    if t is None or not tm.is_const(t):
        return False
    if is_float:
        return tm.f_of(t) == float(want)
    return tm.to_signed(tm.cbits(t), tm.csize(t)) == want


def check_folds(ctx, cfg, F, H, type_filter, done, product_unit=None):
    """type_filter(type name) -> scalar kind 'float' / 'int' or None.  done(rule, name, bad, it)"""
    n = 0
    for name, it in sorted(F.items.items()):
        tr = (it.get('trait') or '')
        kind = 'Sum' if re.search(r'\bSum\b', tr) else ('Product' if re.search(r'\bProduct\b', tr) else None)
        if kind is None or not it.get('generic') or it.get('name') not in ('sum', 'product'):
            continue
        st = (it.get('self_ty') or '')
        tn = st.rsplit('::', 1)[-1]
        sk = type_filter(tn)
        if sk is None:
            continue
        n += 1
        body = F.body(it['key'])
        bad = None
        calls = [(i, bb) for i, bb in enumerate(body['blocks']) if bb is not None and bb['t'][0] == 'call']
        rets = [bb for bb in body['blocks'] if bb is not None and bb['t'][0] == 'ret']
        other = [bb for bb in body['blocks'] if bb is not None and bb['t'][0] not in ('call', 'ret', 'goto', 'drop', 'resume', 'unreachable')]
        deleg = False
        if len(calls) == 2 and not other and re.search(r'(Sum|Product)<&', name):
            # impl Sum<&Self>: `iter.copied().sum()` / `iter.cloned().product()` hands the same elements, in order, to the by-value impl (checked on its own)
            c0, c1 = calls[0][1]['t'], calls[1][1]['t']
            d0, d1 = c0[1].get('d', ''), c1[1].get('d', '')
            if d0.rsplit('::', 1)[-1] in ('copied', 'cloned') and 'Iterator' in d0 and d1.rsplit('::', 1)[-1] == kind.lower() and 'Iterator' in d1 \
                    and c1[1].get('k', '').endswith('::<%s>' % st) and c1[3][0] == 0 and not c1[3][1] \
                    and c1[2] and c1[2][0][0] in 'cm' and c1[2][0][1][0] == c0[3][0]:
                deleg = True
        if deleg:
            pass
        elif len(calls) != 1 or other:
            bad = '%s is not a single Iterator::fold call (%d calls, %d other terminators)' % (kind.lower(), len(calls), len(other))
        else:
            t = calls[0][1]['t']
            callee, args, dest = t[1], t[2], t[3]
            if callee.get('d') not in FOLD_PATHS:
                bad = '%s calls %s, expected Iterator::fold' % (kind.lower(), callee.get('d'))
            elif dest[0] != 0 or dest[1]:
                bad = 'the fold result is not returned directly'
            else:
                rty = body['locals'][0]
                init = args[1]
                want = 0 if kind == 'Sum' else 1
                if init[0] != 'k':
                    bad = 'the fold does not start from a constant'
                else:
                    lanes = _const_lanes(F, H, init[1], rty)
                    if kind == 'Product' and product_unit is not None:
                        # the multiplicative unit of the type (identity matrix / quaternion), element by element
                        unit = product_unit(tn, len(lanes or []))
                        if not lanes or unit is None or len(unit) != len(lanes) or not all(_is_value(x, u, True) for x, u in zip(lanes, unit)):
                            bad = 'the product does not start from the identity of the type: %s' % [tm.show(x) if x is not None else None for x in (lanes or [])][:16]
                    elif not lanes or not all(_is_value(x, want, sk == 'float') for x in lanes):
                        bad = 'the fold starts from %s, expected every element %d' % ([tm.show(x) if x is not None else None for x in (lanes or [])][:4], want)
                if not bad:
                    opname = 'add' if kind == 'Sum' else 'mul'
                    optrait = 'Add' if kind == 'Sum' else 'Mul'
                    f = args[2]
                    # the operator impl of Self on Self by value
                    op_item = None
                    for n2, it2 in F.items.items():
                        if it2.get('name') == opname and (it2.get('trait') or '').endswith('::' + optrait) and (it2.get('self_ty') or '') == st and not it2.get('generic'):
                            b2 = F.body(it2['key'])
                            if b2 and b2['argc'] == 2 and b2['locals'][1] == rty and b2['locals'][2] == rty:
                                op_item = it2
                                break
                    if op_item is None:
                        bad = 'operator %s of %s not found' % (optrait, tn)
                    elif f[0] == 'k' and f[1][0] == 'fn':
                        if f[1][1].get('k') != op_item['key'] and f[1][1].get('d') != op_item.get('d'):
                            bad = 'the fold combines with %s, expected <%s as %s>::%s' % (f[1][1].get('d'), tn, optrait, opname)
                    else:
                        # a closure: find its body and interpret it
                        cty = body['locals'][f[1][0]] if f[0] in 'cm' else None
                        ckey = it['key'] + '::{closure#0}'
                        if not F.has_body(ckey):
                            ckey = None
                        if ckey is None:
                            bad = 'closure of the fold not found in the facts'
                        else:
                            rc = H.run(ckey)
                            cb = F.body(ckey)
                            if rc.abort or rc.ret is None:
                                bad = 'closure not analysable: %s' % rc.abort
                            else:
                                # arguments: (closure env, accumulator, element or &element)
                                acc = rc.args[1]
                                el = rc.args[2]
                                ety, by_ref = strip_ref(F, cb['locals'][3])
                                if by_ref:
                                    oids = [oid for (ai, base, oid, pty, mut, ln) in rc.arg_objs if ai == 2]
                                    # the element as it was before the call (the closure only reads it)
                                    el = rc.heap.get(oids[0]) if oids else None
                                ro = H.run(op_item['key'], arg_values={0: acc, 1: el}) if el is not None else None
                                if ro is None or ro.abort:
                                    bad = 'operator not analysable on the closure operands'
                                else:
                                    la, lb = value_lanes(F, rc.ret, rty), value_lanes(F, ro.ret, rty)
                                    if la is None or lb is None:
                                        from C07 import value_cells
                                        la, lb = value_cells(F, rc.ret, rty), value_cells(F, ro.ret, rty)
                                    if la is None or lb is None or len(la) != len(lb) or any(x is not y for x, y in zip(la, lb)):
                                        bad = 'the closure does not return accumulator %s element' % ('+' if kind == 'Sum' else '*')
                                    elif len([p for p in rc.panics if p.cond is not tm.FALSE]) != len([p for p in ro.panics if p.cond is not tm.FALSE]):
                                        bad = 'the closure does not have the panic sites of the operator'
        done('R-FOLD', name, bad, it)
    return n
