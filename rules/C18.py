"""C18 - only documented panics occur and no access goes out of bounds.

R-PANIC: every panic site reachable from a public function (after folding infeasible conditions) must be
in the documented-panic table.  R-BOUNDS: every raw memory access through a slice argument is covered by
a length check established earlier on the path; every raw store fits its destination object, with
sufficient alignment; MaybeUninit results are fully initialised.  R-ATOMIC: in the slice writers a documented panic is never reachable
after part of the destination has been written (path-sensitive write marker kept in the abstract heap).  R-SLICELEN / R-INDEXRANGE: the
slice and index functions panic exactly for too-short slices / out-of-range indices (decided on the finite orderings of the length / index
against the constants it is compared with), and those panics depend on the length / index only, never on the stored values.  R-DOC: an inherent
public function that owns such a panic announces it in its rustdoc."""
import re
import terms as tm
from common import api_roots, tydef, vec_info, leaves_plain, hidden_offsets, TRUSTED_COMMON, rustdoc_of
from runner import REPO
from runner import norm_def_path

LEVEL = 'proof'
TECHNIQUE = 'panic-site reachability with condition folding + bounds/initialisation analysis over rustc MIR (abstract interpretation, all inputs)'
EXPLANATION = ('For every reachable function the interpreter records each MIR Assert / diverging call with the path '
               'condition under which it fires; conditions that fold to false (constant clamp bounds, enum-derived indices, '
               'lengths already checked) are discarded; every remaining site must match the documented-panic table. '
               'Raw loads/stores are checked against the length lower bound known on the path and the size/alignment of '
               'the destination object; every returned aggregate must be fully initialised (partial raw stores into MaybeUninit temporaries), '
               'and in write_to_slice / write_cols_to_slice no panic site may be reachable after a write to the destination (the documented '
               'length panic precedes any store, R-ATOMIC).')

CONFIGS_QUICK = ['sse2', 'sse2-dbg', 'scalar', 'coresimd', 'neon', 'wasm32']
CONFIGS_THOROUGH = ['sse2', 'sse2-dbg', 'sse2-rel', 'sse2-fma', 'sse41', 'scalar', 'coresimd', 'libm', 'neon', 'wasm32']

SLICE_FNS = {'from_slice', 'write_to_slice', 'from_cols_slice', 'write_cols_to_slice'}
INDEX_FNS = {'index', 'index_mut', 'col', 'col_mut', 'row', 'test', 'set', 'from_mat3_minor', 'from_mat4_minor',
             'from_mat3a_minor'}
INT_PREFIXES = ('i8::', 'u8::', 'i16::', 'u16::', 'i32::', 'u32::', 'i64::', 'u64::', 'usize::')
INDEX_RANGE_FNS = {'index', 'index_mut', 'col', 'col_mut', 'row', 'test', 'set'}
MAT_DIMS = {'Mat2': (2, 2), 'Mat3': (3, 3), 'Mat3A': (3, 3), 'Mat4': (4, 4), 'DMat2': (2, 2), 'DMat3': (3, 3), 'DMat4': (4, 4)}
ATOMIC_FNS = {'write_to_slice', 'write_cols_to_slice'}
FLOOR_ROOTS = 13000     # measured 13376 reachable non-generic roots per config
FLOOR_DOC_PANIC = 400   # roots with at least one documented panic site (measured when armed)


def is_int_type_fn(name, it):
    st = (it.get('self_ty') or '').lstrip('&').replace('mut ', '')
    n = norm_def_path(name)
    if any(st.startswith(p) for p in INT_PREFIXES):
        return True
    if not st and any(n.startswith(p) for p in INT_PREFIXES):
        return True
    # scalar-on-the-left operator impls: `impl Add<IVec3> for i32`
    if st in ('i8', 'u8', 'i16', 'u16', 'i32', 'u32', 'i64', 'u64', 'usize') and any(n.startswith(p) for p in INT_PREFIXES):
        return True
    return False


def in_core(site):
    return '/rustlib/' in (site.file or '') or (site.file or '').startswith('/rustc/')


_PANIC_HELPERS = {}
_CUR_F = [None]


def is_panic_helper(F, d):
    """d names a glam-local function that can only panic (an out-of-line cold helper: every terminator is a call into core::panicking / a
    diverging panic, none returns)"""
    key = (id(F), d)
    r = _PANIC_HELPERS.get(key)
    if r is not None:
        return r
    r = False
    for n_, it_ in F.items.items():
        if it_.get('d') == d and not it_.get('generic') and F.has_body(it_['key']):
            b = F.body(it_['key'])
            terms_ = [bb['t'] for bb in b['blocks'] if bb is not None]
            calls_ = [t for t in terms_ if t[0] == 'call']
            r = bool(calls_) and all(t[0] in ('call', 'unreachable', 'goto', 'drop', 'resume') for t in terms_) and \
                all(re.search(r'(^|::)(core|std)::(panicking|rt)::|(^|::)(core|std)::fmt::(Arguments|rt::Argument)\b', t[1].get('d', '')) for t in calls_) and \
                any(re.search(r'(^|::)(core|std)::(panicking|rt)::', t[1].get('d', '')) for t in calls_)
            break
    _PANIC_HELPERS[key] = r
    return r


def classify(root_name, it, site, int_fn):
    """-> (allowed: bool, why)"""
    fname = it.get('name') or root_name.rsplit('::', 1)[-1]
    k = site.kind
    if k.startswith('call:') and not k.startswith('call:core::') and _CUR_F[0] is not None and is_panic_helper(_CUR_F[0], k[5:]):
        k = 'call:core::panicking::panic_fmt'          # a local `-> !` helper that only panics is the panic itself
    if k in ('assert:misaligned', 'assert:null_deref', 'assert:null', 'assert:invalid_enum'):
        # checks rustc inserts in debug builds in front of raw-pointer dereferences / transmutes: they guard against undefined behaviour,
        # the accesses themselves are covered by R-BOUNDS (size and alignment of the destination)
        return (True, 'compiler-inserted debug check of an unsafe operation')
    if k.startswith('prim:'):
        return (int_fn, 'primitive integer operation panic')
    if k in ('assert:overflow', 'assert:overflow_neg', 'assert:div_zero', 'assert:rem_zero'):
        if in_core(site) and int_fn:
            return (True, 'integer primitive overflow / division by zero')
        if int_fn and not in_core(site):
            # arithmetic written inline in glam's integer vector code (e.g. dot products)
            return (True, 'integer arithmetic of an integer vector op')
        return (False, 'integer arithmetic panic in a float/matrix function')
    if fname in SLICE_FNS:
        if k in ('call:core::panicking::panic', 'assert:bounds', 'call:core::slice::index::slice_index_fail',
                 'call:core::slice::copy_from_slice_impl::len_mismatch_fail',
                 'call:core::slice::index::slice_end_index_len_fail', 'call:core::slice::index::slice_index_order_fail',
                 'call:core::slice::index::slice_start_index_len_fail', 'call:core::panicking::panic_fmt'):
            return (True, 'documented: slice shorter than the element count')
    if fname in INDEX_FNS:
        if k in ('call:core::panicking::panic_fmt', 'call:core::panicking::panic', 'assert:bounds',
                 'call:core::panicking::panic_bounds_check', 'call:core::panicking::assert_failed',
                 'call:core::panicking::panic_explicit'):
            return (True, 'documented: index out of range')
    return (False, 'undocumented panic site')


def run(ctx):
    configs = ctx.need(CONFIGS_QUICK if ctx.tier == 'quick' else CONFIGS_THOROUGH)
    ctx.trusted = TRUSTED_COMMON + ['callees on caller-supplied type parameters and core::fmt machinery are outside the claim']
    for cfg in configs:
        F = ctx.facts(cfg)
        _CUR_F[0] = F
        H = ctx.harness(cfg)
        n_roots = 0
        n_doc = 0
        n_rdoc = 0
        n_atomic = 0
        control_from_slice = False
        control_align_store = False
        for name, it in api_roots(F):
            n_roots += 1
            inst = norm_def_path(name)
            runs = list(H.run_all(it['key']))
            if any(r.abort for (_l, r) in runs):
                ctx.undecided('R-PANIC', cfg, name, [r.abort for (_l, r) in runs if r.abort][0])
                ctx.count('undecided_roots:' + cfg)
                continue
            if len(runs) > 1:
                ctx.count('roots_specialised_per_enum_variant:' + cfg)
            int_fn = is_int_type_fn(name, it)
            bad = []
            doc = 0
            doc_named = set()
            seen = set()
            r = runs[0][1]
            for p in [p for (_l, rr) in runs for p in rr.panics]:
                if p.cond is tm.FALSE:
                    continue
                ok, why = classify(name, it, p, int_fn)
                if ok:
                    doc += 1
                    if why.startswith('documented:'):
                        doc_named.add(why)
                else:
                    key = (p.kind, p.fn)
                    if key in seen:
                        continue
                    seen.add(key)
                    bad.append({'site': p.kind, 'in_fn': p.fn, 'file': p.file, 'line': p.line,
                                'call_path': [s[0] for s in p.stack][-6:], 'why': why,
                                'condition': tm.show(p.cond, 0, 5)[:300]})
            # R-INDEXRANGE: the indexing functions panic exactly for out-of-range indices.  Their panic conditions touch the index only through
            # comparisons with constants; substituting every index 0 .. N+1 and the largest one decides them on all orderings: valid indices
            # (below the dimension of the type) never panic, all others do
            if it.get('name') in INDEX_RANGE_FNS and len(runs) == 1 and not int_fn:
                body_ = F.body(it['key'])
                sty_ = body_['locals'][1]
                if F.types[sty_].get('k') == 'ptr':
                    sty_ = F.types[sty_]['to']
                tn_ = tydef(F, sty_) or ''
                vi_ = vec_info(F, sty_)
                dim_ = None
                if vi_ is not None:
                    dim_ = vi_['dim']
                elif tn_ in MAT_DIMS:
                    dim_ = MAT_DIMS[tn_][1] if it['name'] == 'row' else MAT_DIMS[tn_][0]
                idx_atoms = [a for a, ia in r.atoms.items() if ia.arg == 1 and ia.kind == 'int' and ia.off == 0 and not ia.through_ptr]
                if dim_ is not None and len(idx_atoms) == 1 and body_['argc'] >= 2:
                    ia_ = idx_atoms[0]
                    ps = F.ptr_size
                    why = None
                    live = [p for p in r.panics if p.cond is not tm.FALSE]
                    for kidx in list(range(0, dim_ + 2)) + [(1 << (8 * ps)) - 1]:
                        fires = False
                        undecided_ = False
                        for p in live:
                            v = tm.subst(p.cond, {ia_: tm.const(kidx, ps)})
                            if v is tm.TRUE:
                                fires = True
                            elif v is not tm.FALSE and p.kind not in ('assert:misaligned', 'assert:null_deref', 'assert:null', 'assert:invalid_enum'):
                                undecided_ = True          # (rustc's own debug checks of raw-pointer accesses depend on addresses, not on the index)
                        if kidx < dim_ and fires:
                            why = 'panics for the valid index %d (the type has %d %s)' % (kidx, dim_, 'lanes' if vi_ else ('rows' if it['name'] == 'row' else 'columns'))
                            break
                        if kidx < dim_ and undecided_:
                            why = 'for the valid index %d a panic still depends on the stored values: only an out-of-range index is a documented panic' % kidx
                            break
                        if kidx >= dim_ and not fires and not undecided_:
                            why = 'does not panic for the out-of-range index %d (the type has %d)' % (kidx, dim_)
                            break
                    if why:
                        ctx.violation('R-INDEXRANGE', cfg, name, {'file': it['file'], 'line': it['line'], 'problem': why})
                    else:
                        ctx.holds('R-INDEXRANGE', cfg, name)
            # R-SLICELEN: the slice functions panic only when the slice is shorter than the element count.  Their panic conditions touch the
            # length only through comparisons with constants, so they are decided on the finite set of orderings of the length against
            # those constants: for every length >= N (N, the constants and their neighbours, a huge value) each condition must be false
            if it.get('name') in SLICE_FNS and len(runs) == 1:
                body_ = F.body(it['key'])
                vty_ = body_['locals'][0] if it['name'].startswith('from_') else body_['locals'][1]
                if F.types[vty_].get('k') == 'ptr':
                    vty_ = F.types[vty_]['to']
                hid_ = set(hidden_offsets(F, vty_))
                N_ = len([1 for (o, sz, lt) in leaves_plain(F, vty_) if o not in hid_])
                lens_ = [ln for (argi, base, oid, pty, mut, ln) in r.arg_objs if ln is not None]
                why = None
                if len(lens_) == 1 and N_ > 0:
                    ln = lens_[0]
                    ps = F.ptr_size
                    for p in r.panics:
                        if p.cond is tm.FALSE:
                            continue
                        extra_ = [a for a in p.cond.deps if a is not ln]
                        if extra_:
                            # the documented panic of a slice function is about the length only
                            why = 'a panic (%s in %s) depends on the values (%s), not only on the length of the slice: that panic is not documented' % (p.kind, p.fn, tm.show(extra_[0])[:40])
                            break
                        if ln not in p.cond.deps:
                            continue
                        ks = set()
                        st_ = [p.cond]
                        seen_ = set()
                        while st_:
                            x = st_.pop()
                            if x.id in seen_:
                                continue
                            seen_.add(x.id)
                            if tm.is_const(x):
                                ks.add(tm.cbits(x))
                            st_.extend(a for a in x.args if isinstance(a, tm.T))
                        cand = {N_, N_ + 1, 1 << (8 * ps - 2)}
                        for k in ks:
                            for d in (-1, 0, 1):
                                if N_ <= k + d < (1 << (8 * ps - 1)):
                                    cand.add(k + d)
                        for Lv in sorted(cand):
                            v = tm.subst(p.cond, {ln: tm.const(Lv, ps)})
                            if v is tm.TRUE:
                                why = 'panics (%s in %s) for a slice of %d elements although only %d are needed: longer slices must be accepted' % (p.kind, p.fn, Lv, N_)
                                break
                        if why:
                            break
                if why:
                    ctx.violation('R-SLICELEN', cfg, name, {'file': it['file'], 'line': it['line'], 'problem': why})
                else:
                    ctx.holds('R-SLICELEN', cfg, name)
            # R-ATOMIC: a documented panic is raised before any caller-visible memory is written (no partially written destination)
            if it.get('name') in ATOMIC_FNS and len(runs) == 1:
                n_atomic += 1
                late = [p for p in r.panics if p.cond is not tm.FALSE and p.dirty]
                if late:
                    p0 = late[0]
                    ctx.violation('R-ATOMIC', cfg, name, {'file': it['file'], 'line': it['line'],
                                  'problem': 'a panic site (%s in %s, line %s) is reachable after part of the destination has already been written: a too-short slice is left partially overwritten' % (p0.kind, p0.fn, p0.line),
                                  'late_panic_sites': len(late)})
                else:
                    ctx.holds('R-ATOMIC', cfg, name)
            # R-DOC: "the only panics are the documented ones": an inherent public function that owns a slice-length / index panic says so in its rustdoc
            if doc_named and not it.get('trait') and it.get('vis') == 'pub':
                n_rdoc += 1
                text = rustdoc_of(REPO, it)
                if text is None:
                    ctx.unverifiable('R-DOC', cfg, name, 'source of %s not readable' % it['file'])
                elif 'panic' not in text.lower():
                    ctx.violation('R-DOC', cfg, name, {'file': it['file'], 'line': it['line'],
                                  'problem': 'the function can panic (%s) but its rustdoc does not mention a panic' % sorted(doc_named)[0]})
                else:
                    ctx.holds('R-DOC', cfg, name)
            if doc:
                n_doc += 1
                if (it.get('name') == 'from_slice'):
                    control_from_slice = True
            if bad:
                ctx.violation('R-PANIC', cfg, name, {'file': it['file'], 'line': it['line'], 'undocumented_panics': bad[:4]})
            else:
                ctx.holds('R-PANIC', cfg, name)
            # R-BOUNDS
            slice_objs = {}
            for (argi, base, oid, pty, mut, ln) in r.arg_objs:
                slice_objs[oid] = (pty, ln, argi)
            I = r.interp
            nb = 0
            bbad = []
            for ev in (r.mem_events if len(runs) == 1 else []):
                kind, fn, line, oid, off, width, align, lbs, what = ev
                nb += 1
                if oid in slice_objs:
                    pty, ln, argi = slice_objs[oid]
                    pt = F.types[pty]
                    if ln is not None:
                        stride = pt.get('stride') or 1
                        lb = lbs.get(ln.id, 0)
                        if off < 0 or off + width > lb * stride:
                            bbad.append({'access': what, 'in_fn': fn, 'line': line, 'bytes': [off, off + width],
                                         'checked_len_elems': lb, 'elem_size': stride,
                                         'problem': 'access to slice argument %d not covered by a preceding length check' % argi})
                        ealign = (F.types[pt['elem']].get('al') if pt.get('elem') is not None else None) or stride
                        if align > 1 and align > ealign:
                            bbad.append({'access': what, 'in_fn': fn, 'line': line, 'required_align': align, 'slice_element_align': ealign,
                                         'problem': 'aligned %d-byte access through slice argument %d, whose elements are only %d-byte aligned (a sub-slice need not be more aligned)' % (align, argi, ealign)})
                    else:
                        if pt['sz'] is not None and (off < 0 or off + width > pt['sz']):
                            bbad.append({'access': what, 'in_fn': fn, 'line': line, 'bytes': [off, off + width], 'object_size': pt['sz'],
                                         'problem': 'access beyond the referenced object'})
                        al = I.obj_align.get(oid)
                        if align > 1 and (al is None or al < align or off % align):
                            bbad.append({'access': what, 'in_fn': fn, 'line': line, 'required_align': align, 'object_align': al,
                                         'problem': 'aligned access to insufficiently aligned object'})
                else:
                    info = I.obj_info.get(oid)
                    if info is None:
                        continue
                    size, oname, okind = info
                    if okind == 'const':
                        continue
                    if size is not None and (off < 0 or off + width > size):
                        bbad.append({'access': what, 'in_fn': fn, 'line': line, 'bytes': [off, off + width], 'object': oname, 'object_size': size,
                                     'problem': 'raw access wider than its destination object'})
                    if align > 1:
                        al = I.obj_align.get(oid)
                        control_align_store = True
                        if al is None or al < align or off % align:
                            bbad.append({'access': what, 'in_fn': fn, 'line': line, 'required_align': align, 'object': oname, 'object_align': al,
                                         'problem': 'aligned access to insufficiently aligned object'})
            fname = it.get('name')
            if fname in SLICE_FNS and len(runs) == 1:
                # exactness: exactly the first N elements are read / written, and a slice of exactly N elements is accepted
                body = F.body(it['key'])
                vty = body['locals'][0] if fname.startswith('from_') else body['locals'][1]
                if F.types[vty].get('k') == 'ptr':
                    vty = F.types[vty]['to']
                hid = set(hidden_offsets(F, vty))
                N = len([1 for (o, sz, lt) in leaves_plain(F, vty) if o not in hid])
                touched = False
                for ev in r.mem_events:
                    kind, fn, line, oid, off, width, align, lbs, what = ev
                    if oid in slice_objs and slice_objs[oid][1] is not None:
                        pty, ln, argi = slice_objs[oid]
                        stride = F.types[pty].get('stride') or 1
                        touched = True
                        if off + width > N * stride:
                            bbad.append({'access': what, 'in_fn': fn, 'bytes': [off, off + width], 'element_count': N,
                                         'problem': 'touches slice elements beyond the first %d' % N})
                        if lbs.get(ln.id, 0) > N:
                            bbad.append({'access': what, 'in_fn': fn, 'required_len': lbs.get(ln.id, 0), 'element_count': N,
                                         'problem': 'requires a slice longer than the element count (would panic on an exactly-sized slice)'})
                if not touched:
                    bbad.append({'problem': 'slice function performs no access to its slice argument (analysis lost track)'})
                nb = max(nb, 1)
                ctx.count('slice_fns_checked_for_exact_extent:' + cfg)
            if len(runs) == 1 and r.ret is not None and not isinstance(r.ret, tm.T) and not r.abort:
                # R-INIT: a function that builds its result through raw stores (MaybeUninit / Align16 temporaries) returns only initialised bytes
                rty_ = F.body(it['key'])['locals'][0]
                hid_ = set(hidden_offsets(F, rty_))
                for (o, sz, lt) in leaves_plain(F, rty_):
                    if o in hid_:
                        continue
                    c = r.ret.cells.get(o)
                    covered = c is not None or any(oo < o + sz and o < oo + cs for oo, (cs, _t) in r.ret.cells.items() if isinstance(oo, int))
                    if not covered or (c is not None and c[1].op == 'uninit'):
                        bbad.append({'problem': 'byte offset %d..%d of the returned value is never initialised (typed read of a partially written temporary)' % (o, o + sz)})
                        break
                ctx.count('results_checked_initialised:' + cfg)
            if nb or bbad:
                ctx.count('memory_access_events:' + cfg, nb)
                if bbad:
                    ctx.violation('R-BOUNDS', cfg, name, {'file': it['file'], 'line': it['line'], 'accesses': bbad[:4]})
                else:
                    ctx.holds('R-BOUNDS', cfg, name)
        ctx.floor('reachable roots analysed (%s)' % cfg, n_roots, FLOOR_ROOTS)
        ctx.floor('roots with a documented panic site (%s)' % cfg, n_doc, FLOOR_DOC_PANIC)
        ctx.floor('functions whose rustdoc must announce their panic (%s)' % cfg, n_rdoc, 125)
        ctx.control('documented from_slice length assert is seen (%s)' % cfg, control_from_slice)
        if cfg.startswith('sse2') and any('_mm_store_ps' in raw for raw in F._body_raw.values()):
            # (only when the tree still contains an aligned store at all: the control shows that such stores reach the alignment rule)
            ctx.control('16-byte aligned raw store into a local is seen (%s)' % cfg, control_align_store, '_mm_store_ps into Align16 temporaries')
    ctx.extra['exhaustive'] = True
    ctx.extra['rule_text'] = 'instances = every reachable non-generic fn (R-PANIC) and every such fn performing raw/pointer memory accesses (R-BOUNDS)'
