"""helpers shared by the rule modules"""
import re
import terms as tm
from terms import T
from interp import Agg, Abort
from runner import norm_def_path

TRUSTED_COMMON = [
    "rustc front end, MIR construction, layout computation and const evaluation (facts are read from the compiler, glam code is never executed)",
    "intrinsic semantics table engine/lane/tables.py (+tables_simd.py): each entry is 'lane-wise primitive P', 'routing with literal mask M' or 'horizontal/memory op'",
    "IEEE-exact rewrite set of engine/lane/terms.py (commutativity, a-b = a+(-b), x*2 = x+x, sign-bit idioms, mask select idiom); no associativity or distribution",
    "Rust's guarantee that the compiler neither contracts nor re-associates floating-point operations",
]

HIDDEN_TYPES = ('Vec3A', 'BVec3A')


def tydef(F, tyid):
    t = F.types[tyid]
    d = t.get('def')
    return d.rsplit('::', 1)[-1] if d else None


def api_roots(F):
    for name, it in F.items.items():
        if it['generic'] or not it['reachable']:
            continue
        yield name, it


_hidden_memo = {}


def hidden_offsets(F, tyid):
    """byte offsets (within a value of type tyid, not following pointers) of the hidden fourth
    lanes of Vec3A / BVec3A sub-objects, when those are backed by a 16-byte SIMD register"""
    key = (id(F), tyid)
    r = _hidden_memo.get(key)
    if r is not None:
        return r
    t = F.types[tyid]
    out = []
    k = t.get('k')
    if t['sz'] in (None, 0):
        r = ()
    else:
        if k == 'adt' and tydef(F, tyid) in HIDDEN_TYPES and t.get('crate') == 'glam' and t['sz'] == 16:
            # SIMD-backed iff the single field is a 16-byte register-like value
            fs = t.get('fields', [])
            if len(fs) == 1 and F.types[fs[0][1]]['sz'] == 16:
                out.append(12)
        elif k == 'array':
            sub = hidden_offsets(F, t['elem'])
            for j in range(t['count']):
                out.extend(j * t['stride'] + o for o in sub)
        elif 'fields' in t and t.get('adt') != 'union':
            for (off, fid, _n) in t['fields']:
                out.extend(off + o for o in hidden_offsets(F, fid))
        elif 'variants' in t:
            for v in t['variants']['vs']:
                for (off, fid, _n) in v['fields']:
                    out.extend(off + o for o in hidden_offsets(F, fid))
        r = tuple(sorted(set(out)))
    _hidden_memo[key] = r
    return r


def is_hidden_atom(F, info):
    if info.root_ty is None or info.kind in ('len', 'discr', 'slice_all'):
        return False
    return info.off in hidden_offsets(F, info.root_ty) and info.size == 4


def observable_deps(I, F, v, tyid, skip_hidden=True, seen=None, out=None, path='ret'):
    """deps of every observable cell of value v : tyid.  Returns list of (where, deps).
    Pointers are followed over the extent of their pointee type; hidden cells of hidden-carrying
    types are skipped (they are not part of the value)."""
    if out is None:
        out = []
    if seen is None:
        seen = set()
    t = F.types[tyid]
    if t['sz'] == 0:
        return out
    hid = set(hidden_offsets(F, tyid)) if skip_hidden else set()
    if isinstance(v, T):
        if t.get('k') == 'ptr':
            _follow_obs(I, F, v, None, tyid, seen, out, path)
        else:
            out.append((path, v.deps))
        return out
    try:
        lv = I.leaves(tyid)
    except Abort:
        lv = None
    covered = set()
    if lv is not None:
        for (off, sz, lt) in lv:
            if sz == 0:
                if isinstance(lt, tuple):
                    dv = v.discr.get((off, lt[1]))
                    if dv is not None:
                        out.append(('%s.discr@%d' % (path, off), dv.deps))
                continue
            c = v.cells.get(off)
            if c is None:
                continue
            covered.add(off)
            if off in hid:
                continue
            if lt != -1 and F.types[lt].get('k') == 'ptr':
                meta = v.cells.get(off + F.ptr_size)
                _follow_obs(I, F, c[1], meta[1] if meta and I.is_fat(lt) else None, lt, seen, out, '%s@%d' % (path, off))
            else:
                out.append(('%s@%d' % (path, off), c[1].deps))
    for off, c in v.cells.items():
        if off not in covered and off not in hid:
            out.append(('%s@%d' % (path, off), c[1].deps))
    if lv is None:
        for dk, dv in v.discr.items():
            out.append(('%s.discr' % path, dv.deps))
    return out


def _follow_obs(I, F, pt, meta, lt, seen, out, path):
    t = F.types[lt]
    pointee = t['to']
    pt_t = F.types[pointee]
    out.append((path + '(addr)', pt.deps))
    for (oid, off) in I.ptr_targets(pt):
        obj = I.heap.get(oid)
        if obj is None or obj.kind == 'const':
            continue
        size = pt_t['sz']
        if size is None and pt_t.get('k') == 'dyn' and meta is not None and meta.op == 'vtable':
            pointee = meta.args[0]
            pt_t = F.types[pointee]
            size = pt_t['sz']
        if (oid, off, size) in seen:
            continue
        seen.add((oid, off, size))
        if size is None:
            # slice / unknown extent: every cell of the object is observable
            if pt_t.get('k') == 'slice' and meta is not None and tm.is_const(meta):
                size = tm.cbits(meta) * pt_t['stride']
            else:
                for o, c in obj.cells.items():
                    out.append(('%s->obj%d@%d' % (path, oid, o), c[1].deps))
                continue
        if obj.lazy is not None and size:
            obj.lazy(I, obj, off, size, 'touch')
        region = I._read_raw_nolazy(obj, off, size)
        if pt_t.get('k') == 'slice':
            for o, c in region.cells.items():
                out.append(('%s->obj%d@%d' % (path, oid, off + o), c[1].deps))
            continue
        if I.is_scalar(pointee):
            c = region.cells.get(0)
            if c is not None and c[0] == size:
                sub = c[1]
            else:
                for o, c2 in region.cells.items():
                    out.append(('%s->obj%d@%d' % (path, oid, off + o), c2[1].deps))
                continue
        else:
            sub = region
        observable_deps(I, F, sub, pointee, True, seen, out, '%s->obj%d+%d' % (path, oid, off))


# ---------------------------------------------------------------------------------------------
# vector type facts

_VEC_RE = re.compile(r'^(?:.*::)?(BVec|[A-Za-z0-9]*Vec)([234])(A?)$')


def vec_info(F, tyid):
    """-> dict(name, prefix, dim, aligned, lanes=[(off,size)], scalar=elem scalar name) for glam
    vector / quaternion / mask types, else None"""
    t = F.types[tyid]
    if t.get('k') != 'adt' or t.get('crate') != 'glam':
        return None
    name = tydef(F, tyid)
    m = _VEC_RE.match(name)
    if m:
        dim = int(m.group(2))
    elif name in ('Quat', 'DQuat'):
        dim = 4
    else:
        return None
    lv = leaves_plain(F, tyid)
    lv = [(o, s, lt) for (o, s, lt) in lv if s > 0]
    lv.sort()
    if len(lv) < dim:
        return None
    esz = lv[0][1]
    lanes = [(lv[i][0], lv[i][1]) for i in range(dim)]
    # lanes must be equally sized and contiguous from 0
    for i, (o, s) in enumerate(lanes):
        if s != esz or o != i * esz:
            return None
    pre = name[:name.index('Vec')] if 'Vec' in name else ('D' if name == 'DQuat' else '')
    elem = {'': 'f32', 'D': 'f64', 'I': 'i32', 'U': 'u32', 'B': 'bool', 'USize': 'u%d' % (8 * F.ptr_size)}.get(pre)
    if elem is None:
        elem = pre.lower()
    return {'name': name, 'dim': dim, 'lanes': lanes, 'esz': esz, 'elem_ty': lv[0][2], 'nleaves': len(lv), 'elem': elem}


def leaves_plain(F, tyid, base=0, out=None):
    if out is None:
        out = []
    t = F.types[tyid]
    k = t.get('k')
    if t['sz'] in (0, None):
        return out
    if k in ('int', 'float', 'bool', 'char') or (k == 'ptr' and t.get('fat') is None):
        out.append((base, t['sz'], tyid))
    elif k == 'array':
        for j in range(t['count']):
            leaves_plain(F, t['elem'], base + j * t['stride'], out)
    elif 'fields' in t:
        fs = t['fields'][:1] if t.get('adt') == 'union' else t['fields']
        for (off, fid, _n) in fs:
            leaves_plain(F, fid, base + off, out)
    return out


def atom_at(root, argi, off, through_ptr=False):
    for a, info in root.atoms.items():
        if info.arg == argi and info.off == off and info.through_ptr == through_ptr and info.kind not in ('len', 'discr', 'slice_all'):
            return a
    return None


def cell_term(v, off, size):
    if isinstance(v, T):
        return v if off == 0 else None
    c = v.cells.get(off)
    if c is None or c[0] != size:
        return None
    return c[1]



def const_value(t):
    """value of a floating-point term built from constants only (products / sums / negations of literals left symbolic by the interpreter)"""
    import terms as tm
    if tm.is_const(t):
        try:
            return tm.f_of(t)
        except Exception:
            return None
    if t.op in ('fmul', 'fadd') and all(hasattr(x, 'op') for x in t.args):
        vs = [const_value(x) for x in t.args]
        if all(v is not None for v in vs):
            out = vs[0]
            for v in vs[1:]:
                out = out * v if t.op == 'fmul' else out + v
            return out
    if t.op == 'fneg':
        v = const_value(t.args[0])
        return None if v is None else -v
    return None


def const_width(t):
    import terms as tm
    if tm.is_const(t):
        return tm.csize(t)
    for x in t.args:
        if hasattr(x, 'op'):
            w = const_width(x)
            if w:
                return w
    return None


_DOC_SRC = {}


def rustdoc_of(repo, it):
    """the rustdoc text (joined /// lines) directly above the item's fn line, skipping attributes; None when the source is not readable"""
    import os
    p = os.path.join(repo, it['file'])
    if p not in _DOC_SRC:
        try:
            _DOC_SRC[p] = open(p, encoding='utf8', errors='replace').read().split('\n')
        except OSError:
            _DOC_SRC[p] = None
    lines = _DOC_SRC[p]
    if lines is None:
        return None
    i = it['line'] - 1
    if not (0 <= i < len(lines)):
        return None
    doc = []
    j = i - 1
    # the recorded line may be the first attribute or the fn line itself
    while j >= 0:
        st = lines[j].strip()
        if st.startswith('///'):
            doc.append(st[3:].strip())
        elif st.startswith('#[') or st.startswith('#![') or (st.startswith('//') and not st.startswith('///')):
            pass          # attributes and plain comments may sit between the rustdoc and the fn
        else:
            break
        j -= 1
    k = i
    while k < len(lines) and (lines[k].strip().startswith('#[') or lines[k].strip().startswith('//')):
        if lines[k].strip().startswith('///'):
            doc.append(lines[k].strip()[3:].strip())
        k += 1
    return ' '.join(reversed(doc))


def fn_params(repo, it):
    """parameter names of the fn at the item's source position, in order ('self' first when present); [] when not parseable"""
    import os
    rustdoc_of(repo, it)
    lines = _DOC_SRC.get(os.path.join(repo, it['file']))
    if not lines:
        return []
    i = it['line'] - 1
    sig = ''
    for j in range(max(i, 0), min(i + 16, len(lines))):
        st = lines[j].strip()
        if st.startswith('#[') or st.startswith('//'):
            continue
        sig += ' ' + lines[j]
        if '{' in lines[j] or ';' in lines[j]:
            break
    m = re.search(r'fn\s+\w+\s*(?:<[^>]*>)?\s*\(([^)]*)\)', sig)
    if not m:
        return []
    out = []
    for part in m.group(1).split(','):
        part = part.strip()
        if not part:
            continue
        nm = part.split(':')[0].strip()
        nm = nm.replace('&', '').replace('mut ', '').strip()
        out.append(nm)
    return out


def panic_promises(doc):
    """the part of a rustdoc text that promises a glam_assert panic: [] when the text never says so.  A mention of "panic" counts unless it is
    itself negated ("will never panic", "does not panic"); the glam_assert condition may stand in the same or in a neighbouring sentence.  Returned
    are the sentences that speak about the panic or the feature (parenthesised remarks removed), for the operand / boundary clauses"""
    if not doc:
        return []
    low = doc.lower()
    if not re.search(r'glam[_-]assert', low):
        return []
    live = False
    for m in re.finditer(r'panic', low):
        before = low[max(0, m.start() - 40):m.start()]
        if re.search(r"(\bnever|\bnot|\bcannot|n't)\s+(ever\s+)?$", before):
            continue
        live = True
    if not live:
        return []
    text = re.sub(r'\([^()]*\)', ' ', doc)
    # sentence ends: a full stop followed by whitespace and a capital letter (so "e.g. `x`" does not end a sentence)
    text = re.sub(r'(^|\s)#+\s*[A-Z]\w*(\s|$)', '. ', text)          # markdown headings ("# Panics") separate sentences
    sents = re.split(r'(?<=[.!?])\s+(?=[A-Z])', text)
    keep = [s_ for s_ in sents if re.search(r'panic|glam[_-]assert', s_.lower())]
    return keep
