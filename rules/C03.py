"""C03 - matrix algebra: product, transpose, determinant and inverse are the true ones.

R-ALG: with all stored entries as symbols, every entry of mul_mat / mul_vec / add / sub / scalar scaling equals the
textbook expression, determinant equals the Leibniz polynomial and every entry of inverse equals cofactor/determinant,
as exact polynomial / rational identities (complete decision for ring expressions).  R-COPY for transpose / negation.
R-ROUND: rounding-depth and no-cancellation certificate for the polynomial results (matrix x matrix, matrix x vector, determinant)."""
import re
import terms as tm
import nf
from spec import Spec
from matmodel import MatModel, DIMS
from lift import value_lanes, strip_ref, result_of, ArgView
from common import api_roots, vec_info, tydef, TRUSTED_COMMON

LEVEL = 'other'
TECHNIQUE = 'polynomial / rational normal-form identity checking of MIR-extracted entry terms against Leibniz / cofactor reference mathematics; all backends'
EXPLANATION = ('The real function computed by every matrix operation is decided to be the mathematical one (polynomial identities are decided completely), on every '
               'backend and width, so a wrong shuffle constant or sign in the hand-scheduled SIMD determinant/inverse changes a monomial and is reported. '
               'Rounding: a depth/no-cancellation certificate bounds the error by d*u*sum|terms|; exactness on small-integer inputs follows from the identity. '
               'Not decided: the condition-number dependent residual of M*inverse(M) (a runtime quantity).')
LEVEL_NOTE = 'Decides the algebraic identity and a rounding-depth certificate, not conditioning-dependent error. Trusted: rustc MIR/layout, intrinsic table, the reference mathematics in rules/spec.py.'

CONFIGS_QUICK = ['sse2', 'sse2-fma', 'sse41', 'scalar', 'coresimd', 'neon', 'wasm32']
CONFIGS_THOROUGH = ['sse2', 'sse2-fma', 'sse41', 'scalar', 'coresimd', 'neon', 'wasm32']
SQUARE = {'Mat2': 2, 'Mat3': 3, 'Mat3A': 3, 'Mat4': 4, 'DMat2': 2, 'DMat3': 3, 'DMat4': 4}
DEPTH_LIMIT = {'mul': 8, 'det': 12, 'vec': 8}


def run(ctx):
    configs = ctx.need(CONFIGS_QUICK if ctx.tier == 'quick' else CONFIGS_THOROUGH)
    ctx.trusted = TRUSTED_COMMON + ['reference mathematics rules/spec.py (Leibniz determinant, cofactor inverse, matrix product)',
                                    'forward error analysis (Higham): |fl(t)-t| <= ((1+u)^d - 1) * AbsNF(t) for a ring expression of rounding depth d']
    for cfg in configs:
        F = ctx.facts(cfg)
        H = ctx.harness(cfg)
        M = MatModel(F, H)
        counts = {}
        types = set()

        def done(rule, name, bad, it, note=None):
            counts[rule] = counts.get(rule, 0) + 1
            if bad:
                ctx.violation(rule, cfg, name, {'file': it['file'], 'line': it['line'], 'problem': bad})
            else:
                ctx.holds(rule, cfg, name, note)

        for name, it in api_roots(F):
            st = (it.get('self_ty') or '').lstrip('&')
            tname = st.rsplit('::', 1)[-1]
            mname = it.get('name') or ''
            tr = (it.get('trait') or '').rsplit('::', 1)[-1]
            body = F.body(it['key'])
            if body is None:
                continue
            if tname in ('f32', 'f64') and tr in ('Mul', 'Div') and body['argc'] == 2:
                # scalar * matrix: the operator impl lives on the scalar type
                tname = tydef(F, strip_ref(F, body['locals'][2])[0]) or ''
            if tname not in SQUARE:
                continue
            n = SQUARE[tname]
            argtys = body['locals'][1:1 + body['argc']]
            rty = body['locals'][0]
            kind = None
            if not tr and re.match(r'^mul_mat\d$', mname) or (tr in ('Mul', 'MulAssign') and body['argc'] == 2 and M.info(strip_ref(F, argtys[1])[0]) is not None and M.info(strip_ref(F, argtys[0])[0]) is not None):
                kind = 'matmul'
            elif (not tr and mname in ('add_mat2', 'add_mat3', 'add_mat4', 'sub_mat2', 'sub_mat3', 'sub_mat4')) or (tr in ('Add', 'Sub', 'AddAssign', 'SubAssign') and body['argc'] == 2):
                kind = 'addsub'
            elif (not tr and mname in ('mul_scalar', 'div_scalar')) or (tr in ('Mul', 'Div', 'MulAssign', 'DivAssign') and body['argc'] == 2 and F.types[strip_ref(F, argtys[1])[0]].get('k') == 'float') \
                    or (tr == 'Mul' and body['argc'] == 2 and F.types[strip_ref(F, argtys[0])[0]].get('k') == 'float' and M.info(strip_ref(F, argtys[1])[0]) is not None):
                kind = 'scalar'
            elif (not tr and re.match(r'^mul_vec\da?$', mname) and body['argc'] == 2) or \
                    (tr == 'Mul' and body['argc'] == 2 and M.info(strip_ref(F, argtys[0])[0]) is not None and vec_info(F, strip_ref(F, argtys[1])[0]) is not None):
                kind = 'matvec'
            elif tr == 'Neg':
                kind = 'neg'
            elif not tr and mname == 'determinant':
                kind = 'det'
            elif not tr and mname == 'inverse':
                kind = 'inverse'
            elif not tr and mname == 'transpose':
                kind = 'transpose'
            if kind is None:
                continue
            if kind == 'matmul':
                names_ = [tydef(F, strip_ref(F, a)[0]) for a in argtys]
                if any(SQUARE.get(x) != n for x in names_):
                    continue      # mixed products (matrix * affine): C05
            types.add(tname)
            r = H.run(it['key'])
            if r.abort:
                ctx.unverifiable('R-ALG', cfg, name, 'not analysable: ' + r.abort)
                continue
            if r.panics:
                done('R-ALG', name, 'matrix operation has a reachable panic site: %r' % (r.panics[0],), it)
                continue
            alg = nf.Algebra()
            S = Spec(alg)
            kres, oty, val = result_of(F, r, body)
            A = B = None
            scal = None
            for i, aty in enumerate(argtys):
                base, by_ref = strip_ref(F, aty)
                if M.info(base) is not None:
                    ent, _ = M.arg_entries(r, i, aty)
                    e2 = {k: alg.nf(v) for k, v in ent.items()}
                    if A is None:
                        A = e2
                    else:
                        B = e2
                elif F.types[base].get('k') == 'float':
                    from common import atom_at
                    scal = alg.nf(atom_at(r, i, 0, by_ref))
            bad = None
            note = None
            if A is None or (kind in ('matmul', 'addsub') and B is None) or (kind == 'scalar' and scal is None):
                ctx.unverifiable('R-ALG', cfg, name, 'operands not recognised')
                continue
            if kind == 'matvec':
                vv = ArgView(F, r, 1, argtys[1])
                lanes_r = value_lanes(F, val, oty) if val is not None else None
                if vv.lanes is None or lanes_r is None or len(vv.lanes) < n or len(lanes_r) < n:
                    ctx.unverifiable('R-ALG', cfg, name, 'vector operand / result lanes not found')
                    continue
                v_ = [alg.nf(x) for x in vv.lanes[:n]]
                exp_v = S.matvec(A, v_, n, n)
                for i_ in range(n):
                    if not S.eq(alg.nf(lanes_r[i_]), exp_v[i_]):
                        bad = 'component %d of matrix * vector differs from sum_c M[c][%d] * v[c]: got %s' % (i_, i_, alg.nf(lanes_r[i_])[0].show(alg.name, 8))
                        break
                if not bad:
                    ds = [nf.rounding_depth(x) for x in lanes_r[:n]]
                    Ks = [cancellation(alg.nf(x)[0], nf.abs_nf(alg, x)) for x in lanes_r[:n]]
                    note = {'rounding_depth': ds, 'K': Ks}
                    if any(d is None or d > DEPTH_LIMIT['vec'] for d in ds) or any(K != 1 for K in Ks):
                        bad = 'rounding certificate fails: depths=%s K=%s' % (ds, Ks)
            elif kind == 'det':
                got = alg.nf(r.ret)
                if not S.eq(got, S.det(A, n)):
                    bad = 'determinant differs from the Leibniz polynomial: got %s' % got[0].show(alg.name, 8)
                else:
                    d = nf.rounding_depth(r.ret)
                    ab = nf.abs_nf(alg, r.ret)
                    K = cancellation(got[0], ab)
                    note = {'rounding_depth': d, 'K': K, 'monomials': got[0].nterms()}
                    if d is None or d > DEPTH_LIMIT['det'] or K != 1:
                        bad = 'rounding certificate fails: depth=%s K=%s' % (d, K)
            else:
                res = M.entries(val, oty) if val is not None else None
                if res is None:
                    ctx.unverifiable('R-ALG', cfg, name, 'result is not a matrix')
                    continue
                gotm = {k: alg.nf(v) for k, v in res.items()}
                if kind == 'matmul':
                    # which operand is on the left: argument order
                    exp = S.matmul(A, B, n)
                elif kind == 'addsub':
                    sub = 'sub' in mname
                    exp = {k: (S.sub(A[k], B[k]) if sub else S.add(A[k], B[k])) for k in A}
                elif kind == 'scalar':
                    div = 'div' in mname
                    exp = {k: (S.div(A[k], scal) if div else S.mul(A[k], scal)) for k in A}
                elif kind == 'neg':
                    exp = {k: S.neg(A[k]) for k in A}
                    for k, v in res.items():
                        # exact sign flip (negation "flips entries exactly", also the sign of zero): the term must be fneg(entry)
                        # x * -1.0 flips the sign bit exactly as well
                        m1 = v.op == 'fmul' and len(v.args) == 2 and any(a_.op == 'atom' for a_ in v.args) and any(tm.is_const(a_) and tm.f_of(a_) == -1.0 for a_ in v.args)
                        if not (v.op == 'fneg' and v.args[0].op == 'atom') and not m1:
                            bad = 'entry (col %d,row %d) of the negation is %s, not the sign-flipped entry (fneg(x) or x * -1.0; 0 - x would lose the sign of zero)' % (k[0], k[1], tm.show(v, 0, 3)[:80])
                            break
                elif kind == 'transpose':
                    exp = S.transpose(A, n)
                elif kind == 'inverse':
                    exp = S.inverse(A, n)
                for k in sorted(exp):
                    if not S.eq(gotm[k], exp[k]):
                        bad = 'entry (col %d,row %d) of %s differs from the reference: got %s / %s' % (k[0], k[1], kind, gotm[k][0].show(alg.name, 6), gotm[k][1].show(alg.name, 4))
                        break
                if not bad and kind == 'matmul':
                    ds = [nf.rounding_depth(v) for v in res.values()]
                    Ks = [cancellation(gotm[k][0], nf.abs_nf(alg, res[k])) for k in res]
                    note = {'rounding_depth': max(d for d in ds if d is not None) if all(d is not None for d in ds) else None, 'K': max(Ks)}
                    if any(d is None or d > DEPTH_LIMIT['mul'] for d in ds) or any(K != 1 for K in Ks):
                        bad = 'rounding certificate fails: depths=%s K=%s' % (sorted(set(ds), key=str), sorted(set(Ks), key=str))
            done('R-ALG', name, bad, it, note)
            if note and counts['R-ALG'] % 9 == 1:
                ctx.sample({'config': cfg, 'fn': name, 'kind': kind, 'certificate': note})
        ctx.floor('square matrix types (%s)' % cfg, len(types), 7)
        ctx.floor('matrix algebra instances (%s)' % cfg, sum(counts.values()), 130)
        # Sum / Product over iterators: left folds of + from ZERO and of * from the identity (generic bodies, rules/fold.py)
        import fold
        nfold = fold.check_folds(ctx, cfg, F, H, lambda tn: 'float' if tn in ('Mat2', 'Mat3', 'Mat3A', 'Mat4', 'DMat2', 'DMat3', 'DMat4') else None, done, product_unit=lambda tn, n: {4: [1, 0, 0, 1], 9: [1, 0, 0, 0, 1, 0, 0, 0, 1], 16: [1, 0, 0, 0, 0, 1, 0, 0, 0, 0, 1, 0, 0, 0, 0, 1]}.get(n))
        ctx.floor('Sum / Product impls (%s)' % cfg, nfold, 28)
        for k, v in sorted(counts.items()):
            ctx.count('%s:%s' % (k, cfg), v)
    ctx.extra['exhaustive'] = True


def cancellation(p, absp):
    """K = 1 when every monomial of the absolute normal form survives in the normal form with the same magnitude
    (nothing is computed and then cancelled); 'inf' otherwise"""
    if absp is None:
        return 'n/a'
    if set(p.t) != set(absp.t):
        return 'inf'
    K = 1
    for m, c in p.t.items():
        if abs(c) != absp.t[m]:
            K = max(K, float(absp.t[m] / abs(c)))
    return K
