"""C02 - vector geometry (dot, cross, length, normalize, project, angle) is accurate.

R-ALG: the real function computed by each operation equals the mathematical one (polynomial / rational identities, sqrt as an
opaque atom with sqrt(p)^2 = p).  R-ROUND: rounding-depth / no-cancellation certificate for the polynomial ones.
R-GUARD: the checked normalize family returns the normalised vector exactly when 1/length is finite and positive, and the
documented fallback otherwise.  R-APPROX: the polynomial arccos is within 1e-6 of acos on its whole domain (interval certificate).
Not decided: overflow/underflow boundaries, conditioning."""
import re
import terms as tm
from terms import ite
import nf
from nf import Poly, ONE
from spec import Spec
from lift import value_lanes, strip_ref, result_of, ArgView
from common import api_roots, vec_info, tydef, atom_at, cell_term, TRUSTED_COMMON
from C03 import cancellation

LEVEL = 'other'
TECHNIQUE = 'real-field normal-form identity checking + rounding-depth certificate + guard-predicate matching + interval accuracy certificate over rustc MIR; all backends'
EXPLANATION = ('Decides for all inputs that dot/cross/length/lerp/project/reflect/refract/normalize compute the mathematical expression (so an error confined to one lane, '
               'one sign or one product is reported), bounds rounding by depth d (|err| <= ((1+u)^d - 1) * sum|terms|, no cancelled monomials), and that the normalize family '
               'takes the fallback exactly when 1/length is not finite and positive.  The polynomial arccos behind angle_between / angle_to is certified within 1e-6 of acos on its '
               'whole domain, binary32 rounding included, by interval abstract interpretation (R-APPROX).  Overflow/underflow boundaries and conditioning near parallel '
               'vectors are not decided.')
LEVEL_NOTE = 'Decides the algebraic identity, rounding depth, guard predicates and the arccos accuracy certificate; not conditioning or range boundaries. Trusted: rustc MIR, intrinsic table, rules/spec.py, Higham-style forward error bound.'

CONFIGS_QUICK = ['sse2', 'sse2-fma', 'sse41', 'scalar', 'coresimd', 'libm', 'neon', 'wasm32']
CONFIGS_THOROUGH = ['sse2', 'sse2-fma', 'sse41', 'scalar', 'coresimd', 'libm', 'neon', 'wasm32']
FLOAT_TYPES = {'Vec2': 'f32', 'Vec3': 'f32', 'Vec3A': 'f32', 'Vec4': 'f32', 'DVec2': 'f64', 'DVec3': 'f64', 'DVec4': 'f64'}
OPS = {'dot', 'cross', 'perp_dot', 'length_squared', 'distance_squared', 'element_sum', 'element_product', 'lerp', 'midpoint',
       'project_onto', 'reject_from', 'project_onto_normalized', 'reject_from_normalized', 'reflect', 'refract', 'length', 'length_recip',
       'distance', 'normalize', 'try_normalize', 'normalize_or', 'normalize_or_zero', 'normalize_and_length', 'angle_between', 'angle_to',
       'from_angle', 'to_angle', 'rotate', 'perp'}
DIVISION_FREE = {'dot', 'cross', 'perp_dot', 'length', 'length_squared', 'distance', 'distance_squared', 'element_sum', 'element_product', 'lerp', 'midpoint', 'reflect',
                 'rotate', 'perp', 'from_angle', 'project_onto_normalized', 'reject_from_normalized'}
POLY_OPS = {'dot', 'cross', 'perp_dot', 'length_squared', 'distance_squared', 'element_sum', 'element_product', 'lerp', 'reflect', 'project_onto_normalized', 'reject_from_normalized'}


def acos_leaf(I, fr, callee, args, dest, argops, line):
    return tm.mk('acos_approx', args[0])


EXTRA = {'f32::math::acos_approx_f32': acos_leaf, 'f64::math::acos_approx_f64': acos_leaf,
         'f64::math::std_math::acos_approx': acos_leaf, 'f64::math::libm_math::acos_approx': acos_leaf,
         'f32::math::std_math::acos_approx': acos_leaf, 'f32::math::libm_math::acos_approx': acos_leaf}


def common_guard(lanes):
    """all lanes of the form ite(G, a_i, b_i) with one common G -> (G, [a_i], [b_i])"""
    G = None
    A, B = [], []
    for l in lanes:
        if l.op != 'ite':
            return None
        if G is None:
            G = l.args[0]
        elif l.args[0] is not G:
            return None
        A.append(l.args[1])
        B.append(l.args[2])
    return G, A, B


def is_rcp_guard(G, alg, S, rcp_spec, sz):
    """G == is_finite(X) && X > 0 with X the reciprocal length"""
    if G.op != 'and' or len(G.args) != 2:
        return 'guard is %s, expected is_finite(1/len) && 1/len > 0' % tm.show(G, 0, 4)[:200]
    inf = tm.fconst(float('inf'), sz)
    zero = tm.fconst(0.0, sz)
    X = None
    fin = pos = False
    for g in G.args:
        if g.op == 'flt' and g.args[1] is inf:
            # |X| < inf, or X < inf next to 0 < X (the same set of values: finite and positive; NaN fails both forms)
            fin = True
            x_ = g.args[0].args[0] if g.args[0].op == 'fabs' else g.args[0]
            X = x_ if X is None or X is x_ else False
        elif g.op == 'flt' and g.args[0] is zero:
            pos = True
            X = g.args[1] if X is None or X is g.args[1] else False
    if not (fin and pos) or X is None or X is False:
        return 'guard is %s, expected is_finite(1/len) && 1/len > 0 over one quantity' % tm.show(G, 0, 4)[:200]
    if not S.eq(alg.nf(X), rcp_spec):
        return 'guarded quantity is not 1/length'
    return None


def run(ctx):
    configs = ctx.need(CONFIGS_QUICK if ctx.tier == 'quick' else CONFIGS_THOROUGH)
    ctx.trusted = TRUSTED_COMMON + ['reference mathematics rules/spec.py', 'sqrt(p)^2 = p for the real function (p >= 0)']
    for cfg in configs:
        F = ctx.facts(cfg)
        H = ctx.harness(cfg, {'extra_leaf': EXTRA})
        counts = {}
        types = set()

        def done(rule, name, bad, it, note=None):
            counts[rule] = counts.get(rule, 0) + 1
            if bad:
                ctx.violation(rule, cfg, name, {'file': it['file'], 'line': it['line'], 'problem': bad})
            else:
                ctx.holds(rule, cfg, name, note)

        for name, it in api_roots(F):
            st = (it.get('self_ty') or '').lstrip('&')
            tname = st.rsplit('::', 1)[-1]
            mname = it.get('name') or ''
            if tname not in FLOAT_TYPES or it.get('trait') or mname not in OPS:
                continue
            w = FLOAT_TYPES[tname]
            sz = 4 if w == 'f32' else 8
            types.add(tname)
            body = F.body(it['key'])
            argtys = body['locals'][1:1 + body['argc']]
            rty = body['locals'][0]
            r = H.run(it['key'])
            if r.abort:
                ctx.unverifiable('R-ALG', cfg, name, 'not analysable: ' + r.abort)
                continue
            if r.panics:
                done('R-ALG', name, 'reachable panic site: %r' % (r.panics[0],), it)
                continue
            views = [ArgView(F, r, i, argtys[i]) for i in range(body['argc'])]
            alg = nf.Algebra()
            S = Spec(alg)
            a = [alg.nf(x) for x in views[0].lanes]
            N = len(a)
            b = [alg.nf(x) for x in views[1].lanes] if len(views) > 1 and views[1].kind == 'vec' else None
            s_ = [alg.nf(v.lanes[0]) for v in views[1:] if v.kind == 'scalar']
            res = r.ret
            lanes = value_lanes(F, res, rty) if not isinstance(res, tm.T) else None
            bad = None
            note = None
            two = S.c(2)
            one = S.c(1)
            len2 = S.dot(a, a)
            rcp = S.div(one, alg.sqrt_r(len2))

            def vec_eq(got_lanes, exp, what):
                if got_lanes is None or len(got_lanes) != len(exp):
                    return '%s: result is not a %d-vector' % (what, len(exp))
                for i in range(len(exp)):
                    if not S.eq(alg.nf(got_lanes[i]), exp[i]):
                        return '%s: component %d is %s' % (what, i, alg.nf(got_lanes[i])[0].show(alg.name, 8))
                return None

            def scal_eq(exp, what):
                if not isinstance(res, tm.T):
                    return '%s: result is not a scalar' % what
                if not S.eq(alg.nf(res), exp):
                    g = alg.nf(res)
                    return '%s: got (%s) / (%s)' % (what, g[0].show(alg.name, 8), g[1].show(alg.name, 4))
                return None

            if mname == 'dot':
                bad = scal_eq(S.dot(a, b), 'dot is not sum a_i*b_i')
            elif mname == 'cross':
                bad = vec_eq(lanes, S.cross(a, b), 'cross')
            elif mname == 'perp_dot':
                bad = scal_eq(S.sub(S.mul(a[0], b[1]), S.mul(a[1], b[0])), 'perp_dot')
            elif mname == 'length_squared':
                bad = scal_eq(len2, 'length_squared')
            elif mname == 'distance_squared':
                d = [S.sub(x, y) for x, y in zip(a, b)]
                bad = scal_eq(S.dot(d, d), 'distance_squared')
            elif mname == 'element_sum':
                bad = scal_eq(S.add(*a), 'element_sum is not the sum of exactly the %d lanes' % N)
            elif mname == 'element_product':
                bad = scal_eq(S.mul(*a), 'element_product is not the product of exactly the %d lanes' % N)
            elif mname == 'lerp':
                bad = vec_eq(lanes, [S.add(x, S.mul(S.sub(y, x), s_[0])) for x, y in zip(a, b)], 'lerp')
            elif mname == 'midpoint':
                bad = vec_eq(lanes, [S.div(S.add(x, y), two) for x, y in zip(a, b)], 'midpoint')
            elif mname in ('project_onto', 'reject_from', 'project_onto_normalized', 'reject_from_normalized'):
                k = S.dot(a, b)
                if not mname.endswith('normalized'):
                    k = S.div(k, S.dot(b, b))
                proj = [S.mul(y, k) for y in b]
                exp = proj if mname.startswith('project') else [S.sub(x, p) for x, p in zip(a, proj)]
                bad = vec_eq(lanes, exp, mname)
            elif mname == 'reflect':
                k = S.mul(two, S.dot(a, b))
                bad = vec_eq(lanes, [S.sub(x, S.mul(k, y)) for x, y in zip(a, b)], 'reflect')
            elif mname == 'refract':
                eta = s_[0]
                ndi = S.dot(b, a)
                kk = S.sub(one, S.mul(eta, eta, S.sub(one, S.mul(ndi, ndi))))
                g = common_guard(lanes) if lanes else None
                if g is None:
                    bad = 'refract: lanes are not gated by one condition'
                else:
                    G, A_, B_ = g
                    zero = tm.fconst(0.0, sz)
                    # the boundary k == 0 may fall on either side (both give a valid grazing / zero result), and the test may be written from
                    # either end: 0 <= k, 0 < k select the refracted ray; k < 0, k <= 0 select the zero vector
                    okG = G.op in ('fle', 'flt') and G.args[0] is zero and S.eq(alg.nf(G.args[1]), kk)
                    if not okG and G.op in ('fle', 'flt') and G.args[1] is zero and S.eq(alg.nf(G.args[0]), kk):
                        okG = True
                        A_, B_ = B_, A_
                    if not okG:
                        bad = 'refract: guard is %s, expected k >= 0 with k = 1 - eta^2 (1 - (n.i)^2)' % tm.show(G, 0, 3)[:160]
                    elif any(not (tm.is_const(z) and tm.cbits(z) & ~(1 << (8 * sz - 1)) == 0) for z in B_):
                        bad = 'refract: fallback is not the zero vector'
                    else:
                        sq = alg.sqrt_r(kk)
                        coef = S.add(S.mul(eta, ndi), sq)
                        bad = vec_eq(A_, [S.sub(S.mul(eta, x), S.mul(coef, y)) for x, y in zip(a, b)], 'refract')
            elif mname == 'length':
                bad = scal_eq(alg.sqrt_r(len2), 'length is not sqrt(sum x_i^2)')
            elif mname == 'length_recip':
                bad = scal_eq(rcp, 'length_recip is not 1/sqrt(sum x_i^2)')
            elif mname == 'distance':
                d = [S.sub(x, y) for x, y in zip(a, b)]
                bad = scal_eq(alg.sqrt_r(S.dot(d, d)), 'distance')
            elif mname == 'normalize':
                bad = vec_eq(lanes, [S.mul(x, rcp) for x in a], 'normalize')
                if not bad:
                    # |result|^2 == 1 as an identity with sqrt(p)^2 = p
                    n2 = S.dot([alg.nf(l) for l in lanes], [alg.nf(l) for l in lanes])
                    if not S.eq(n2, one):
                        bad = 'normalize: squared length of the result is not identically 1'
            elif mname in ('try_normalize', 'normalize_or', 'normalize_or_zero', 'normalize_and_length'):
                norm = [S.mul(x, rcp) for x in a]
                if mname == 'try_normalize':
                    d = res.discr.get((0, rty)) if not isinstance(res, tm.T) else None
                    t = F.types[rty]
                    some = [v for v in t['variants']['vs'] if v['name'] == 'Some'][0]
                    (poff, pty, _n) = some['fields'][0]
                    if d is None or d.op != 'ite' or not (tm.is_const(d.args[1]) and tm.is_const(d.args[2])):
                        bad = 'try_normalize: Some/None decision is not a single guard'
                    else:
                        G = d.args[0] if tm.cbits(d.args[1]) == 1 else tm.b_not(d.args[0])
                        bad = is_rcp_guard(G, alg, S, rcp, sz)
                        if not bad:
                            pv = vec_info(F, pty)
                            pl = []
                            for (off, s2) in pv['lanes']:
                                c = res.cells.get(poff + off)
                                g_ = c[1] if c else None
                                while g_ is not None and g_.op == 'ite' and g_.args[0] is G:
                                    g_ = g_.args[1]
                                pl.append(g_)
                            bad = vec_eq(pl, norm, 'try_normalize payload')
                else:
                    if mname == 'normalize_and_length':
                        t = F.types[rty]
                        (o0, f0, _), (o1, f1, _) = t['fields'][0], t['fields'][1]
                        vl = value_lanes(F, _sub(res, o0, F.types[f0]['sz']), f0)
                        ln = cell_term(res, o1, F.types[f1]['sz'])
                        allv = (vl or []) + [ln]
                    else:
                        allv = lanes
                    g = common_guard(allv) if allv and all(x is not None for x in allv) else None
                    if g is None:
                        bad = '%s: result is not gated by one condition' % mname
                    else:
                        G, A_, B_ = g
                        bad = is_rcp_guard(G, alg, S, rcp, sz)
                        if not bad:
                            bad = vec_eq(A_[:N], norm, mname)
                        if not bad:
                            if mname == 'normalize_or':
                                fb = views[1].lanes
                                if any(x is not y for x, y in zip(B_, fb)):
                                    bad = 'normalize_or: fallback branch does not return the given fallback'
                            elif mname == 'normalize_or_zero':
                                if any(not (tm.is_const(z) and tm.f_of(z) == 0.0) for z in B_):
                                    bad = 'normalize_or_zero: fallback branch is not zero'
                            else:
                                exp_fb = [1.0] + [0.0] * (N - 1) + [0.0]
                                if any(not (tm.is_const(z) and tm.f_of(z) == e) for z, e in zip(B_, exp_fb)):
                                    bad = 'normalize_and_length: fallback is not (X, 0)'
                                elif not S.eq(alg.nf(A_[N]), alg.sqrt_r(len2)):
                                    bad = 'normalize_and_length: returned length is not sqrt(sum x_i^2)'
            elif mname in ('angle_between', 'angle_to'):
                if N == 2:
                    # 2D: signed angle = acos_approx(dot / sqrt(|a|^2 |b|^2)) * signum(perp_dot)
                    perp = S.sub(S.mul(a[0], b[1]), S.mul(a[1], b[0]))
                    ok = isinstance(res, tm.T) and res.op == 'fmul' and any(x.op == 'acos_approx' for x in res.args)
                    if not ok:
                        bad = '%s is not acos_approx(..) * signum(perp_dot)' % mname
                    else:
                        ac = [x for x in res.args if x.op == 'acos_approx'][0]
                        sg = [x for x in res.args if x is not ac][0]
                        exp = S.div(S.dot(a, b), alg.sqrt_r(S.mul(len2, S.dot(b, b))))
                        exp2 = S.div(S.dot(a, b), S.mul(alg.sqrt_r(len2), alg.sqrt_r(S.dot(b, b))))       # sqrt(p) sqrt(q) = sqrt(pq) for p, q >= 0
                        if not S.eq(alg.nf(ac.args[0]), exp) and not S.eq(alg.nf(ac.args[0]), exp2):
                            bad = 'argument of acos is not dot / sqrt(|a|^2 |b|^2)'
                        else:
                            # signum(x) = NaN-propagating copysign(1, x)
                            cs = sg.args[2] if sg.op == 'ite' else sg
                            if cs.op != 'copysign' or not S.eq(alg.nf(cs.args[1]), perp):
                                bad = 'sign factor is not signum(perp_dot)'
                elif mname == 'angle_between':
                    if not isinstance(res, tm.T) or res.op != 'acos_approx':
                        bad = 'angle_between is not acos_approx(..): %s' % (tm.show(res, 0, 2)[:120] if isinstance(res, tm.T) else res)
                    else:
                        exp = S.div(S.dot(a, b), alg.sqrt_r(S.mul(len2, S.dot(b, b))))
                        exp2 = S.div(S.dot(a, b), S.mul(alg.sqrt_r(len2), alg.sqrt_r(S.dot(b, b))))
                        if not S.eq(alg.nf(res.args[0]), exp) and not S.eq(alg.nf(res.args[0]), exp2):
                            bad = 'argument of acos is not dot / sqrt(|a|^2 |b|^2)'
                else:
                    # angle_to (2D): atan2(perp_dot, dot)
                    if not isinstance(res, tm.T) or res.op != 'atan2':
                        bad = 'angle_to is not atan2(..)'
                    elif not (S.eq(alg.nf(res.args[0]), S.sub(S.mul(a[0], b[1]), S.mul(a[1], b[0]))) and S.eq(alg.nf(res.args[1]), S.dot(a, b))):
                        bad = 'angle_to is not atan2(perp_dot, dot)'
            elif mname == 'from_angle' and N == 1 and lanes is not None and len(lanes) == 2:
                bad = vec_eq(lanes, [alg.cos_r(a[0]), alg.sin_r(a[0])], 'from_angle is not (cos t, sin t)')
            elif mname == 'to_angle':
                if not isinstance(res, tm.T) or res.op != 'atan2' or not (S.eq(alg.nf(res.args[0]), a[1]) and S.eq(alg.nf(res.args[1]), a[0])):
                    bad = 'to_angle is not atan2(y, x)'
            elif mname == 'rotate' and N == 2 and b is not None:
                # complex multiplication: rhs rotated by the angle of self
                bad = vec_eq(lanes, [S.sub(S.mul(a[0], b[0]), S.mul(a[1], b[1])), S.add(S.mul(a[1], b[0]), S.mul(a[0], b[1]))], 'rotate')
            elif mname == 'perp' and N == 2:
                bad = vec_eq(lanes, [S.neg(a[1]), a[0]], 'perp')
            else:
                continue
            if not bad and mname in ('distance', 'distance_squared') and b is not None:
                # computed from the component differences only: subtract first, then square (squaring first and subtracting afterwards is the
                # same real function but loses all accuracy for nearby points, which the property's error bound excludes)
                A_, B_ = views[0].lanes, views[1].lanes
                mp = {}
                for i_, (x_, y_) in enumerate(zip(A_, B_)):
                    d_ = tm.atom('delta%d' % i_)
                    mp[tm.f2('fsub', x_, y_)] = d_
                    mp[tm.f2('fsub', y_, x_)] = tm.f1('fneg', d_)
                t2 = tm.subst(res, mp) if isinstance(res, tm.T) else None
                if t2 is None or any(a_ in t2.deps for a_ in list(A_) + list(B_)):
                    bad = '%s is not computed from the differences self - rhs (products of the operands are formed before subtracting: catastrophic cancellation for nearby points)' % mname
            if not bad and mname in DIVISION_FREE:
                from C04 import has_division
                ts_ = [res] if isinstance(res, tm.T) else (lanes or [])
                if any(has_division(x) for x in ts_):
                    bad = '%s divides although its mathematical definition does not: the quotient is undefined (NaN) where the divisor vanishes, e.g. at the zero vector' % mname
            if not bad and mname in POLY_OPS:
                ts = [res] if isinstance(res, tm.T) else lanes
                ds = [nf.rounding_depth(x) for x in ts]
                Ks = [cancellation(alg.nf(x)[0], nf.abs_nf(alg, x)) for x in ts]
                note = {'rounding_depth': max([d for d in ds if d is not None] or [None]) if all(d is not None for d in ds) else None, 'K': max(Ks, key=str)}
                if any(d is None or d > 8 for d in ds) or any(K != 1 for K in Ks):
                    bad = 'rounding certificate fails: depth=%s K=%s' % (ds, Ks)
            done('R-ALG', name, bad, it, note)
            if note and counts['R-ALG'] % 25 == 1:
                ctx.sample({'config': cfg, 'fn': name, 'certificate': note})
        ctx.floor('float vector types (%s)' % cfg, len(types), 7)
        ctx.floor('geometry instances (%s)' % cfg, sum(counts.values()), 120)
        # accuracy of the polynomial arccos behind angle_between / angle_to (interval certificate, rules/approx.py)
        import approx
        from harness import Harness
        Hp = Harness(F)
        n_c = approx.run_certs(ctx, cfg, F, Hp, ['f32::math::acos_approx_f32']) + approx.run_f64_acos(ctx, cfg, F, Hp)
        ctx.floor('arccos accuracy certificates (%s)' % cfg, n_c, 2)
        for k, v in sorted(counts.items()):
            ctx.count('%s:%s' % (k, cfg), v)
    ctx.extra['exhaustive'] = True


def _sub(ag, off, size):
    from interp import Agg
    out = Agg(size)
    for o, c in ag.cells.items():
        if off <= o < off + size:
            out.cells[o - off] = c
    return out
