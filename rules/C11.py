"""C11 - view and projection matrices map the frustum as documented for each handedness.

R-ALG: look_to/look_at (Mat4, DMat4, Affine3A, DAffine3, Mat3 forms): rows are (s, u, -/+f) with s = normalize(f x up), u = s x f,
the eye maps to the origin, the view direction to -Z (rh) / +Z (lh), and s.f = u.f = u.s = 0, as identities.  Each perspective_* /
orthographic_* constructor: the symbolic near / far planes map to the documented depth values (limits for the infinite forms), the fov /
box planes to +-1 in x and y (x scaled by aspect), clip w = -z (rh) / +z (lh) - rational identities over sin/cos atoms.
project_point3 / transform_point3 / transform_vector3 are M(p,1).xyz / w, M(p,1).xyz, M(p,0).xyz."""
import re
import terms as tm
import nf
from spec import Spec
from matmodel import MatModel
from lift import value_lanes, strip_ref, ArgView
from common import api_roots, vec_info, tydef, atom_at, TRUSTED_COMMON

LEVEL = 'other'
TECHNIQUE = 'rational-function identity checking of MIR-extracted matrix entries against the documented frustum / view conditions'
EXPLANATION = ('For all camera parameters, decides that each view matrix is the rigid map described (rows s,u,-+f; eye to origin; direction to -+Z; orthogonality identities) and that each '
               'projection maps the near/far/fov/box planes to the documented clip values with the documented handedness.  Exhaustive over all constructors and both widths.')
LEVEL_NOTE = 'Decides the mapping identities for all inputs (unit-length assumptions of the API are used only where the code itself assumes them). Trusted: rustc MIR, intrinsic table, rules/spec.py.'

CONFIGS_QUICK = ['sse2', 'sse2-fma', 'sse41', 'scalar', 'coresimd', 'neon', 'wasm32']
CONFIGS_THOROUGH = ['sse2', 'sse2-fma', 'sse41', 'scalar', 'coresimd', 'neon', 'wasm32']
# constructor -> (handedness sign of clip w: -1 rh / +1 lh, depth at near, depth at far, 'inf' when far is at infinity)
PERSP = {'perspective_rh_gl': (-1, -1, 1, False), 'perspective_lh': (1, 0, 1, False), 'perspective_rh': (-1, 0, 1, False),
         'perspective_infinite_lh': (1, 0, 1, True), 'perspective_infinite_reverse_lh': (1, 1, 0, True),
         'perspective_infinite_rh': (-1, 0, 1, True), 'perspective_infinite_reverse_rh': (-1, 1, 0, True)}
ORTHO = {'orthographic_rh_gl': (-1, -1, 1), 'orthographic_lh': (1, 0, 1), 'orthographic_rh': (-1, 0, 1)}


def quat_views(ctx, cfg, F, H, M, done):
    """R-VIEW-Q: Quat / DQuat look_to_lh/rh and look_at_lh/rh are the quaternion of the corresponding 3x3 view matrix: the result terms equal those
    of from_mat3 with the matrix entries replaced by the entries of Mat3 / DMat3 look_*(same arguments) - which R-VIEW decides."""
    def find(tn, mn):
        for name, it in api_roots(F):
            st = (it.get('self_ty') or '').lstrip('&')
            if not it.get('trait') and st.rsplit('::', 1)[-1] == tn and (it.get('name') or '') == mn:
                return name, it
        return None, None
    for (qt, mt) in (('Quat', 'Mat3'), ('DQuat', 'DMat3')):
        fname, fit = find(qt, 'from_mat3')
        if fit is None:
            ctx.unverifiable('R-VIEW-Q', cfg, qt + '::from_mat3', 'not found')
            continue
        rf = H.run(fit['key'])
        fb = F.body(fit['key'])
        fl = value_lanes(F, rf.ret, fb['locals'][0]) if not rf.abort and rf.ret is not None else None
        fent, _mi = M.arg_entries(rf, 0, fb['locals'][1]) if fl else (None, None)
        for mn in ('look_to_lh', 'look_to_rh', 'look_at_lh', 'look_at_rh'):
            qname, qit = find(qt, mn)
            mname_, mit = find(mt, mn)
            if qit is None:
                continue
            if mit is None or fl is None or fent is None:
                ctx.unverifiable('R-VIEW-Q', cfg, qname, 'matrix counterpart / from_mat3 not analysable')
                continue
            rq, rm = H.run(qit['key']), H.run(mit['key'])
            qb, mb = F.body(qit['key']), F.body(mit['key'])
            if rq.abort or rm.abort:
                ctx.undecided('R-VIEW-Q', cfg, qname, rq.abort or rm.abort)
                continue
            ql = value_lanes(F, rq.ret, qb['locals'][0])
            E = M.entries(rm.ret, mb['locals'][0])
            bad = None
            if ql is None or E is None:
                bad = 'result lanes / matrix entries not found'
            else:
                mp = {fent[k]: E[k] for k in fent}
                exp = [tm.subst(l, mp) for l in fl]
                if any(x is not y for x, y in zip(ql, exp)):
                    # not syntactically identical: compare as real functions branch by branch
                    from C12 import cases_with_assignment
                    cs = cases_with_assignment(list(ql) + list(exp), 8)
                    if cs is None:
                        bad = 'too many selections to compare with from_mat3(%s::%s(..))' % (mt, mn)
                    else:
                        for asg, ts in cs:
                            alg = nf.Algebra()
                            alg.budget = 400000
                            S = Spec(alg)
                            try:
                                if not all(S.eq(alg.nf(a), alg.nf(b)) for a, b in zip(ts[:4], ts[4:])):
                                    bad = 'is not the quaternion of %s::%s of the same arguments' % (mt, mn)
                                    break
                            except ValueError as e:
                                bad = 'not analysable: %s' % e
                                break
            done('R-VIEW-Q', qname, bad, qit)


def run(ctx):
    configs = ctx.need(CONFIGS_QUICK if ctx.tier == 'quick' else CONFIGS_THOROUGH)
    ctx.trusted = TRUSTED_COMMON + ['reference mathematics rules/spec.py; documented depth ranges transcribed from the rustdoc of each constructor']
    for cfg in configs:
        F = ctx.facts(cfg)
        H = ctx.harness(cfg)
        M = MatModel(F, H)
        counts = {}

        def done(rule, name, bad, it):
            counts[rule] = counts.get(rule, 0) + 1
            if bad:
                ctx.violation(rule, cfg, name, {'file': it['file'], 'line': it['line'], 'problem': bad})
            else:
                ctx.holds(rule, cfg, name)

        for name, it in api_roots(F):
            st = (it.get('self_ty') or '').lstrip('&')
            tname = st.rsplit('::', 1)[-1]
            mname = it.get('name') or ''
            if it.get('trait'):
                continue
            body = F.body(it['key'])
            argtys = body['locals'][1:1 + body['argc']]
            rty = body['locals'][0]
            mv = re.match(r'^look_(to|at)_(rh|lh)$', mname)
            if mv and tname in ('Mat4', 'DMat4', 'Affine3A', 'DAffine3', 'Mat3', 'Mat3A', 'DMat3'):
                r = H.run(it['key'])
                if r.abort or r.panics:
                    done('R-VIEW', name, r.abort or 'reachable panic %r' % (r.panics[0],), it)
                    continue
                mi = M.info(rty)
                ent = M.entries(r.ret, rty)
                if mi is None or ent is None:
                    continue
                alg = nf.Algebra()
                S = Spec(alg)
                ent = {k: alg.nf(v) for k, v in ent.items()}
                vs = [[alg.nf(a) for a in ArgView(F, r, i, argtys[i]).lanes[:3]] for i in range(body['argc'])]
                has_eye = body['argc'] == 3
                eye = vs[0] if has_eye else None
                d_arg, up = (vs[1], vs[2]) if has_eye else (vs[0], vs[1])
                if mv.group(1) == 'at':
                    if not has_eye:
                        continue
                    diff = [S.sub(x, y) for x, y in zip(d_arg, eye)]
                    k = S.div(S.c(1), alg.sqrt_r(S.dot(diff, diff)))
                    dirv = [S.mul(x, k) for x in diff]
                else:
                    dirv = d_arg
                bad = None
                # the direction is used as given (unit by precondition) or normalised first: both are the documented map
                for variant in (0, 1):
                    dv = dirv
                    if variant == 1:
                        kd = S.div(S.c(1), alg.sqrt_r(S.dot(dirv, dirv)))
                        dv = [S.mul(x, kd) for x in dirv]
                    f = dv if mv.group(2) == 'rh' else [S.neg(x) for x in dv]
                    cr = S.cross(f, up)
                    ks = S.div(S.c(1), alg.sqrt_r(S.dot(cr, cr)))
                    s = [S.mul(x, ks) for x in cr]
                    u = S.cross(s, f)
                    rows = [s, u, [S.neg(x) for x in f]]
                    bad = None
                    for rr in range(3):
                        for c in range(3):
                            if not S.eq(ent[(c, rr)], rows[rr][c]):
                                bad = 'row %d, column %d of the view matrix is not %s' % (rr, c, ['s = normalize(f x up)', 'u = s x f', '-f'][rr])
                    if not bad:
                        dirv = dv
                        break
                if bad and mv.group(1) == 'to':
                    # look_to documents dir (and up) as unit vectors: a body that re-normalises an intermediate which is already unit under that
                    # precondition (u = normalize(s x f)) is the same map.  Compare modulo |dir|^2 = 1
                    from post import unit_relation, doc_unit_args
                    from runner import REPO
                    ua = doc_unit_args(REPO, it)
                    di = 1 if has_eye else 0
                    if di in ua:
                        alg2 = nf.Algebra()
                        alg2.budget = 400000
                        S2 = Spec(alg2)
                        unit_relation(alg2, ArgView(F, r, di, argtys[di]).lanes[:3])
                        try:
                            ent2 = {k: alg2.nf(v) for k, v in M.entries(r.ret, rty).items()}
                            d2 = [alg2.nf(a) for a in ArgView(F, r, di, argtys[di]).lanes[:3]]
                            up2 = [alg2.nf(a) for a in ArgView(F, r, di + 1, argtys[di + 1]).lanes[:3]]
                            f2_ = d2 if mv.group(2) == 'rh' else [S2.neg(x) for x in d2]
                            cr2 = S2.cross(f2_, up2)
                            ks2 = S2.div(S2.c(1), alg2.sqrt_r(S2.dot(cr2, cr2)))
                            s2 = [S2.mul(x, ks2) for x in cr2]
                            rows2 = [s2, S2.cross(s2, f2_), [S2.neg(x) for x in f2_]]
                            if all(alg2.reduce(alg2.r_add(ent2[(c, rr)], alg2.r_neg(rows2[rr][c]))[0]).is_zero() for rr in range(3) for c in range(3)):
                                bad = None
                        except ValueError:
                            pass
                has_eye = has_eye and mi['cols'] == 4
                if not bad and has_eye:
                    tcol = mi['cols'] - 1
                    # eye maps to the origin
                    for rr in range(3):
                        v = S.add(S.add(*[S.mul(ent[(c, rr)], eye[c]) for c in range(3)]), ent[(tcol, rr)])
                        if not S.eq(v, S.c(0)):
                            bad = 'the eye is not mapped to the origin (component %d)' % rr
                    if mi['rows'] == 4:
                        for c in range(4):
                            if not S.eq(ent[(c, 3)], S.c(1) if c == 3 else S.c(0)):
                                bad = 'bottom row is not (0,0,0,1)'
                if not bad:
                    # view direction maps to (0, 0, -/+ f.f):  s.f = u.f = 0 as identities, and u.s = 0
                    img = [S.add(*[S.mul(ent[(c, rr)], dirv[c]) for c in range(3)]) for rr in range(3)]
                    if not S.eq(img[0], S.c(0)) or not S.eq(img[1], S.c(0)):
                        bad = 'the view direction does not map onto the Z axis'
                    sign = -1 if mv.group(2) == 'rh' else 1
                    if not bad and not S.eq(img[2], S.mul(S.c(sign), S.dot(dirv, dirv))):
                        bad = 'the view direction maps to the wrong side of Z (%s-handed)' % mv.group(2)
                    if not bad and not S.eq(S.dot(u, s), S.c(0)):
                        bad = 'u.s is not identically 0'
                done('R-VIEW', name, bad, it)
            elif (mname in PERSP or mname in ORTHO) and tname in ('Mat4', 'DMat4'):
                r = H.run(it['key'])
                if r.abort or r.panics:
                    done('R-PROJ', name, r.abort or 'reachable panic %r' % (r.panics[0],), it)
                    continue
                ent = M.entries(r.ret, rty)
                alg = nf.Algebra()
                S = Spec(alg)
                P = {k: alg.nf(v) for k, v in ent.items()}
                args = [alg.nf(atom_at(r, i, 0)) for i in range(body['argc'])]

                def clip(p):
                    return [S.add(*[S.mul(P[(c, rr)], p[c]) for c in range(4)]) for rr in range(4)]
                bad = None
                one, zero = S.c(1), S.c(0)
                if mname in PERSP:
                    hs, dn, df, inf = PERSP[mname]
                    fov, aspect, zn = args[0], args[1], args[2]
                    zf = args[3] if not inf else None
                    half = S.mul(S.c(nf.Fraction(1, 2)), fov)
                    t = alg.tan_r(half)
                    d = (nf.Poly.var(alg.opaque_fn('depth', ('d',))), nf.ONE)      # an arbitrary positive view depth
                    zview = S.mul(S.c(hs), d)
                    # clip w = -z (rh) / +z (lh)
                    c0 = clip([zero, zero, zview, one])
                    if not S.eq(c0[3], d):
                        bad = 'clip w is not %sz' % ('-' if hs < 0 else '+')
                    # top plane y = tan(fov/2)*depth  -> y_clip / w_clip = 1 ; right plane x = aspect*tan*depth -> 1
                    ct = clip([zero, S.mul(t, d), zview, one])
                    if not bad and not S.eq(ct[1], ct[3]):
                        bad = 'the top of the field of view does not map to y = +w'
                    cr_ = clip([S.mul(aspect, t, d), zero, zview, one])
                    if not bad and not S.eq(cr_[0], cr_[3]):
                        bad = 'the right edge (aspect * tan(fov/2)) does not map to x = +w'
                    cn = clip([zero, zero, S.mul(S.c(hs), zn), one])
                    if not bad and not S.eq(cn[2], S.mul(S.c(dn), cn[3])):
                        bad = 'the near plane does not map to depth %d' % dn
                    if not bad and not inf:
                        cf = clip([zero, zero, S.mul(S.c(hs), zf), one])
                        if not S.eq(cf[2], S.mul(S.c(df), cf[3])):
                            bad = 'the far plane does not map to depth %d' % df
                    if not bad and inf:
                        # limit z -> infinity of z_clip / w_clip = P[2][2] / P[2][3]
                        if not S.eq(P[(2, 2)], S.mul(S.c(df), P[(2, 3)])):
                            bad = 'depth at infinity is not %d' % df
                    allowed = {(0, 0), (1, 1), (2, 2), (2, 3), (3, 2)}
                else:
                    hs, dn, df = ORTHO[mname]
                    l, rgt, b, tp, n, fr = args
                    for (pt, comp, val, what) in (([l, zero, zero, one], 0, -1, 'left -> -1'), ([rgt, zero, zero, one], 0, 1, 'right -> +1'),
                                                  ([zero, b, zero, one], 1, -1, 'bottom -> -1'), ([zero, tp, zero, one], 1, 1, 'top -> +1'),
                                                  ([zero, zero, S.mul(S.c(hs), n), one], 2, dn, 'near -> %d' % dn), ([zero, zero, S.mul(S.c(hs), fr), one], 2, df, 'far -> %d' % df)):
                        c_ = clip(pt)
                        if not S.eq(c_[comp], S.mul(S.c(val), c_[3])) or not S.eq(c_[3], one):
                            bad = 'orthographic plane mapping fails: %s' % what
                            break
                    allowed = {(0, 0), (1, 1), (2, 2), (3, 0), (3, 1), (3, 2), (3, 3)}
                if not bad:
                    for k, v in P.items():
                        if k not in allowed and not S.eq(v, zero):
                            bad = 'entry (col %d,row %d) should be zero' % k
                done('R-PROJ', name, bad, it)
            elif re.match(r'^(project_point3a?|transform_point3a?|transform_vector3a?)$', mname) and tname in ('Mat4', 'DMat4'):
                r = H.run(it['key'])
                if r.abort or r.panics:
                    done('R-XFORM', name, r.abort or 'reachable panic %r' % (r.panics[0],), it)
                    continue
                alg = nf.Algebra()
                S = Spec(alg)
                e, mi = M.arg_entries(r, 0, argtys[0])
                P = {k: alg.nf(v) for k, v in e.items()}
                p = [alg.nf(a) for a in ArgView(F, r, 1, argtys[1]).lanes[:3]]
                w_in = S.c(0) if 'vector' in mname else S.c(1)
                hom = [S.add(S.add(*[S.mul(P[(c, rr)], p[c]) for c in range(3)]), S.mul(P[(3, rr)], w_in)) for rr in range(4)]
                lanes = value_lanes(F, r.ret, rty)
                bad = None
                for i in range(3):
                    exp = S.div(hom[i], hom[3]) if mname.startswith('project') else hom[i]
                    if lanes is None or not S.eq(alg.nf(lanes[i]), exp):
                        bad = 'component %d is not %s' % (i, '(M(p,1)).xyz / (M(p,1)).w' if mname.startswith('project') else 'M(p,%s).xyz' % ('0' if 'vector' in mname else '1'))
                        break
                done('R-XFORM', name, bad, it)
        # 2D homogeneous transforms of the 3x3 types: M (p, 1).xy and M (p, 0).xy
        for name, it in api_roots(F):
            st = (it.get('self_ty') or '').lstrip('&')
            tname = st.rsplit('::', 1)[-1]
            mname = it.get('name') or ''
            if it.get('trait') or tname not in ('Mat3', 'Mat3A', 'DMat3') or mname not in ('transform_point2', 'transform_vector2'):
                continue
            body = F.body(it['key'])
            argtys = body['locals'][1:1 + body['argc']]
            rty = body['locals'][0]
            r = H.run(it['key'])
            if r.abort or r.panics:
                done('R-XFORM', name, r.abort or 'reachable panic %r' % (r.panics[0],), it)
                continue
            alg = nf.Algebra()
            S = Spec(alg)
            e, mi = M.arg_entries(r, 0, argtys[0])
            P = {k: alg.nf(v) for k, v in e.items()}
            p = [alg.nf(a) for a in ArgView(F, r, 1, argtys[1]).lanes[:2]]
            w_in = S.c(0) if 'vector' in mname else S.c(1)
            lanes = value_lanes(F, r.ret, rty)
            bad = None
            for i in range(2):
                exp = S.add(S.add(S.mul(P[(0, i)], p[0]), S.mul(P[(1, i)], p[1])), S.mul(P[(2, i)], w_in))
                if lanes is None or not S.eq(alg.nf(lanes[i]), exp):
                    bad = 'component %d is not M (p, %s).xy' % (i, '0' if 'vector' in mname else '1')
                    break
            done('R-XFORM', name, bad, it)
        quat_views(ctx, cfg, F, H, M, done)
        ctx.floor('quaternion view instances (%s)' % cfg, counts.get('R-VIEW-Q', 0), 8)
        ctx.floor('view matrix instances (%s)' % cfg, counts.get('R-VIEW', 0), 24)
        ctx.floor('projection instances (%s)' % cfg, counts.get('R-PROJ', 0), 20)
        ctx.floor('point/vector transform instances (%s)' % cfg, counts.get('R-XFORM', 0), 9)
        for k, v in sorted(counts.items()):
            ctx.count('%s:%s' % (k, cfg), v)
    ctx.extra['exhaustive'] = True
