"""Reference mathematics, written from textbook definitions (not from glam).  All functions operate on
rational-function values (num, den) of an nf.Algebra."""
import itertools
from fractions import Fraction
import nf
from nf import Poly, ONE


class Spec(object):
    def __init__(self, alg):
        self.a = alg

    def c(self, k):
        return (Poly.const(k), ONE)

    def add(self, *xs):
        r = xs[0]
        for x in xs[1:]:
            r = self.a.r_add(r, x)
        return r

    def sub(self, x, y):
        return self.a.r_add(x, self.a.r_neg(y))

    def mul(self, *xs):
        r = xs[0]
        for x in xs[1:]:
            r = self.a.r_mul(r, x)
        return r

    def neg(self, x):
        return self.a.r_neg(x)

    def div(self, x, y):
        return self.a.r_div(x, y)

    def eq(self, x, y):
        return self.a.r_eq(x, y)

    # ---- matrices are dicts {(col, row): value}
    def matmul(self, A, B, n, m=None, p=None):
        """(A*B)(c, r) = sum_k A(k, r) * B(c, k);  A is n rows x m cols, B is m rows x p cols"""
        m = m or n
        p = p or n
        out = {}
        for c in range(p):
            for r in range(n):
                out[(c, r)] = self.add(*[self.mul(A[(k, r)], B[(c, k)]) for k in range(m)])
        return out

    def matvec(self, A, v, rows, cols):
        return [self.add(*[self.mul(A[(c, r)], v[c]) for c in range(cols)]) for r in range(rows)]

    def transpose(self, A, n):
        return {(c, r): A[(r, c)] for c in range(n) for r in range(n)}

    def det(self, A, n):
        """Leibniz: sum over permutations sigma of sign(sigma) * prod_i A[row i, col sigma(i)]"""
        total = self.c(0)
        for perm in itertools.permutations(range(n)):
            sign = 1
            for i in range(n):
                for j in range(i + 1, n):
                    if perm[i] > perm[j]:
                        sign = -sign
            term = self.c(sign)
            for i in range(n):
                term = self.mul(term, A[(perm[i], i)])
            total = self.add(total, term)
        return total

    def minor(self, A, n, row, col):
        rows = [r for r in range(n) if r != row]
        cols = [c for c in range(n) if c != col]
        sub = {(ci, ri): A[(c, r)] for ci, c in enumerate(cols) for ri, r in enumerate(rows)}
        return self.det(sub, n - 1)

    def cofactor(self, A, n, row, col):
        m = self.minor(A, n, row, col)
        return m if (row + col) % 2 == 0 else self.neg(m)

    def inverse(self, A, n):
        """inverse entry at (col c, row r) = cofactor(row c, col r) / det"""
        d = self.det(A, n)
        return {(c, r): self.div(self.cofactor(A, n, c, r), d) for c in range(n) for r in range(n)}

    # ---- vectors
    def dot(self, a, b):
        return self.add(*[self.mul(x, y) for x, y in zip(a, b)])

    def cross(self, a, b):
        return [self.sub(self.mul(a[1], b[2]), self.mul(a[2], b[1])),
                self.sub(self.mul(a[2], b[0]), self.mul(a[0], b[2])),
                self.sub(self.mul(a[0], b[1]), self.mul(a[1], b[0]))]

    # ---- quaternions (x, y, z, w)
    def hamilton(self, p, q):
        px, py, pz, pw = p
        qx, qy, qz, qw = q
        m, a, s = self.mul, self.add, self.sub
        return [a(s(a(m(pw, qx), m(px, qw)), m(pz, qy)), m(py, qz)),
                a(s(a(m(pw, qy), m(py, qw)), m(px, qz)), m(pz, qx)),
                a(s(a(m(pw, qz), m(pz, qw)), m(py, qx)), m(px, qy)),
                s(s(s(m(pw, qw), m(px, qx)), m(py, qy)), m(pz, qz))]

    def quat_conj(self, q):
        return [self.neg(q[0]), self.neg(q[1]), self.neg(q[2]), q[3]]

    def quat_rotate(self, q, v):
        """vector part of q (v,0) q*"""
        zero = self.c(0)
        t = self.hamilton(self.hamilton(q, [v[0], v[1], v[2], zero]), self.quat_conj(q))
        return t[:3]

    def quat_matrix(self, q):
        """rotation matrix of a quaternion (columns), textbook form; entries (col, row)"""
        x, y, z, w = q
        m, a, s, c = self.mul, self.add, self.sub, self.c
        two = c(2)
        xx, yy, zz = m(x, x), m(y, y), m(z, z)
        xy, xz, yz = m(x, y), m(x, z), m(y, z)
        wx, wy, wz = m(w, x), m(w, y), m(w, z)
        one = c(1)
        R = {}
        R[(0, 0)] = s(one, m(two, a(yy, zz)))
        R[(0, 1)] = m(two, a(xy, wz))
        R[(0, 2)] = m(two, s(xz, wy))
        R[(1, 0)] = m(two, s(xy, wz))
        R[(1, 1)] = s(one, m(two, a(xx, zz)))
        R[(1, 2)] = m(two, a(yz, wx))
        R[(2, 0)] = m(two, a(xz, wy))
        R[(2, 1)] = m(two, s(yz, wx))
        R[(2, 2)] = s(one, m(two, a(xx, yy)))
        return R

    def rot_axis(self, axis, s_, c_):
        """elementary rotation matrix about x/y/z (right-handed, counter-clockwise), columns"""
        o, z = self.c(1), self.c(0)
        n = self.neg
        if axis == 0:
            cols = [[o, z, z], [z, c_, s_], [z, n(s_), c_]]
        elif axis == 1:
            cols = [[c_, z, n(s_)], [z, o, z], [s_, z, c_]]
        else:
            cols = [[c_, s_, z], [n(s_), c_, z], [z, z, o]]
        return {(c, r): cols[c][r] for c in range(3) for r in range(3)}

    def rodrigues(self, k, s_, c_):
        """R = c I + s [k]x + (1-c) k k^T"""
        one = self.c(1)
        omc = self.sub(one, c_)
        K = [[self.c(0), self.neg(k[2]), k[1]], [k[2], self.c(0), self.neg(k[0])], [self.neg(k[1]), k[0], self.c(0)]]  # K[row][col]
        R = {}
        for c in range(3):
            for r in range(3):
                v = self.add(self.mul(s_, K[r][c]), self.mul(omc, k[r], k[c]))
                if r == c:
                    v = self.add(v, c_)
                R[(c, r)] = v
        return R
