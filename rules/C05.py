"""C05 - Quat, Mat3/Mat3A, Mat4 and Affine types are interchangeable views of a transform.

Decided: (a) every layout conversion between matrix/affine types is an entry-for-entry bit copy with the documented identity padding
(R-COPY), f32<->f64 forms are per-entry casts; (b) quaternion -> matrix (from_quat on every type) is the textbook rotation matrix, which
agrees with q*v modulo |q|^2 = 1; (c) matrix -> quaternion: each of the four branches of from_rotation_axes is Shepperd's formula for
that branch, guarded by m22 <= 0, m11-m00 <= 0, m11+m00 <= 0, and from_mat3/mat3a/mat4 feed it the right columns; (d) affine product,
inverse and the Mat4 embedding commute as polynomial identities, mixed matrix*affine products equal the embedded product.
(e) R-ROUNDTRIP: from_rotation_axes applied to the columns Mat3::from_quat(q) / DMat3::from_quat(q) actually computes returns +-q on each of
its four branches, as an identity modulo |q|^2 = 1 (all ten products q'_i q'_j equal q_i q_j); since every rotation matrix is R(q) for a unit
q this is the matrix -> quaternion -> matrix round trip in real arithmetic.
Not decided: rounding along the round trip (the guards of (c) keep each branch's radicand >= 1, which is what bounds it)."""
import re
import terms as tm
import nf
from nf import Poly, ONE
from spec import Spec
from matmodel import MatModel, DIMS
from lift import value_lanes, strip_ref, ArgView, result_of
from common import api_roots, vec_info, tydef, atom_at, cell_term, TRUSTED_COMMON

LEVEL = 'other'
TECHNIQUE = 'provenance (bit-copy) analysis + polynomial/rational identity checking of conversions against reference mathematics; branch-wise Shepperd check'
EXPLANATION = ('Decides for all inputs that conversions between representations move entries unchanged (so the converted object acts identically), that from_quat is the textbook matrix, '
               'that every branch of the trace-based matrix->quaternion conversion is the correct Shepperd formula with the documented guards, and that affine composition / inversion '
               'commute with the Mat4 embedding, and that matrix -> quaternion applied to the matrix of a unit quaternion returns +-q on every branch (the round trip, in real arithmetic).')
LEVEL_NOTE = 'Decides copy/identity clauses and the SO(3) round trip as real identities for all inputs; rounding along the round trip is not bounded. Trusted: rustc MIR, intrinsic table, rules/spec.py.'

CONFIGS_QUICK = ['sse2', 'sse2-fma', 'sse41', 'scalar', 'coresimd', 'neon', 'wasm32']
CONFIGS_THOROUGH = ['sse2', 'sse2-fma', 'sse41', 'scalar', 'coresimd', 'neon', 'wasm32']
MATS = set(DIMS)


def embed(S, ent, cols, rows, n):
    """embed a linear/affine map into an n x n homogeneous matrix"""
    out = {}
    lin = cols if cols == rows else cols - 1
    for c in range(n):
        for r in range(n):
            if c < lin and r < rows:
                out[(c, r)] = ent[(c, r)]
            elif cols != rows and c == n - 1 and r < rows:
                out[(c, r)] = ent[(cols - 1, r)]
            else:
                out[(c, r)] = S.c(1) if c == r else S.c(0)
    return out


def shepperd(S, alg, m):
    """the four branches; m[(c, r)] column-major entries of the rotation matrix.  R(row r, col c) = m[(c, r)]"""
    R = lambda r, c: m[(c, r)]
    one, half = S.c(1), S.c(nf.Fraction(1, 2))

    def scale(v, t):
        k = S.div(half, alg.sqrt_r(t))
        return [S.mul(x, k) for x in v]
    tw = S.add(one, R(0, 0), R(1, 1), R(2, 2))
    tx = S.add(one, R(0, 0), S.neg(R(1, 1)), S.neg(R(2, 2)))
    ty = S.add(one, S.neg(R(0, 0)), R(1, 1), S.neg(R(2, 2)))
    tz = S.add(one, S.neg(R(0, 0)), S.neg(R(1, 1)), R(2, 2))
    return {
        'x': scale([tx, S.add(R(0, 1), R(1, 0)), S.add(R(0, 2), R(2, 0)), S.sub(R(2, 1), R(1, 2))], tx),
        'y': scale([S.add(R(0, 1), R(1, 0)), ty, S.add(R(1, 2), R(2, 1)), S.sub(R(0, 2), R(2, 0))], ty),
        'z': scale([S.add(R(0, 2), R(2, 0)), S.add(R(1, 2), R(2, 1)), tz, S.sub(R(1, 0), R(0, 1))], tz),
        'w': scale([S.sub(R(2, 1), R(1, 2)), S.sub(R(0, 2), R(2, 0)), S.sub(R(1, 0), R(0, 1)), tw], tw),
    }


def quat_roundtrip(F, H, M, it, rname):
    """R-ROUNDTRIP: from_rotation_axes applied to the columns that <Mat3>::from_quat(q) computes returns q or -q, on each of its four branches,
    as an identity modulo |q|^2 = 1: every product q'_i q'_j of the returned components equals q_i q_j (which says q' = +-q and needs no sign
    reasoning about the square root).  Every rotation matrix is R(q) for some unit q, so this is the matrix -> quaternion -> matrix round trip
    in real arithmetic wherever the branch's square root is non-zero.  -> None or the problem"""
    from interp import Agg
    from post import split_cases, residual
    mt = 'Mat3' if rname == 'Quat' else 'DMat3'
    key1 = None
    for n1, it1 in F.items.items():
        if it1.get('name') == 'from_quat' and not it1.get('trait') and not it1.get('generic') and (it1.get('self_ty') or '').rsplit('::', 1)[-1] == mt:
            key1 = it1['key']
            break
    if key1 is None:
        return '%s::from_quat not found' % mt
    r1 = H.run(key1)
    if r1.abort or r1.ret is None:
        return '%s::from_quat not analysable: %s' % (mt, r1.abort)
    b1 = F.body(key1)
    qty = strip_ref(F, b1['locals'][1])[0]
    qv = vec_info(F, qty)
    if qv is None:
        return 'argument of from_quat is not a quaternion'
    qa = [atom_at(r1, 0, off) for (off, sz) in qv['lanes']]
    ent = M.entries(r1.ret, b1['locals'][0])
    if ent is None or any(a is None for a in qa):
        return 'from_quat result / argument lanes not found'
    b2 = F.body(it['key'])
    av = {}
    for c in range(3):
        aty = strip_ref(F, b2['locals'][1 + c])[0]
        vi = vec_info(F, aty)
        ag = Agg(F.types[aty]['sz'])
        for rr in range(3):
            ag.cells[vi['lanes'][rr][0]] = (vi['esz'], ent[(c, rr)])
        av[c] = ag
    r2 = H.run(it['key'], arg_values=av)
    if r2.abort or r2.ret is None:
        return 'from_rotation_axes not analysable on the columns of from_quat: %s' % r2.abort
    lanes = value_lanes(F, r2.ret, b2['locals'][0])
    if lanes is None or len(lanes) != 4:
        return 'result lanes not found'
    cases = split_cases(lanes)
    if cases is None:
        return 'too many branches'
    if len(cases) < 4:
        return 'only %d distinct branches (Shepperd\'s method needs the largest of four candidates)' % len(cases)
    for ci, ls in enumerate(cases):
        quantities = []
        for i in range(4):
            for j in range(i, 4):
                quantities.append(([tm.f2('fadd', tm.f2('fmul', ls[i], ls[j]), tm.f1('fneg', tm.f2('fmul', qa[i], qa[j])))], None))
        ok, dec, text = residual(quantities, [qa])
        if not ok:
            return 'on branch %d the result is not +-q for the rotation matrix of a unit q (residual %s)' % (ci, text)
    return None


def run(ctx):
    configs = ctx.need(CONFIGS_QUICK if ctx.tier == 'quick' else CONFIGS_THOROUGH)
    ctx.trusted = TRUSTED_COMMON + ['reference mathematics rules/spec.py (quaternion rotation matrix, Shepperd branches, cofactor inverse)']
    # spec-level sanity: R(q) v == q v q* modulo |q|^2 = 1 ; embedding is a homomorphism
    alg = nf.Algebra()
    S = Spec(alg)
    q = [(Poly.var(alg.opaque_fn('sym', (n_,))), ONE) for n_ in 'xyzw']
    v = [(Poly.var(alg.opaque_fn('sym', (n_,))), ONE) for n_ in ('vx', 'vy', 'vz')]
    wv = list(q[3][0].variables())[0]
    rel = Poly.const(1)
    for c in q[:3]:
        rel = rel - alg.mul(c[0], c[0])
    alg.add_relation(wv, rel)
    Rq = S.quat_matrix(q)
    mv = S.matvec(Rq, v, 3, 3)
    rot = S.quat_rotate(q, v)
    ok = all(alg.reduce((S.sub(a_, b_))[0]).is_zero() for a_, b_ in zip(mv, rot))
    if ok:
        ctx.holds('R-SPEC', '-', 'R(q) v == vector part of q (v,0) q*  modulo |q|^2 = 1')
    else:
        ctx.unverifiable('R-SPEC', '-', 'spec self-check', 'reference quaternion matrix and sandwich product disagree')
    for cfg in configs:
        F = ctx.facts(cfg)
        H = ctx.harness(cfg)
        M = MatModel(F, H)
        counts = {}

        def done(rule, name, bad, it):
            counts[rule] = counts.get(rule, 0) + 1
            if bad:
                ctx.violation(rule, cfg, name, {'file': it['file'], 'line': it['line'], 'problem': bad})
            else:
                ctx.holds(rule, cfg, name)

        for name, it in api_roots(F):
            mname = it.get('name') or ''
            tr = (it.get('trait') or '').rsplit('::', 1)[-1]
            body = F.body(it['key'])
            if body is None or it['generic']:
                continue
            argtys = body['locals'][1:1 + body['argc']]
            rty = body['locals'][0]
            rname = tydef(F, rty) or ''
            anames = [tydef(F, strip_ref(F, a)[0]) or '' for a in argtys]
            # ---------------- (a) layout conversions
            conv = (tr == 'From' and rname in MATS and len(anames) == 1 and anames[0] in MATS) or \
                   (not tr and rname in MATS and re.match(r'^from_(mat\da?|affine\d)(_translation)?$', mname) and anames and anames[0] in MATS)
            cast = not tr and re.match(r'^as_d?(mat\d|affine\d)a?$', mname) and rname in MATS and anames and anames[0] in MATS
            if not tr and mname in ('as_dquat', 'as_quat') and rname in ('Quat', 'DQuat') and anames and anames[0] in ('Quat', 'DQuat'):
                # f32 <-> f64 quaternion: component i is the cast of component i
                r = H.run(it['key'])
                bad = r.abort or ('reachable panic' if r.panics else None)
                if not bad:
                    src_l = ArgView(F, r, 0, argtys[0]).lanes
                    dst_l = value_lanes(F, r.ret, rty)
                    fw, tw = ('f32', 'f64') if rname == 'DQuat' else ('f64', 'f32')
                    if src_l is None or dst_l is None or len(src_l) != 4 or len(dst_l) != 4:
                        bad = 'quaternion components not found'
                    else:
                        for i in range(4):
                            if dst_l[i] is not tm.cast('FloatToFloat', fw, tw, src_l[i]):
                                bad = 'component %s is %s, expected component %s cast to %s' % ('xyzw'[i], tm.show(dst_l[i], 0, 3)[:100], 'xyzw'[i], tw)
                                break
                done('R-COPY', name, bad, it)
                continue
            if conv or cast:
                r = H.run(it['key'])
                if r.abort or r.panics:
                    done('R-COPY', name, r.abort or 'reachable panic', it)
                    continue
                src, smi = M.arg_entries(r, 0, argtys[0])
                dst = M.entries(r.ret, rty)
                dmi = M.info(rty)
                if src is None or dst is None:
                    ctx.unverifiable('R-COPY', cfg, name, 'matrix entries not found')
                    continue
                trans = None
                if mname.endswith('_translation') and len(argtys) == 2:
                    trans = ArgView(F, r, 1, argtys[1]).lanes
                bad = None
                s_aff = smi['cols'] != smi['rows']
                d_aff = dmi['cols'] != dmi['rows']
                s_lin = smi['cols'] - 1 if s_aff else smi['cols']
                d_lin = dmi['cols'] - 1 if d_aff else dmi['cols']
                def LIN(c_, r_):
                    if c_ < s_lin and r_ < s_lin and r_ < smi['rows']:
                        return src[(c_, r_)]
                    return 1.0 if c_ == r_ else 0.0

                def TRANS(r_):
                    if trans is not None:
                        return trans[r_]
                    if s_aff:
                        return src[(smi['cols'] - 1, r_)]
                    if not s_aff and d_aff and smi['cols'] == d_lin + 1:
                        return src[(smi['cols'] - 1, r_)]
                    return 0.0
                for (c, rr), g in dst.items():
                    if d_aff:
                        exp = TRANS(rr) if c == d_lin else LIN(c, rr)
                    elif (s_aff or trans is not None) and dmi['cols'] == s_lin + 1:
                        n_ = dmi['cols']
                        if rr == n_ - 1:
                            exp = 1.0 if c == n_ - 1 else 0.0
                        elif c == n_ - 1:
                            exp = TRANS(rr)
                        else:
                            exp = LIN(c, rr)
                    else:
                        exp = LIN(c, rr)
                    if isinstance(exp, float):
                        if not (tm.is_const(g) and tm.f_of(g) == exp):
                            bad = 'entry (col %d,row %d) is %s, expected the constant %g' % (c, rr, tm.show(g, 0, 3), exp)
                            break
                    else:
                        want = exp
                        if cast:
                            fs, ts = smi['elem'], dmi['elem']
                            want = tm.cast('FloatToFloat', fs, ts, exp)
                        if g is not want:
                            bad = 'entry (col %d,row %d) is %s, expected %s' % (c, rr, tm.show(g, 0, 3), tm.show(want, 0, 3))
                            break
                done('R-COPY', name, bad, it)
                continue
            # ---------------- (b) quaternion -> matrix
            if not tr and mname == 'from_quat' and rname in MATS:
                r = H.run(it['key'])
                if r.abort or r.panics:
                    done('R-ALG', name, r.abort or 'reachable panic', it)
                    continue
                alg = nf.Algebra()
                S = Spec(alg)
                qv = [alg.nf(a) for a in ArgView(F, r, 0, argtys[0]).lanes]
                ent = {k: alg.nf(v_) for k, v_ in M.entries(r.ret, rty).items()}
                mi = M.info(rty)
                R3 = S.quat_matrix(qv)
                bad = None
                for (c, rr), g in ent.items():
                    exp = R3[(c, rr)] if (c < 3 and rr < 3) else (S.c(1) if c == rr else S.c(0))
                    if not S.eq(g, exp):
                        bad = 'entry (col %d,row %d) is not the rotation matrix of the quaternion' % (c, rr)
                        break
                done('R-ALG', name, bad, it)
                continue
            # ---------------- (c) matrix -> quaternion
            if not tr and rname in ('Quat', 'DQuat') and mname in ('from_rotation_axes', 'from_mat3', 'from_mat3a', 'from_mat4', 'from_affine3'):
                r = H.run(it['key'])
                if r.abort or r.panics:
                    done('R-SHEPPERD', name, r.abort or 'reachable panic', it)
                    continue
                alg = nf.Algebra()
                S = Spec(alg)
                sz = 4 if rname == 'Quat' else 8
                if mname == 'from_rotation_axes':
                    m = {}
                    for c in range(3):
                        ls = ArgView(F, r, c, argtys[c]).lanes
                        for rr in range(3):
                            m[(c, rr)] = ls[rr]
                else:
                    e, smi = M.arg_entries(r, 0, argtys[0])
                    m = {(c, rr): e[(c, rr)] for c in range(3) for rr in range(3)}
                mn = {k: alg.nf(v_) for k, v_ in m.items()}
                lanes = value_lanes(F, r.ret, rty)
                zero = tm.fconst(0.0, sz)
                bad = None
                # peel the decision tree common to all lanes
                def peel(ls):
                    if all(l.op == 'ite' for l in ls) and len({l.args[0].id for l in ls}) == 1:
                        return ls[0].args[0], [l.args[1] for l in ls], [l.args[2] for l in ls]
                    return None
                top = peel(lanes) if lanes else None
                if top is None:
                    bad = 'result is not a decision tree common to all four components'
                else:
                    G0, T, E = top
                    okG0 = G0.op in ('fle', 'flt') and G0.args[1] is zero and G0.args[0] is m[(2, 2)]      # a tie may go either way: both branches are well conditioned there
                    pt, pe = peel(T), peel(E)
                    if not okG0 or pt is None or pe is None:
                        bad = 'top guard is %s, expected m22 <= 0 with two sub-decisions' % tm.show(G0, 0, 3)[:120]
                    else:
                        (G1, A_, B_), (G2, C_, D_) = pt, pe
                        ok1 = G1.op in ('fle', 'flt') and G1.args[1] is zero and S.eq(alg.nf(G1.args[0]), S.sub(mn[(1, 1)], mn[(0, 0)]))
                        ok2 = G2.op in ('fle', 'flt') and G2.args[1] is zero and S.eq(alg.nf(G2.args[0]), S.add(mn[(1, 1)], mn[(0, 0)]))
                        if not ok1 or not ok2:
                            bad = 'inner guards are not m11-m00 <= 0 and m11+m00 <= 0'
                        else:
                            sp = shepperd(S, alg, mn)
                            for (leaf, key) in ((A_, 'x'), (B_, 'y'), (C_, 'z'), (D_, 'w')):
                                for i in range(4):
                                    if not S.eq(alg.nf(leaf[i]), sp[key][i]):
                                        bad = 'branch "%s largest": component %s is not Shepperd\'s formula' % (key, 'xyzw'[i])
                                        break
                                if bad:
                                    break
                done('R-SHEPPERD', name, bad, it)
                continue
            # ---------------- (d) affine product / inverse / mixed products
            st = (it.get('self_ty') or '').lstrip('&').rsplit('::', 1)[-1]
            if st in ('Affine2', 'Affine3A', 'DAffine2', 'DAffine3', 'Mat3', 'Mat3A', 'DMat3', 'Mat4', 'DMat4') and \
                    ((tr in ('Mul', 'MulAssign') and len(anames) == 2 and all(a in MATS for a in anames) and any('Affine' in a for a in anames)) or (not tr and mname == 'inverse' and 'Affine' in st)):
                r = H.run(it['key'])
                if r.abort or r.panics:
                    done('R-ALG', name, r.abort or 'reachable panic', it)
                    continue
                alg = nf.Algebra()
                S = Spec(alg)
                kres, oty, val = result_of(F, r, body)
                dmi = M.info(oty)
                dst = M.entries(val, oty) if val is not None else None
                if dmi is None or dst is None:
                    continue
                dst = {k: alg.nf(v_) for k, v_ in dst.items()}
                ops = []
                for i, aty in enumerate(argtys):
                    e, mi_ = M.arg_entries(r, i, aty)
                    ops.append(({k: alg.nf(v_) for k, v_ in e.items()}, mi_))
                n = max(max(mi_['cols'], mi_['rows']) for (_, mi_) in ops)
                emb = [embed(S, e, mi_['cols'], mi_['rows'], n) for (e, mi_) in ops]
                if mname == 'inverse':
                    exp = S.inverse(emb[0], n)
                else:
                    exp = S.matmul(emb[0], emb[1], n)
                got = embed(S, dst, dmi['cols'], dmi['rows'], n)
                bad = None
                for k in sorted(exp):
                    if not S.eq(got[k], exp[k]):
                        bad = 'entry (col %d,row %d) of the embedded result differs from the %s of the embedded operands' % (k[0], k[1], 'inverse' if mname == 'inverse' else 'product')
                        break
                done('R-ALG', name, bad, it)
        for n2, it2 in sorted(F.items.items()):
            rn2 = (it2.get('self_ty') or '').rsplit('::', 1)[-1]
            if it2.get('name') == 'from_rotation_axes' and not it2.get('trait') and not it2.get('generic') and rn2 in ('Quat', 'DQuat') and F.has_body(it2['key']):
                done('R-ROUNDTRIP', n2 + ' o from_quat', quat_roundtrip(F, H, M, it2, rn2), it2)
        ctx.floor('layout conversion instances (%s)' % cfg, counts.get('R-COPY', 0), 40)
        ctx.floor('matrix->quaternion instances (%s)' % cfg, counts.get('R-SHEPPERD', 0), 7)
        ctx.floor('quaternion -> matrix -> quaternion round trips (%s)' % cfg, counts.get('R-ROUNDTRIP', 0), 2)
        ctx.floor('from_quat / affine algebra instances (%s)' % cfg, counts.get('R-ALG', 0), 20)
        for k, v in sorted(counts.items()):
            ctx.count('%s:%s' % (k, cfg), v)
    ctx.extra['exhaustive'] = True
