"""Matrix / affine type model: which byte offset holds entry (column c, row r), anchored on from_cols."""
import re
import terms as tm
from common import vec_info, tydef, atom_at, cell_term
from lift import strip_ref

DIMS = {'Mat2': (2, 2), 'Mat3': (3, 3), 'Mat3A': (3, 3), 'Mat4': (4, 4), 'DMat2': (2, 2), 'DMat3': (3, 3), 'DMat4': (4, 4),
        'Affine2': (3, 2), 'Affine3A': (4, 3), 'DAffine2': (3, 2), 'DAffine3': (4, 3)}


class MatModel(object):
    def __init__(self, F, H):
        self.F = F
        self.H = H
        self.cache = {}
        self.by_name = {}

    def info(self, tyid):
        """-> dict(name, cols, rows, esz, off={(c,r): byte offset}, elem='f32'|'f64', ty=tyid) or None"""
        if tyid in self.cache:
            return self.cache[tyid]
        F = self.F
        t = F.types[tyid]
        name = tydef(F, tyid)
        res = None
        if t.get('k') == 'adt' and t.get('crate') == 'glam' and name in DIMS:
            cols, rows = DIMS[name]
            res = self._anchor(tyid, name, cols, rows)
        self.cache[tyid] = res
        if res:
            self.by_name[name] = res
        return res

    def _anchor(self, tyid, name, cols, rows):
        F, H = self.F, self.H
        tn = F.types[tyid]['n']
        key = None
        for n, it in F.items.items():
            if it.get('name') == 'from_cols' and (it.get('self_ty') or '') == tn and not it.get('trait'):
                key = it['key']
                break
        if key is None:
            return None
        r = H.run(key)
        if r.abort or r.ret is None:
            return None
        body = F.body(key)
        if body['argc'] != cols:
            return None
        off = {}
        esz = None
        for c in range(cols):
            vi = vec_info(F, body['locals'][c + 1])
            if vi is None or vi['dim'] != rows:
                return None
            esz = vi['esz']
            for rr in range(rows):
                a = atom_at(r, c, vi['lanes'][rr][0])
                hits = [o for o, (s, t_) in r.ret.cells.items() if t_ is a and s == esz]
                if len(hits) != 1:
                    return None
                off[(c, rr)] = hits[0]
        return {'name': name, 'cols': cols, 'rows': rows, 'esz': esz, 'off': off, 'elem': 'f64' if name.startswith('D') else 'f32', 'ty': tyid,
                'col_ty': body['locals'][1]}

    def entries(self, value, tyid):
        mi = self.info(tyid)
        if mi is None or isinstance(value, tm.T):
            return None
        out = {}
        for k, o in mi['off'].items():
            c = value.cells.get(o)
            if c is None or c[0] != mi['esz']:
                return None
            out[k] = c[1]
        return out

    def arg_entries(self, root, argi, tyid):
        """atoms of a symbolic matrix argument (by value or by reference)"""
        base, by_ref = strip_ref(self.F, tyid)
        mi = self.info(base)
        if mi is None:
            return None, None
        out = {}
        for k, o in mi['off'].items():
            a = atom_at(root, argi, o, by_ref)
            if a is None:
                return None, None
            out[k] = a
        return out, mi

    def vec_arg(self, root, argi, tyid):
        base, by_ref = strip_ref(self.F, tyid)
        vi = vec_info(self.F, base)
        if vi is None:
            return None
        return [atom_at(root, argi, off, by_ref) for (off, sz) in vi['lanes']]
