"""C17 - all element access paths of a vector or quaternion see the same N lanes.

R-COPY / R-LAYOUT: every construction, read and write path of every vector type and of Quat/DQuat is
pinned to one lane<->byte-offset map: constructors place argument i in lane i; readers (fields through
Deref, Index, to_array, From into arrays / tuples, write_to_slice, AsRef, Debug/Display) deliver lane i from byte offset i*size;
from_array and From<[T; N]> / From<(T, ..)> place element i in lane i; map(f) calls f once per lane in order (R-MAP);
writers (DerefMut, IndexMut, AsMut, with_x..w) expose / change exactly lane i (frame condition)."""
import re
import terms as tm
from terms import const
from lift import ArgView, value_lanes, strip_ref
from common import api_roots, vec_info, tydef, atom_at, cell_term, leaves_plain, hidden_offsets, TRUSTED_COMMON
from runner import norm_def_path

LEVEL = 'proof'
TECHNIQUE = 'provenance (bit-copy) and pointer-offset analysis over rustc MIR with per-index partial evaluation; layout facts from rustc'
EXPLANATION = ('Every constructor / reader / writer of the 40 vector types and the two quaternion types is interpreted on symbolic lanes '
               '(index arguments are specialised to each constant).  All paths must agree on the byte offset of lane i, move values as '
               'bare atoms (bit-for-bit), and writers must leave every other lane untouched; because every operation is pinned to the same '
               'offset map, any sequence of writes and reads is consistent.')

CONFIGS_QUICK = ['sse2', 'sse2-fma', 'sse41', 'scalar', 'coresimd', 'neon', 'wasm32']
CONFIGS_THOROUGH = ['sse2', 'sse2-fma', 'sse41', 'scalar', 'coresimd', 'neon', 'wasm32']
FLOOR_TYPES = 36
LETTERS = 'xyzw'


def self_vec(F, it, body):
    """vec_info of the type this item belongs to (self type of the impl, or return type for free ctors)"""
    st = (it.get('self_ty') or '').lstrip('&')
    for i in range(body['argc']):
        b, _ = strip_ref(F, body['locals'][i + 1])
        if F.types[b]['n'] == st.replace('mut ', ''):
            return vec_info(F, b), b
    vr = vec_info(F, body['locals'][0])
    if vr is not None and (not st or F.types[body['locals'][0]]['n'] == st):
        return vr, body['locals'][0]
    return None, None


def run(ctx):
    configs = ctx.need(CONFIGS_QUICK if ctx.tier == 'quick' else CONFIGS_THOROUGH)
    ctx.trusted = TRUSTED_COMMON
    for cfg in configs:
        F = ctx.facts(cfg)
        H = ctx.harness(cfg)
        types = set()
        counts = {}

        def done(rule, name, bad, it):
            counts[rule] = counts.get(rule, 0) + 1
            if bad:
                ctx.violation(rule, cfg, name, {'file': it['file'], 'line': it['line'], 'problem': bad})
            else:
                ctx.holds(rule, cfg, name)

        for name, it in api_roots(F):
            mname = it.get('name') or ''
            tr = (it.get('trait') or '').rsplit('::', 1)[-1]
            body = F.body(it['key'])
            if body is None:
                continue
            vi, vty = self_vec(F, it, body)
            if vi is None or vi['name'].startswith('BVec'):
                continue
            types.add(vi['name'])
            N, esz = vi['dim'], vi['esz']
            argtys = body['locals'][1:1 + body['argc']]
            rty = body['locals'][0]
            # ---------------- constructors
            if not tr and mname in ('new', 'from_xyzw') or (not it.get('self_ty') and mname == vi['name'].lower() and body['argc'] == N):
                if body['argc'] != N or vec_info(F, rty) is None:
                    continue
                r = H.run(it['key'])
                bad = r.abort
                if not bad:
                    for i in range(N):
                        if cell_term(r.ret, vi['lanes'][i][0], esz) is not atom_at(r, i, 0):
                            bad = 'lane %d is not argument %d' % (i, i)
                            break
                done('R-CTOR', name, bad, it)
            elif not tr and mname == 'splat':
                r = H.run(it['key'])
                bad = r.abort
                if not bad:
                    a = atom_at(r, 0, 0)
                    for i in range(N):
                        if cell_term(r.ret, vi['lanes'][i][0], esz) is not a:
                            bad = 'lane %d is not the splat argument' % i
                done('R-CTOR', name, bad, it)
            elif (not tr and mname in ('from_array', 'to_array')) or (tr == 'From' and body['argc'] == 1 and mname == 'from'):
                # arrays and tuples: element i <-> lane i, moved bit for bit (From<[T; N]>, From<(T, ..)>, and the reverse directions)
                aty0 = strip_ref(F, argtys[0])[0]
                src_v, dst_v = vec_info(F, aty0), vec_info(F, rty)
                other = rty if src_v is not None and dst_v is None else (aty0 if dst_v is not None and src_v is None else None)
                if other is None:
                    continue              # vector <-> vector conversions are C14's
                ot = F.types[other]
                hid_o = set(hidden_offsets(F, other))
                ol = [(o, sz_) for (o, sz_, lt) in leaves_plain(F, other) if o not in hid_o]
                if ot.get('k') not in ('array', 'tuple') or len(ol) != N or any(sz_ != esz for (o, sz_) in ol):
                    continue              # not the N-element array / tuple of the element type (e.g. From<BVec>, From<(Vec2, f32)>): C14 / C15
                r = H.run(it['key'])
                bad = r.abort
                if not bad:
                    for i in range(N):
                        if src_v is not None:
                            got, exp = cell_term(r.ret, ol[i][0], esz), ArgView(F, r, 0, argtys[0]).lanes[i]
                        else:
                            got, exp = cell_term(r.ret, vi['lanes'][i][0], esz), atom_at(r, 0, ol[i][0])
                        if got is None or got is not exp:
                            bad = 'element %d is %s, expected element / lane %d unchanged' % (i, tm.show(got, 0, 3)[:100] if got is not None else None, i)
                            break
                done('R-READ' if src_v is not None else 'R-CTOR', name, bad, it)
            elif not tr and mname == 'from_slice':
                r = H.run(it['key'])
                bad = r.abort
                if not bad:
                    for i in range(N):
                        got = cell_term(r.ret, vi['lanes'][i][0], esz)
                        if got is None or got.op != 'atom' or got.args[0] != 'a0[%d]@0' % i:
                            bad = 'lane %d is %s, expected slice[%d]' % (i, tm.show(got) if got is not None else None, i)
                            break
                done('R-CTOR', name, bad, it)
            elif not tr and mname == 'write_to_slice':
                r = H.run(it['key'])
                bad = r.abort
                if not bad:
                    obj = [r.heap.get(oid) for (argi, base, oid, pty, mut, ln) in r.arg_objs if argi == 1]
                    obj = obj[0] if obj else None
                    if obj is None:
                        bad = 'slice object not found'
                    else:
                        for i in range(N):
                            c = obj.cells.get(i * esz)
                            if c is None or c[1] is not atom_at(r, 0, vi['lanes'][i][0]):
                                bad = 'slice[%d] is not lane %d' % (i, i)
                                break
                        extra = [o for o in obj.cells if o >= N * esz]
                        if not bad and extra:
                            bad = 'writes beyond the first %d elements (offsets %s)' % (N, extra)
                done('R-READ', name, bad, it)
            # ---------------- indexing (per constant index)
            elif tr in ('Index', 'IndexMut') and body['argc'] == 2:
                bad = None
                for i in range(N + 1):
                    r = H.run(it['key'], overrides={(1, 0): const(i, F.ptr_size)})
                    if r.abort:
                        bad = r.abort
                        break
                    if i == N:
                        if not r.diverged and not any(p.cond is tm.TRUE for p in r.panics):
                            bad = 'index %d does not panic' % N
                        break
                    tg = r.interp.ptr_targets(r.ret) if isinstance(r.ret, tm.T) else []
                    selfobj = [oid for (argi, base, oid, pty, mut, ln) in r.arg_objs if argi == 0]
                    if len(tg) != 1 or not selfobj or tg[0] != (selfobj[0], vi['lanes'][i][0]):
                        bad = 'index %d refers to %s, expected byte offset %d of self' % (i, tg, vi['lanes'][i][0])
                        break
                    if r.panics:
                        bad = 'index %d may panic' % i
                        break
                done('R-INDEX', name, bad, it)
            # ---------------- whole-object views
            elif tr in ('AsRef', 'AsMut', 'Deref', 'DerefMut') and body['argc'] == 1:
                r = H.run(it['key'])
                bad = r.abort
                if not bad:
                    tg = r.interp.ptr_targets(r.ret) if isinstance(r.ret, tm.T) else []
                    selfobj = [oid for (argi, base, oid, pty, mut, ln) in r.arg_objs if argi == 0]
                    pt = F.types[F.types[rty]['to']]
                    if len(tg) != 1 or not selfobj or tg[0] != (selfobj[0], 0):
                        bad = 'view does not start at byte 0 of self: %s' % (tg,)
                    else:
                        lv = [(o, s) for (o, s, lt) in leaves_plain(F, F.types[rty]['to'])]
                        if lv != [(i * esz, esz) for i in range(N)]:
                            bad = 'view type %s has element layout %s, expected %d lanes of %d bytes' % (pt['n'], lv[:6], N, esz)
                        elif pt['sz'] > F.types[vty]['sz'] or (pt['al'] or 1) > (F.types[vty]['al'] or 1):
                            bad = 'view type larger / more aligned than the vector'
                        elif tr in ('Deref', 'DerefMut'):
                            names = [n for (o, fid, n) in pt.get('fields', [])]
                            if names != list(LETTERS[:N]):
                                bad = 'field names of the overlay are %s' % names
                            elif not pt.get('repr', {}).get('c'):
                                bad = 'overlay struct is not repr(C)'
                done('R-VIEW', name, bad, it)
            # ---------------- with_x .. with_w
            elif not tr and re.match(r'^with_[xyzw]$', mname) and body['argc'] == 2:
                k = LETTERS.index(mname[-1])
                r = H.run(it['key'])
                bad = r.abort
                if not bad:
                    for i in range(N):
                        exp = atom_at(r, 1, 0) if i == k else atom_at(r, 0, vi['lanes'][i][0])
                        if cell_term(r.ret, vi['lanes'][i][0], esz) is not exp:
                            bad = 'lane %d of the result is wrong (only lane %d may change)' % (i, k)
                            break
                done('R-WRITE', name, bad, it)
            # ---------------- formatting
            elif tr in ('Display', 'Debug') and mname == 'fmt':
                r = H.run(it['key'])
                bad = r.abort
                if not bad:
                    groups = {}
                    for (d, descs, pc, fn) in r.effects:
                        if not (d.endswith('::new_display') or d.endswith('::new_debug') or d.endswith('::field')):
                            continue
                        for de in descs:
                            if de[0] == 'ref' and de[2] and len(de[2]) == 1 and re.match(r'^a0\*@\d+$', str(de[2][0][1])):
                                groups.setdefault(pc, []).append(int(str(de[2][0][1])[4:]))
                    exp = [vi['lanes'][i][0] for i in range(N)]
                    if not groups:
                        bad = 'no formatted lane arguments found'
                    for pc, seq in groups.items():
                        if seq != exp:
                            bad = 'formats byte offsets %s, expected lanes in order %s' % (seq, exp)
                done('R-FMT', name, bad, it)
        nconst = check_constants(ctx, cfg, F, H)
        check_map(ctx, cfg, F, H)
        ctx.floor('named constants checked (%s)' % cfg, nconst, 330)
        ctx.floor('vector/quaternion types with access paths (%s)' % cfg, len(types), FLOOR_TYPES)
        for k, v in sorted(counts.items()):
            ctx.count('%s:%s' % (k, cfg), v)
        ctx.floor('access-path instances (%s)' % cfg, sum(counts.values()), 480)
    ctx.extra['exhaustive'] = True


import struct


def _bits(elem, v):
    if elem == 'f32':
        return struct.unpack('<I', struct.pack('<f', v))[0], 4
    if elem == 'f64':
        return struct.unpack('<Q', struct.pack('<d', v))[0], 8
    n = int(elem[1:])
    return int(v) & ((1 << n) - 1), n // 8


def _expected(name, elem, N):
    """lane values of a named constant, or None when the name is not a lane constant"""
    isf = elem[0] == 'f'
    one, zero = 1, 0
    ax = {'X': 0, 'Y': 1, 'Z': 2, 'W': 3}
    if name == 'ZERO':
        return [zero] * N
    if name == 'ONE':
        return [one] * N
    if name == 'NEG_ONE' and elem[0] != 'u':
        return [-1] * N
    if name in ax and ax[name] < N:
        return [1 if i == ax[name] else 0 for i in range(N)]
    if name.startswith('NEG_') and name[4:] in ax and ax[name[4:]] < N and elem[0] != 'u':
        return [-1 if i == ax[name[4:]] else 0 for i in range(N)]
    if name == 'MIN':
        if isf:
            m = -3.4028234663852886e38 if elem == 'f32' else -1.7976931348623157e308
        elif elem[0] == 'i':
            m = -(1 << (int(elem[1:]) - 1))
        else:
            m = 0
        return [m] * N
    if name == 'MAX':
        if isf:
            m = 3.4028234663852886e38 if elem == 'f32' else 1.7976931348623157e308
        elif elem[0] == 'i':
            m = (1 << (int(elem[1:]) - 1)) - 1
        else:
            m = (1 << int(elem[1:])) - 1
        return [m] * N
    if isf and name == 'INFINITY':
        return [float('inf')] * N
    if isf and name == 'NEG_INFINITY':
        return [float('-inf')] * N
    if isf and name == 'NAN':
        return ['nan'] * N
    return None


def check_map(ctx, cfg, F, H):
    """R-MAP: map(f) on every vector type (generic over the closure) calls f once per lane, in lane order, with exactly that lane, and places the
    k-th result in lane k"""
    n = 0
    for name, it in sorted(F.items.items()):
        if not it.get('generic') or it.get('trait') or it.get('name') != 'map':
            continue
        st = (it.get('self_ty') or '').lstrip('&')
        body = F.body(it['key'])
        if body is None:
            continue
        base, by_ref = strip_ref(F, body['locals'][1])
        vi = vec_info(F, base)
        if vi is None or vi['name'].startswith('BVec'):
            continue
        r = H.run(it['key'])
        n += 1
        bad = r.abort
        if not bad:
            av = ArgView(F, r, 0, body['locals'][1])
            lanes = value_lanes(F, r.ret, body['locals'][0]) if r.ret is not None else None
            calls = [(d, deps) for (d, deps, caller, line) in r.opaque if d.rsplit('::', 1)[-1] in ('call', 'call_mut', 'call_once')]
            if lanes is None or av.lanes is None or len(calls) != vi['dim'] or len(lanes) != vi['dim']:
                bad = 'map does not call the closure once per lane (%d calls for %d lanes)' % (len(calls), vi['dim'])
            else:
                self_atoms = set(av.lanes)
                tops = []
                for k in range(vi['dim']):
                    dk = set(x for x in calls[k][1] if x in self_atoms)
                    if dk != {av.lanes[k]}:
                        bad = 'call %d of the closure receives %s, expected lane %d' % (k, sorted(tm.show(x) for x in dk), k)
                        break
                    tops.append(lanes[k])
                if not bad:
                    ids = [t.args[0] if t.op == 'top' and t.args else None for t in tops]
                    if any(t.op != 'top' for t in tops) or len(set(t.id for t in tops)) != vi['dim']:
                        bad = 'the results of the closure calls are not placed one per lane'
                    else:
                        # the k-th created result (creation order = call order) sits in lane k
                        order = sorted(range(vi['dim']), key=lambda j: tops[j].id)
                        if order != list(range(vi['dim'])):
                            bad = 'the result of call %d is not placed in lane %d' % (order.index(0) if 0 in order else 0, 0)
        if bad:
            ctx.violation('R-MAP', cfg, name, {'file': it['file'], 'line': it['line'], 'problem': bad})
        else:
            ctx.holds('R-MAP', cfg, name)
    ctx.floor('map implementations (%s)' % cfg, n, 34)


def check_constants(ctx, cfg, F, H):
    I = H.new_interp()
    n = 0
    for path, k in F.konsts.items():
        tn = k['self_ty']
        tyid = None
        for i, t in F.types.items():
            if t['n'] == tn:
                tyid = i
                break
        if tyid is None:
            continue
        vi = vec_info(F, tyid)
        if vi is None or vi['name'].startswith('BVec'):
            continue
        name = k['name']
        N, elem = vi['dim'], vi['elem']
        quat = vi['name'] in ('Quat', 'DQuat')
        if quat and name == 'IDENTITY':
            exp = [0, 0, 0, 1]
        elif quat and name in ('ZERO', 'NAN'):
            exp = _expected(name, elem, N)
        elif quat:
            continue
        else:
            exp = _expected(name, elem, N)
        if name == 'AXES':
            try:
                val = I.eval_const(k['v'])
            except Exception as e:
                ctx.unverifiable('R-CONST', cfg, path, 'constant not decodable: %r' % (e,))
                continue
            sz = F.types[tyid]['sz']
            bad = None
            for a in range(N):
                for i, (off, s) in enumerate(vi['lanes']):
                    c = val.cells.get(a * sz + off)
                    b, _ = _bits(elem, 1 if i == a else 0)
                    if c is None or not tm.is_const(c[1]) or tm.cbits(c[1]) != b:
                        bad = 'AXES[%d] lane %d is not %d' % (a, i, 1 if i == a else 0)
            n += 1
            if bad:
                ctx.violation('R-CONST', cfg, path, {'problem': bad})
            else:
                ctx.holds('R-CONST', cfg, path)
            continue
        if exp is None:
            continue
        try:
            val = I.eval_const(k['v'])
        except Exception as e:
            ctx.unverifiable('R-CONST', cfg, path, 'constant not decodable: %r' % (e,))
            continue
        bad = None
        for i, (off, s) in enumerate(vi['lanes']):
            c = cell_term(val, off, s)
            if c is None or not tm.is_const(c):
                bad = 'lane %d is not a constant' % i
                break
            if exp[i] == 'nan':
                f = tm.f_of(c)
                if f == f:
                    bad = 'lane %d of NAN is not a NaN' % i
                    break
            else:
                b, _ = _bits(elem, float(exp[i]) if elem[0] == 'f' else exp[i])
                if tm.cbits(c) != b:
                    bad = 'lane %d of %s has bits 0x%x, expected %s' % (i, name, tm.cbits(c), exp[i])
                    break
        n += 1
        if bad:
            ctx.violation('R-CONST', cfg, path, {'problem': bad})
        else:
            ctx.holds('R-CONST', cfg, path)
    return n
