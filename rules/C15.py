"""C15 - comparison masks, select and the mask algebra behave as lane-wise booleans.

R-LIFT: cmp* mask lane i = predicate(self[i], rhs[i]); select lane i = ite(mask[i], a[i], b[i]) (bit-exact).
Mask types (BVec2/3/4, BVec3A/4A in every backend): & | ^ ! are the lane-wise connectives; any/all/bitmask/
test/set/==/conversions/fmt are functions of exactly the N boolean lanes; R-WHO: every function returning a
SIMD mask returns canonical lanes (all-ones or zero), and no public conversion injects a raw register.  TRUE / FALSE constants, Hash (a function
of the lanes only) and the text Debug / Display print around the lanes (BVecNA equals BVecN up to the type name) are compared as well."""
import re
import terms as tm
from terms import const, ite, mk
from lift import ArgView, value_lanes, result_of, check_uniform, strip_ref
from common import api_roots, vec_info, tydef, atom_at, cell_term, leaves_plain, hidden_offsets, TRUSTED_COMMON
from runner import norm_def_path

LEVEL = 'proof'
TECHNIQUE = 'boolean lane normal forms + bit-level (Bits) reasoning + who-may-construct analysis over rustc MIR; exhaustive over impls and constant indices'
EXPLANATION = ('Every comparison, select and mask operation is interpreted on symbolic lanes with each mask lane abstracted to one boolean; '
               'the resulting boolean terms must be exactly the lane-wise connective / predicate / N-lane reduction.  Because BVec3A/BVec4A and '
               'BVec3/BVec4 are checked against the same boolean specification they are observationally identical.  All functions returning a '
               'SIMD mask are shown to return canonical lanes, which discharges the abstraction.')

CONFIGS_QUICK = ['sse2', 'sse2-fma', 'sse41', 'scalar', 'coresimd', 'neon', 'wasm32']
CONFIGS_THOROUGH = ['sse2', 'sse2-fma', 'sse41', 'scalar', 'coresimd', 'neon', 'wasm32']
CMP = {'cmpeq': 'eq', 'cmpne': 'ne', 'cmplt': 'lt', 'cmple': 'le', 'cmpgt': 'gt', 'cmpge': 'ge'}
BOOLOPS = {'bitand': tm.b_and, 'bitor': tm.b_or, 'bitxor': tm.b_xor, 'bitand_assign': tm.b_and, 'bitor_assign': tm.b_or, 'bitxor_assign': tm.b_xor}


def is_mask_name(n):
    return bool(n) and re.match(r'^BVec[234]A?$', n) is not None


def normalise_template(hexbytes, type_name):
    """format_args template bytes with the type's own name cut out of the literal piece that carries it (the piece's length byte adjusted),
    so that BVec3 and BVec3A templates are comparable"""
    b = bytes.fromhex(hexbytes)
    nm = type_name.encode()
    i = b.find(nm)
    while i > 0:
        # the literal piece starts after a length byte (< 0x80) somewhere before the name
        j = i - 1
        while j >= 0 and not (0 < b[j] < 0x80 and j + b[j] >= i + len(nm) - 1):
            j -= 1
        if j < 0:
            break
        b = b[:j] + bytes([b[j] - len(nm)]) + b[j + 1:i] + b'<T>' + b[i + len(nm):]
        i = b.find(nm, i + 3)
    return b.hex()


def mask_view(F, r, argi, tyid):
    base, by_ref = strip_ref(F, tyid)
    vi = vec_info(F, base)
    if vi is None or not is_mask_name(vi['name']):
        return None
    return [atom_at(r, argi, off, by_ref) for (off, sz) in vi['lanes']], vi


def pred(op, elem, x, y):
    if elem[0] == 'f':
        return tm.f2('f' + op, x, y)
    return tm.iop(op, elem, x, y)


def run(ctx):
    configs = ctx.need(CONFIGS_QUICK if ctx.tier == 'quick' else CONFIGS_THOROUGH)
    ctx.trusted = TRUSTED_COMMON
    for cfg in configs:
        F = ctx.facts(cfg)
        H = ctx.harness(cfg)
        counts = {}
        cmp_types = set()
        mask_types = set()
        fmt_templates = {}

        def done(rule, name, bad, it):
            counts[rule] = counts.get(rule, 0) + 1
            if bad:
                ctx.violation(rule, cfg, name, {'file': it['file'], 'line': it['line'], 'problem': bad})
            else:
                ctx.holds(rule, cfg, name)

        # ---- R-WHO: functions returning a SIMD-backed mask return canonical lanes (all items, not only public)
        for name, it in F.items.items():
            if it['generic']:
                continue
            body = F.body(it['key'])
            if body is None:
                continue
            rty = body['locals'][0]
            vi = vec_info(F, rty)
            if vi is None or not is_mask_name(vi['name']) or vi['esz'] != 4:
                continue
            r = H.run(it['key'])
            bad = r.abort
            if not bad and r.ret is not None:
                for i, (off, sz) in enumerate(vi['lanes']):
                    c = cell_term(r.ret, off, sz)
                    if c is None or tm.mask_bool(c) is None:
                        bad = 'lane %d of the returned mask is not canonical (all-ones / zero): %s' % (i, tm.show(c, 0, 4)[:200] if c is not None else None)
                        break
            done('R-WHO', name, bad, it)
        # no public way to build a mask from a raw register
        raw = [m for m in F.impls if m['trait'].endswith('convert::From') and is_mask_name(m['self'].rsplit('::', 1)[-1]) and
               re.search(r'm128|Simd<|x4_t|v128|mask32x4|Mask<', m['trait_ref'].split(' as ')[-1])]
        if raw:
            ctx.violation('R-WHO', cfg, 'impl From<raw register> for mask', {'problem': 'a public conversion can inject a non-canonical mask', 'impls': [m['trait_ref'] for m in raw]})
        else:
            ctx.holds('R-WHO', cfg, 'no From<raw register> for mask types')

        for name, it in api_roots(F):
            mname = it.get('name') or ''
            tr = (it.get('trait') or '').rsplit('::', 1)[-1]
            body = F.body(it['key'])
            if body is None:
                continue
            argtys = body['locals'][1:1 + body['argc']]
            rty = body['locals'][0]
            st = (it.get('self_ty') or '').lstrip('&')
            stn = st.rsplit('::', 1)[-1]
            # ---- comparisons and select on numeric vector types
            if not tr and mname in CMP and body['argc'] == 2:
                r = H.run(it['key'])
                views = [ArgView(F, r, i, argtys[i]) for i in range(2)]
                bad = r.abort
                if not bad:
                    lanes = value_lanes(F, r.ret, rty)
                    if lanes is None or views[0].kind != 'vec' or len(lanes) != views[0].dim:
                        bad = 'result is not a mask with one lane per element'
                    else:
                        cmp_types.add(views[0].vi['name'])
                        for i in range(views[0].dim):
                            exp = pred(CMP[mname], views[0].elem, views[0].lanes[i], views[1].lanes[i])
                            if lanes[i] is not exp:
                                bad = 'mask lane %d is %s, expected %s' % (i, tm.show(lanes[i], 0, 4)[:160], tm.show(exp, 0, 4))
                                break
                done('R-CMP', name, bad, it)
                continue
            if not tr and mname == 'select' and body['argc'] == 3:
                r = H.run(it['key'])
                bad = r.abort
                if not bad:
                    mv = mask_view(F, r, 0, argtys[0])
                    va, vb = ArgView(F, r, 1, argtys[1]), ArgView(F, r, 2, argtys[2])
                    rv = vec_info(F, rty)
                    if mv is None or rv is None or va.kind != 'vec':
                        bad = 'select signature'
                    else:
                        for i in range(va.dim):
                            exp = ite(mv[0][i], va.lanes[i], vb.lanes[i])
                            got = cell_term(r.ret, rv['lanes'][i][0], rv['esz'])
                            if got is not exp:
                                bad = 'lane %d is %s, expected %s' % (i, tm.show(got, 0, 4)[:160] if got is not None else None, tm.show(exp, 0, 4))
                                break
                done('R-SELECT', name, bad, it)
                continue
            # ---- mask types
            if not is_mask_name(stn) and not (is_mask_name(tydef(F, rty) or '') and not st):
                # From<mask> for [bool;N] / [u32;N] have the array as self type
                if not (tr == 'From' and body['argc'] == 1 and is_mask_name(tydef(F, strip_ref(F, argtys[0])[0]) or '') and F.types[rty].get('k') == 'array'):
                    continue
            if tr in ('Clone', 'Eq', 'Hash', 'Default') and mname != 'default':
                continue
            r = H.run(it['key'])
            if r.abort:
                done('R-MASK', name, 'not analysable: ' + r.abort, it)
                continue
            mv0 = mask_view(F, r, 0, argtys[0]) if body['argc'] >= 1 else None
            mvr = vec_info(F, rty) if is_mask_name(tydef(F, rty) or '') else None
            if mv0 is not None:
                mask_types.add(mv0[1]['name'])
            N = mv0[1]['dim'] if mv0 else (mvr['dim'] if mvr else 0)
            bad = None
            if mname in BOOLOPS and body['argc'] == 2:
                mv1 = mask_view(F, r, 1, argtys[1])
                kind, oty, val = result_of(F, r, body)
                lanes = value_lanes(F, val, oty) if val is not None else None
                if mv1 is None or lanes is None:
                    bad = 'operands/result are not masks'
                else:
                    for i in range(N):
                        exp = BOOLOPS[mname](mv0[0][i], mv1[0][i])
                        if lanes[i] is not exp:
                            bad = 'lane %d is %s, expected %s' % (i, tm.show(lanes[i], 0, 4)[:160], tm.show(exp, 0, 4))
                            break
            elif mname == 'not' and tr == 'Not':
                lanes = value_lanes(F, r.ret, rty)
                for i in range(N):
                    if lanes is None or lanes[i] is not tm.b_not(mv0[0][i]):
                        bad = 'lane %d is not the negation' % i
                        break
            elif mname in ('any', 'all') and not tr:
                exp = (tm.b_or if mname == 'any' else tm.b_and)(*mv0[0])
                if r.ret is not exp:
                    bad = '%s() is %s, expected %s over exactly %d lanes' % (mname, tm.show(r.ret, 0, 4)[:200], tm.show(exp, 0, 4), N)
            elif mname == 'bitmask' and not tr:
                nb = 8 * F.types[rty]['sz']
                exp = tm.mk_bits(list(mv0[0]) + [tm.FALSE] * (nb - N))
                if r.ret is not exp:
                    bad = 'bitmask is %s, expected bit i = lane i for i < %d and zero above' % (tm.show(r.ret, 0, 3)[:200], N)
            elif mname == 'test' and not tr:
                for i in range(N + 1):
                    rr = H.run(it['key'], overrides={(1, 0): const(i, F.ptr_size)})
                    if rr.abort:
                        bad = rr.abort
                        break
                    if i == N:
                        if not rr.diverged and not any(p.cond is tm.TRUE for p in rr.panics):
                            bad = 'test(%d) does not panic' % N
                        break
                    m = mask_view(F, rr, 0, argtys[0])
                    if rr.ret is not m[0][i] or rr.panics:
                        bad = 'test(%d) is %s, expected lane %d' % (i, tm.show(rr.ret, 0, 4)[:160] if rr.ret is not None else None, i)
                        break
            elif mname == 'set' and not tr:
                for i in range(N + 1):
                    rr = H.run(it['key'], overrides={(1, 0): const(i, F.ptr_size)})
                    if rr.abort:
                        bad = rr.abort
                        break
                    if i == N:
                        if not rr.diverged and not any(p.cond is tm.TRUE for p in rr.panics):
                            bad = 'set(%d, _) does not panic' % N
                        break
                    m = mask_view(F, rr, 0, argtys[0])
                    kind, oty, val = result_of(F, rr, body)
                    lanes = value_lanes(F, val, oty) if val is not None else None
                    v = atom_at(rr, 2, 0)
                    for j in range(N):
                        exp = v if j == i else m[0][j]
                        if lanes is None or lanes[j] is not exp:
                            bad = 'set(%d, v): lane %d is %s' % (i, j, tm.show(lanes[j], 0, 4)[:160] if lanes else None)
                            break
                    if bad or rr.panics:
                        bad = bad or 'set(%d, v) may panic' % i
                        break
            elif tr == 'PartialEq' and mname == 'eq':
                mv1 = mask_view(F, r, 1, argtys[1])
                exp = tm.b_and(*[tm.b_not(tm.b_xor(a, b)) for a, b in zip(mv0[0], mv1[0])])
                if r.ret is not exp:
                    bad = '== is %s, expected lane-wise equality of exactly %d lanes' % (tm.show(r.ret, 0, 4)[:200], N)
            elif mname in ('new',) or (not st and mvr is not None and body['argc'] == mvr['dim']):
                lanes = value_lanes(F, r.ret, rty)
                for i in range(mvr['dim']):
                    if lanes is None or lanes[i] is not atom_at(r, i, 0):
                        bad = 'lane %d is not argument %d' % (i, i)
                        break
            elif mname == 'splat':
                lanes = value_lanes(F, r.ret, rty)
                if lanes is None or any(l is not atom_at(r, 0, 0) for l in lanes):
                    bad = 'splat lanes'
            elif mname in ('from_array',) or (tr == 'From' and mvr is not None and F.types[argtys[0]].get('k') == 'array'):
                lanes = value_lanes(F, r.ret, rty)
                for i in range(mvr['dim']):
                    if lanes is None or lanes[i] is not atom_at(r, 0, i):
                        bad = 'lane %d is not array element %d' % (i, i)
                        break
            elif tr == 'From' and F.types[rty].get('k') == 'array' and mv0 is not None:
                at = F.types[rty]
                esz = at['stride']
                for i in range(N):
                    got = cell_term(r.ret, i * esz, esz)
                    exp = mv0[0][i] if esz == 1 else tm.mask(mv0[0][i], esz)
                    if got is not exp:
                        bad = 'array element %d is %s, expected lane %d (%s)' % (i, tm.show(got, 0, 4)[:160] if got is not None else None, i, 'bool' if esz == 1 else 'all-ones/zero')
                        break
                if at['count'] != N:
                    bad = 'array length %d for %d lanes' % (at['count'], N)
            elif tr in ('Display', 'Debug') and mname == 'fmt':
                groups = {}
                bad_ty = None
                for (d, descs, pc, fn) in r.effects:
                    if not (d.endswith('::new_display') or d.endswith('::new_debug') or d.endswith('::field') or d.endswith('::new_lower_hex')):
                        continue
                    for de in descs:
                        if de[0] == 'ref' and de[2] and len(de[2]) == 1:
                            m = re.findall(r'a0\*@(\d+)', str(de[2][0][1]))
                            if m:
                                groups.setdefault(pc, []).append([int(x) for x in m])
                                if tr == 'Display' and str(de[1]) != 'bool':
                                    bad_ty = str(de[1])
                # the literal text around the lanes: recorded per type and compared between BVecN and BVecNA below
                tn_ = (it.get('self_ty') or '').rsplit('::', 1)[-1]
                for (d, descs, pc, fn) in r.effects:
                    if d.endswith('Arguments::<\'a>::new') or d.endswith('Arguments::new') or d.endswith('::new_const'):
                        for de in descs:
                            if de[0] == 'constref' and len(de) > 3 and de[3]:
                                fmt_templates.setdefault((tr, tn_), []).append((normalise_template(de[3], tn_), name, it))
                exp = [[mv0[1]['lanes'][i][0]] for i in range(N)]
                if not groups:
                    bad = 'no formatted lane arguments found'
                if bad_ty:
                    bad = 'Display formats the lanes as %s, not as the booleans they denote (BVecN prints true / false)' % bad_ty
                for pc, seq in groups.items():
                    if seq != exp:
                        bad = 'formats lanes at byte offsets %s, expected exactly %s in order' % (seq, exp)
            elif mname == 'default' and mvr is not None:
                lanes = value_lanes(F, r.ret, rty)
                if lanes is None or any(l is not tm.FALSE for l in lanes):
                    bad = 'default is not all-false'
            elif tr == 'From' and mv0 is not None and not is_mask_name(tydef(F, rty) or '') and vec_info(F, rty) is not None:
                continue    # mask -> numeric vector: C14
            elif tr == 'From' and mv0 is not None:
                continue    # raw register conversion (exempt, see C08)
            else:
                ctx.count('mask_fns_not_classified:' + cfg)
                continue
            done('R-MASK', name, bad, it)
        ctx.floor('numeric vector types with comparisons (%s)' % cfg, len(cmp_types), 34)
        # associated constants TRUE / FALSE of the mask types
        Ic = H.new_interp()
        n_const = 0
        for path, k in sorted(F.konsts.items()):
            if k['name'] not in ('TRUE', 'FALSE'):
                continue
            tyid = None
            for i_, t_ in F.types.items():
                if t_['n'] == k['self_ty']:
                    tyid = i_
                    break
            vi = vec_info(F, tyid) if tyid is not None else None
            if vi is None or not is_mask_name(vi['name']):
                continue
            n_const += 1
            try:
                val = Ic.eval_const(k['v'])
                lanes = value_lanes(F, val, tyid)
            except Exception as e_:
                lanes = None
            want = tm.TRUE if k['name'] == 'TRUE' else tm.FALSE
            if lanes is None or any(l is not want for l in lanes):
                ctx.violation('R-MASK', cfg, path, {'problem': '%s is not all-%s: %s' % (k['name'], k['name'].lower(), [tm.show(l) for l in (lanes or [])])})
            else:
                ctx.holds('R-MASK', cfg, path)
        ctx.floor('mask constants (%s)' % cfg, n_const, 10)
        # Hash (generic over the hasher): what is fed to the hasher depends on every one of the N lanes and on nothing else
        n_hash = 0
        for name, it in sorted(F.items.items()):
            if not it.get('generic') or not (it.get('trait') or '').endswith('Hash') or it.get('name') != 'hash':
                continue
            st_ = (it.get('self_ty') or '').lstrip('&')
            if not is_mask_name(st_.rsplit('::', 1)[-1]):
                continue
            r = H.run(it['key'])
            n_hash += 1
            bad = r.abort
            if not bad:
                body = F.body(it['key'])
                base, by_ref = strip_ref(F, body['locals'][1])
                vi = vec_info(F, base)
                lanes_atoms = set()
                hidden_ = set(hidden_offsets(F, base))
                for a, ia in r.atoms.items():
                    if ia.arg == 0 and ia.off in [o for (o, sz_) in vi['lanes']] and ia.off not in hidden_:
                        lanes_atoms.add(a)
                fed = set()
                for (d, deps, caller, line) in r.opaque:
                    fed |= set(x for x in deps if x.op == 'atom')
                self_atoms = set(a for a, ia in r.atoms.items() if ia.arg == 0)
                missing = lanes_atoms - fed
                extra = (fed & self_atoms) - lanes_atoms
                if len(lanes_atoms) != vi['dim']:
                    bad = 'lanes of the mask not found'
                elif missing:
                    bad = 'the hash ignores lane(s) at byte offset %s: values that compare unequal there always collide' % sorted(r.atoms[a].off for a in missing)
                elif extra:
                    bad = 'the hash depends on bytes that are not lanes of the mask (offset %s): equal masks can hash differently' % sorted(r.atoms[a].off for a in extra)
            done('R-MASK', name, bad, it)
        n_tpl = 0
        for (tr_, tn_), lst in sorted(fmt_templates.items()):
            if not tn_.endswith('A'):
                continue
            ref = fmt_templates.get((tr_, tn_[:-1]))
            for (tpl, name_, it_) in lst:
                n_tpl += 1
                inst = '%s (text around the lanes)' % name_
                if not ref:
                    ctx.unverifiable('R-MASK', cfg, inst, 'no %s implementation of %s found to compare with' % (tr_, tn_[:-1]))
                elif all(tpl != t0 for (t0, _n, _i) in ref):
                    ctx.violation('R-MASK', cfg, inst, {'file': it_['file'], 'line': it_['line'],
                                  'problem': '%s prints different text around the lanes than %s (they must agree up to the type name)' % (tn_, tn_[:-1]),
                                  'this': tpl, 'other': ref[0][0]})
                else:
                    ctx.holds('R-MASK', cfg, inst)
        ctx.floor('mask format templates compared (%s)' % cfg, n_tpl, 4)
        ctx.floor('mask Hash impls (%s)' % cfg, n_hash, 5)
        ctx.floor('mask types analysed (%s)' % cfg, len(mask_types), 5)
        for k, v in sorted(counts.items()):
            ctx.count('%s:%s' % (k, cfg), v)
        ctx.floor('mask / comparison instances (%s)' % cfg, sum(counts.values()), 380)
    if ctx.tier == 'thorough':
        from runner import run_witness
        run_witness(ctx, ['C15'])
    ctx.extra['exhaustive'] = True
