"""C07 - backend and build-configuration independence of all SIMD-backed types.

(a) R-CFG: truth-table enumeration of the cfg predicates in lib.rs / f32.rs / bool.rs / swizzles.rs: every feasible assignment selects exactly
one backend, the same in all files.  (b) R-WHO: build-dependent fused multiply-add symbols (x86 FMA intrinsics, wasm relaxed madd) are reachable only from the public mul_add methods unless fast-math
(positive control: the fast-math+fma build does contain the fused op).  (c) R-SIB exact: every function has the identical canonical result term
with and without +fma/+avx2/+sse4.1 (0 bits).  (d) R-SIB real-field: every public function of the eight SIMD-backed types computes the same real
function (same guards) as the scalar-math build on every SIMD backend.  (e) R-EFFSEQ: Debug/Display emit the same argument sequence on all backends."""
import os
import re
import terms as tm
import nf
import cfgparse
from lift import canon_float, strip_ref, rounding_rewrite
from common import api_roots, vec_info, tydef, leaves_plain, hidden_offsets, TRUSTED_COMMON
from runner import norm_def_path, REPO
from interp import Agg

LEVEL = 'other'
TECHNIQUE = 'cfg truth-table enumeration + call-graph who-may-call + cross-configuration term comparison (exact and real-field normal forms) over rustc MIR'
EXPLANATION = ('Decides exactly-one-backend selection for every feasible cfg assignment, absence of fused operations outside mul_add, bit-identical result terms across '
               'CPU feature sets (with Rust\'s no-contraction guarantee this is the 0-bit clause), and equality of the real function and of all guards between each SIMD backend '
               'and scalar-math, so differences are confined to re-association rounding (the SSE2 slerp is compared with its sine polynomial read as sin, certified within 2e-6 by C12).  '
               'The numeric size of that slack is not decided.')
LEVEL_NOTE = 'Decides structural equality across builds, not the magnitude of re-association slack. Trusted: rustc MIR, intrinsic table, Rust performs no FP contraction / re-association.'

SIMD_TYPES = ('Vec3A', 'Vec4', 'Quat', 'Mat2', 'Mat3A', 'Mat4', 'Affine2', 'Affine3A', 'BVec3A', 'BVec4A')
BACKENDS = ('scalar', 'sse2', 'neon', 'wasm32', 'coresimd')
FUSED = re.compile(r'(_mm_fn?m(add|sub)_p[sd]|::mul_add$|libm::fmaf?$|vfm[as]q?_(f32|f64|n_f32)|simd_fma$|intrinsics::fmaf(32|64)$|intrinsics::fmuladdf(32|64)$|StdFloat.*mul_add|f32x4_relaxed_madd)')
CONDITIONAL_FUSED = re.compile(r'(_mm_fn?m(add|sub)_p[sd]|f32x4_relaxed_madd)')
# opaque-algorithm instances whose cross-backend comparison is UNDECIDED by design (SSE2 integer round-trip rounding; see C01)
OPAQUE_FNS = {'floor', 'ceil', 'trunc', 'round', 'fract', 'fract_gl', 'rem_euclid', 'div_euclid'}


def check_cfg(ctx):
    files = ['src/lib.rs', 'src/f32.rs', 'src/bool.rs', 'src/swizzles.rs']
    per_file = {}
    atoms = set()
    for f in files:
        try:
            items = cfgparse.guarded_items(open(os.path.join(REPO, f)).read())
        except Exception as e:
            ctx.unverifiable('R-CFG', '-', f, 'cfg grammar not recognised: %r' % (e,))
            return
        sel = []
        for (pred, kind, text, line) in items:
            head = re.split(r'::|\s', text)[0]
            if head in BACKENDS:
                sel.append((pred, kind, head, line))
                if pred is not None:
                    atoms |= cfgparse.atoms(pred)
        per_file[f] = sel
    known = {('feature', 'core-simd'), ('feature', 'scalar-math'), ('target_arch', 'aarch64'), ('target_feature', 'sse2'), ('target_feature', 'simd128')}
    extra = atoms - known
    if extra:
        ctx.unverifiable('R-CFG', '-', 'cfg atoms', 'backend selection mentions cfg atoms outside the enumerated set: %s' % sorted(extra))
        return
    rows = 0
    for cs in (False, True):
        for sm in (False, True):
            for arch, tfs in (('x86_64', [set(), {'sse2'}]), ('x86', [set(), {'sse2'}]), ('aarch64', [set()]), ('wasm32', [set(), {'simd128'}]), ('riscv64', [set()])):
                for tf in tfs:
                    env = {'feature': {x for x, on in (('core-simd', cs), ('scalar-math', sm)) if on}, 'target_arch': arch, 'target_feature': tf}
                    rows += 1
                    chosen = {}
                    label = 'core-simd=%s scalar-math=%s arch=%s target_feature=%s' % (cs, sm, arch, sorted(tf))
                    for f, sel in per_file.items():
                        mods = sorted({h for (p, k, h, l) in sel if k == 'mod' and (p is None or cfgparse.evaluate(p, env))})
                        uses = sorted({h for (p, k, h, l) in sel if k == 'use' and (p is None or cfgparse.evaluate(p, env))})
                        chosen[f] = (mods, uses)
                    ref = chosen['src/f32.rs'][0]
                    bad = None
                    if len(ref) != 1:
                        bad = 'src/f32.rs selects backends %s' % ref
                    for f, (mods, uses) in chosen.items():
                        if f == 'src/lib.rs':
                            exp = [] if ref == ['scalar'] else ref
                            if mods != exp:
                                bad = 'src/lib.rs compiles helper modules %s but the f32 backend is %s' % (mods, ref)
                        else:
                            if mods != ref:
                                bad = '%s selects %s but src/f32.rs selects %s' % (f, mods, ref)
                            if uses and uses != ref:
                                bad = '%s re-exports from %s but the selected backend is %s' % (f, uses, ref)
                        if f in ('src/f32.rs', 'src/bool.rs') and uses != ref:
                            bad = '%s re-exports from %s, expected exactly %s' % (f, uses, ref)
                    if bad:
                        ctx.violation('R-CFG', '-', label, {'problem': bad})
                    else:
                        ctx.holds('R-CFG', '-', label, ref[0] if ref else None)
    ctx.floor('cfg assignments enumerated', rows, 32)
    # census of CPU-feature switches anywhere in the sources: for every #[cfg(..)] / cfg!(..) predicate that mentions a target_feature, every
    # truth value it can take on an x86-64 CPU (closed under the implication chain of the features) must be taken in one of the compared
    # x86 configurations - otherwise some code variant is compiled by no analysed build and bit-identity across it is not established
    import itertools
    CHAIN = ['sse', 'sse2', 'sse3', 'ssse3', 'sse4.1', 'sse4.2', 'avx', 'avx2']      # each implies its predecessors
    IMPL = {'fma': 'avx'}
    BUILT = {'sse2': {'sse', 'sse2'}, 'sse41': {'sse', 'sse2', 'sse3', 'ssse3', 'sse4.1', 'sse4.2'},
             'sse2-fma': {'sse', 'sse2', 'sse3', 'ssse3', 'sse4.1', 'sse4.2', 'avx', 'avx2', 'fma'}}
    OTHER_ARCH = {'simd128', 'neon'}
    seen = {}
    preds = {}
    for root, dirs, fs in os.walk(os.path.join(REPO, 'src')):
        for f in fs:
            if not f.endswith('.rs'):
                continue
            txt = open(os.path.join(root, f), encoding='utf8', errors='replace').read()
            rel = os.path.relpath(os.path.join(root, f), REPO)
            for m in re.finditer(r'target_feature\s*=\s*"([^"]+)"', txt):
                seen.setdefault(m.group(1), set()).add(rel)
            for m in re.finditer(r'cfg(?:_attr)?!?\s*\(', txt):
                # balanced parenthesis scan
                k = m.end()
                depth = 1
                while k < len(txt) and depth:
                    depth += {'(': 1, ')': -1}.get(txt[k], 0)
                    k += 1
                body = txt[m.end():k - 1]
                if 'target_feature' in body:
                    if m.group(0).startswith('cfg_attr'):
                        body = body.split(',', 1)[0] if not body.lstrip().startswith(('all', 'any', 'not')) else body[:body.index(')') + 1] if False else body
                    preds.setdefault(body.strip(), set()).add(rel)

    def consistent(assign):
        on = {a for a, v in assign.items() if v}
        for a in on:
            if a in CHAIN:
                for b in CHAIN[:CHAIN.index(a)]:
                    if b in assign and not assign[b]:
                        return False
            if a in IMPL and IMPL[a] in assign and not assign[IMPL[a]]:
                return False
        if assign.get('sse') is False or assign.get('sse2') is False:
            return False        # x86-64 baseline
        return True
    n_pred = 0
    for text, files_ in sorted(preds.items()):
        try:
            tree = cfgparse.parse_cfg(text)
        except ValueError as e:
            ctx.unverifiable('R-CFG', '-', 'cfg(%s)' % text[:80], 'predicate over CPU features outside the grammar: %s' % e)
            continue
        tf = sorted(v for (k_, v) in cfgparse.atoms(tree) if k_ == 'target_feature')
        if not tf or all(a in OTHER_ARCH for a in tf):
            continue
        unknown = [a for a in tf if a not in CHAIN and a not in IMPL and a not in OTHER_ARCH]
        n_pred += 1
        label = 'cfg(%s)' % text[:100]
        if unknown:
            ctx.unverifiable('R-CFG', '-', label, 'the sources switch on CPU feature(s) %s (%s) which no compared configuration toggles: bit-identity across that feature is not established' % (unknown, sorted(files_)[:3]))
            continue
        x86 = [a for a in tf if a not in OTHER_ARCH]

        def ev(tfset):
            env = {'target_feature': set(tfset), 'feature': set(), 'target_arch': 'x86_64', 'flags': set(), 'target_family': 'unix', 'target_os': 'linux',
                   'target_pointer_width': '64', 'target_endian': 'little'}
            try:
                return cfgparse.evaluate(tree, env)
            except ValueError:
                return None
        # other atoms (cargo features, arch) are held fixed: what matters here is the dependence on the CPU feature set
        possible = set()
        for bits in itertools.product([False, True], repeat=len(x86)):
            a_ = dict(zip(x86, bits))
            if consistent(a_):
                possible.add(ev({k_ for k_, v in a_.items() if v}))
        built = {ev(BUILT[c] & set(x86)) for c in BUILT}
        missing = possible - built - {None}
        if missing:
            ctx.unverifiable('R-CFG', '-', label, 'the predicate can be %s on some x86-64 CPU feature set, but in none of the compared configurations %s (%s): that code variant is analysed by no build' % (sorted(missing), sorted(BUILT), sorted(files_)[:3]))
        else:
            ctx.holds('R-CFG', '-', label + ' takes every achievable value in a compared configuration', sorted(files_)[:4])
    ctx.floor('CPU feature switches found in the sources', len(seen), 3)
    ctx.floor('cfg predicates over CPU features', n_pred, 3)
    # every cargo feature named in a cfg predicate is one that Cargo.toml declares (a misspelt name silently disables the code it guards)
    declared = set()
    try:
        toml = open(os.path.join(REPO, 'Cargo.toml'), encoding='utf8').read()
    except OSError:
        toml = ''
    sect = None
    for ln in toml.split('\n'):
        m = re.match(r'^\s*\[([^\]]+)\]', ln)
        if m:
            sect = m.group(1).strip()
            continue
        m = re.match(r'^\s*([A-Za-z0-9_\-]+)\s*=', ln)
        if m and sect in ('features', 'dependencies', 'dev-dependencies') or (m and sect and sect.startswith('target.') and sect.endswith('dependencies')):
            declared.add(m.group(1))
    used = {}
    for root, dirs, fs in os.walk(os.path.join(REPO, 'src')):
        for f in fs:
            if f.endswith('.rs'):
                txt = open(os.path.join(root, f), encoding='utf8', errors='replace').read()
                for m in re.finditer(r'\bfeature\s*=\s*"([^"]+)"', txt):
                    used.setdefault(m.group(1), set()).add(os.path.relpath(os.path.join(root, f), REPO))
    for feat, files_ in sorted(used.items()):
        if feat in declared:
            ctx.holds('R-CFG', '-', 'cargo feature "%s" used in cfg is declared' % feat)
        else:
            ctx.violation('R-CFG', '-', 'cargo feature "%s"' % feat, {'problem': 'the sources test cfg(feature = "%s") (%s) but Cargo.toml declares no such feature: the guarded code can never be enabled' % (feat, sorted(files_)[:3])})
    ctx.floor('cargo features used in cfg predicates', len(used), 8)
    ctx.floor('guarded backend items parsed', sum(len(v) for v in per_file.values()), 30)


def skey(name):
    return re.sub(r'\bstd::', 'core::', norm_def_path(name))


def calls_of(F):
    """caller d -> set of callee d (normalised)"""
    out = {}
    for k in F.body_keys():
        b = F.body(k)
        s = out.setdefault(b['d'], set())
        for bb in b['blocks']:
            if bb is None:
                continue
            t = bb['t']
            if t[0] == 'call' and 'd' in t[1]:
                s.add(re.sub(r'\bstd::', 'core::', t[1]['d']))
    return out


def check_fused(ctx, cfg, F, expect_fused_in_mul_add_kernel):
    cg = calls_of(F)
    glam_fns = {it['d'] for it in F.items.values()}
    bad = 0
    n = 0
    fused_callers = set()
    for caller, callees in cg.items():
        if caller not in glam_fns:
            continue
        for c in callees:
            if FUSED.search(c):
                n += 1
                fused_callers.add(caller)
    kernel = any(re.search(r'm128_mul_add$', c) for c in fused_callers)
    for caller in sorted(fused_callers):
        base = caller.rsplit('::', 1)[-1]
        ok = base == 'mul_add' or (expect_fused_in_mul_add_kernel and base in ('m128_mul_add', 'm128_neg_mul_sub'))
        # only fused symbols whose presence depends on the build can make results build-dependent: the x86 FMA intrinsics (compiled under
        # cfg(target_feature = "fma") only) and wasm's relaxed madd (fused or not at the engine's discretion).  f32::mul_add / libm fma / NEON
        # vfma / the public mul_add methods are fused on every build, so using them elsewhere changes nothing between builds
        cond = [c for c in cg[caller] if FUSED.search(c) and CONDITIONAL_FUSED.search(c)]
        if ok:
            ctx.holds('R-WHO', cfg, caller, 'fused op inside mul_add')
        elif not cond:
            ctx.holds('R-WHO', cfg, caller, 'unconditionally fused operation (the same on every build)')
        else:
            ctx.violation('R-WHO', cfg, caller, {'problem': 'fused multiply-add reachable outside the public mul_add methods (results would depend on the build)', 'caller': caller})
    ctx.count('fused_call_sites:' + cfg, n)
    return kernel


def canon_c07(t):
    """equivalences C07 grants on top of C01's: lane masks compare as their boolean; min/max trees are association-free;
    a sign transfer by xor is multiplication by +-1 decided at dot < 0 (agreement up to the threshold itself)"""
    t = canon_float(rounding_rewrite(t))
    memo = {}

    def go(x):
        r = memo.get(x.id)
        if r is not None:
            return r
        if x.op in ('atom', 'c', 'top', 'uninit', 'ptr'):
            memo[x.id] = x
            return x
        args = [go(a) if isinstance(a, tm.T) else a for a in x.args]
        r = None
        if x.op in ('m8', 'm16', 'm32', 'm64'):
            r = args[0]
        elif x.op in ('fmin~', 'fmax~'):
            leaves = set()
            for a in args:
                leaves |= set(a.args) if a.op == x.op else {a}
            r = tm.mk(x.op, *sorted(leaves))
        elif x.op == 'bxor' and len(args) == 2 and any(a.op == 'signbits' for a in args):
            sb = [a for a in args if a.op == 'signbits'][0]
            other = [a for a in args if a is not sb][0]
            d = sb.args[0]
            sz = 4
            r = tm.f2('fmul', other, tm.ite(tm.f2('flt', d, tm.fconst(0.0, sz)), tm.fconst(-1.0, sz), tm.fconst(1.0, sz)))
        elif x.op == 'ite':
            # "discrete outcomes agree unless the deciding quantity lies within the slack of its threshold": a tie exactly at the threshold may
            # go either way, so a <= b and a < b select the same branch for this comparison
            c2 = strict_cond(args[0])
            th, el = args[1], args[2]
            if c2.op == 'flt' and tm.is_const(c2.args[0]) and not tm.is_const(c2.args[1]):
                # k < x ? X : Y  and  x < k ? Y : X  differ only at x == k: thresholds are oriented with the constant on the right
                c2 = tm.f2('flt', c2.args[1], c2.args[0])
                th, el = el, th
            if c2 is not args[0]:
                r = tm.ite(c2, th, el)
        if r is None:
            r = tm.rebuild(x.op, args) if any(p is not q for p, q in zip(args, x.args)) else x
        memo[x.id] = r
        return r
    return go(t)


def strict_cond(c):
    """a float condition with every non-strict comparison made strict (ties dropped): fle(a, b) and not(flt(b, a)) become flt(a, b)"""
    if not isinstance(c, tm.T):
        return c
    if c.op == 'fle' and len(c.args) == 2:
        return tm.f2('flt', c.args[0], c.args[1])
    if c.op == 'not' and c.args[0].op == 'flt':
        return tm.f2('flt', c.args[0].args[1], c.args[0].args[0])
    if c.op == 'not' and c.args[0].op == 'fle':
        return tm.f2('flt', c.args[0].args[1], c.args[0].args[0])
    if c.op in ('and', 'or'):
        a2 = [strict_cond(a) for a in c.args]
        if any(p is not q for p, q in zip(a2, c.args)):
            return tm.rebuild(c.op, a2)
    return c


def value_cells(F, v, tyid):
    """visible scalar cells of a value in declaration order: list of terms"""
    if isinstance(v, tm.T):
        return [v]
    hid = set(hidden_offsets(F, tyid))
    out = []
    for (o, s, lt) in leaves_plain(F, tyid):
        if o in hid:
            continue
        c = v.cells.get(o)
        out.append(c[1] if c and c[0] == s else None)
    for dk in sorted(v.discr, key=str):
        out.append(v.discr[dk])
    return out


def root_outputs(F, r, body):
    outs = []
    if r.ret is not None:
        outs.extend(value_cells(F, r.ret, body['locals'][0]))
    for (argi, base, oid, pty, mut, ln) in r.arg_objs:
        if mut and F.types[pty]['sz']:
            obj = r.heap.get(oid)
            if obj is not None:
                outs.extend(value_cells(F, obj, pty))
    return outs


def simd_roots(F):
    for name, it in api_roots(F):
        st = (it.get('self_ty') or '').lstrip('&').replace('mut ', '')
        tn = st.rsplit('::', 1)[-1]
        if tn in SIMD_TYPES:
            yield name, it, tn
        elif st in ('f32', 'f64') and it.get('trait'):
            # scalar-left operators: impl Mul<Vec4> for f32 and friends belong to the SIMD-backed operand type
            m = re.search(r'::(%s)\b' % '|'.join(sorted(SIMD_TYPES, key=len, reverse=True)), name)
            if m:
                yield name, it, m.group(1)


def run(ctx):
    quick = ctx.tier == 'quick'
    base_cfgs = ['sse2', 'sse2-fma', 'sse41', 'sse2-dbg', 'scalar', 'coresimd', 'neon', 'wasm32', 'wasm32-scalar', 'fastmath', 'libm']
    configs = ctx.need(base_cfgs)
    ctx.trusted = TRUSTED_COMMON
    check_cfg(ctx)
    facts = {c: ctx.facts(c) for c in configs}
    # (b) fused operations
    for c in configs:
        if c == 'fastmath':
            k = check_fused(ctx, c, facts[c], True)
            ctx.control('fast-math + fma build contains the fused op in m128_mul_add', k, 'positive control for the fused-symbol pattern')
        else:
            check_fused(ctx, c, facts[c], False)
    # (c) exact sibling equality of the default build with every other x86 build (more CPU features; debug assertions on):
    #     all reachable roots in thorough, SIMD-backed types (and every root for the debug-assertions build) in quick
    for other in ('sse2-fma', 'sse41', 'sse2-dbg'):
        if 'sse2' not in facts or other not in facts:
            continue
        pair = 'sse2|%s' % other
        Fa, Fb = facts['sse2'], facts[other]
        Ha, Hb = ctx.harness('sse2'), ctx.harness(other)
        n = 0
        all_roots = (not quick) or other == 'sse2-dbg'
        for (name, it, _tn) in (((n_, i_, None) for n_, i_ in api_roots(Fa)) if all_roots else simd_roots(Fa)):
            if (it.get('trait') or '').rsplit('::', 1)[-1] in ('Debug', 'Display', 'Hash'):
                continue      # outputs are opaque formatter/hasher states; compared through effect sequences in (e)
            itb = Fb.items.get(name)
            if itb is None:
                ctx.unverifiable('R-SIB-EXACT', pair, name, 'function missing in the %s build' % other)
                continue
            ra, rb = Ha.run(it['key']), Hb.run(itb['key'])
            n += 1
            if ra.abort or rb.abort:
                ctx.undecided('R-SIB-EXACT', pair, name, ra.abort or rb.abort)
                continue
            oa, ob = root_outputs(Fa, ra, Fa.body(it['key'])), root_outputs(Fb, rb, Fb.body(itb['key']))
            if len(oa) != len(ob) or any(x is not y for x, y in zip(oa, ob)):
                diff = [(tm.show(x, 0, 5)[:160], tm.show(y, 0, 5)[:160]) for x, y in zip(oa, ob) if x is not y][:2]
                ctx.violation('R-SIB-EXACT', pair, name, {'file': it['file'], 'line': it['line'], 'problem': 'result term differs between the default build and the %s build' % other, 'default_vs_other': diff})
            elif other != 'sse2-dbg' and len(ra.panics) != len(rb.panics):
                ctx.violation('R-SIB-EXACT', pair, name, {'problem': 'panic sites differ between CPU feature sets'})
            else:
                ctx.holds('R-SIB-EXACT', pair, name)
        ctx.floor('functions compared %s' % pair, n, 13000 if all_roots else 1150)
    # (d) real-field sibling equality: each SIMD backend vs scalar, SIMD-backed types
    if 'scalar' in facts:
        Fs, Hs = facts['scalar'], ctx.harness('scalar')
        scal = {}
        for name, it, tn in simd_roots(Fs):
            scal[skey(name)] = (name, it, tn)
        for be in [c for c in ('sse2', 'fastmath', 'coresimd', 'neon', 'wasm32') if c in configs]:
            Fb, Hb = facts[be], ctx.harness(be)
            n = 0
            if be == 'wasm32':
                if 'wasm32-scalar' not in facts:
                    continue
                # same pointer width on both sides
                Fs, Hs = facts['wasm32-scalar'], ctx.harness('wasm32-scalar')
                scal = {}
                for name_, it_, tn_ in simd_roots(Fs):
                    scal[skey(name_)] = (name_, it_, tn_)
            for name, it, tn in simd_roots(Fb):
                key = skey(name)
                if key not in scal:
                    ctx.count('no_scalar_sibling:' + be)
                    continue
                if tn in ('BVec3A', 'BVec4A'):
                    continue      # mask types: decided lane-wise in C15 on every backend
                sname, sit, _ = scal[key]
                mname = it.get('name') or ''
                tr = (it.get('trait') or '').rsplit('::', 1)[-1]
                if tr in ('Debug', 'Display', 'Hash', 'Clone') or mname in ('as_ref', 'as_mut', 'deref', 'deref_mut', 'index', 'index_mut', 'col_mut'):
                    continue      # pointer-returning / formatting: C06, C17 and (e)
                bodyb = Fb.body(it['key'])
                if any((tydef(Fb, strip_ref(Fb, a)[0]) or '').startswith('BVec') for a in bodyb['locals'][1:1 + bodyb['argc']]):
                    continue      # mask-typed operands are laid out differently per backend; select etc. are decided lane-wise in C15
                rb, rs = Hb.run(it['key']), Hs.run(sit['key'])
                n += 1
                pair = '%s|scalar' % be
                if rb.abort or rs.abort:
                    ctx.undecided('R-SIB-REAL', pair, key, rb.abort or rs.abort)
                    continue
                ob, os_ = root_outputs(Fb, rb, Fb.body(it['key'])), root_outputs(Fs, rs, Fs.body(sit['key']))
                if len(ob) != len(os_) or any(x is None for x in ob + os_):
                    ctx.undecided('R-SIB-REAL', pair, key, 'outputs have different shapes (%d vs %d cells)' % (len(ob), len(os_)))
                    continue
                alg = nf.Algebra()
                same = True
                which = None
                for i, (x, y) in enumerate(zip(ob, os_)):
                    if x is y:
                        continue
                    cx, cy = canon_c07(x), canon_c07(y)
                    if cx is cy:
                        continue
                    try:
                        if alg.r_eq(alg.nf(cx), alg.nf(cy)):
                            continue
                    except Exception as e:
                        pass
                    same = False
                    which = (i, tm.show(cx, 0, 5)[:200], tm.show(cy, 0, 5)[:200])
                    break
                if not same and be in ('sse2', 'fastmath') and tn == 'Quat' and mname in ('slerp', 'rotate_towards'):
                    # the SSE2 slerp evaluates its three sines with the backend's own polynomial; with that polynomial read as sin (justified by the
                    # interval certificate |m128_sin - sin| <= 2e-6, C12 R-APPROX) the two builds must be the same real function
                    from harness import Harness
                    import tables
                    import approx
                    sin_leaf = lambda I, fr, callee, args, dest, argops, line: tables.vec([tm.mk('sin', x) for x in tables.lanes(I, args[0], 4, 4)], 4)
                    Hx = Harness(Fb, {'extra_leaf': {hn: sin_leaf for hn in (approx.sin_helpers(Fb) or ['sse2::m128_sin'])}})
                    rx = Hx.run(it['key'])
                    ox = root_outputs(Fb, rx, Fb.body(it['key'])) if not rx.abort else None
                    if ox is not None and len(ox) == len(os_) and all(x is not None for x in ox):
                        alg2 = nf.Algebra()
                        ok2 = True
                        for x, y in zip(ox, os_):
                            cx, cy = canon_c07(x), canon_c07(y)
                            if x is y or cx is cy:
                                continue
                            try:
                                if alg2.r_eq(alg2.nf(cx), alg2.nf(cy)):
                                    continue
                            except Exception:
                                pass
                            ok2 = False
                            which = (which[0], tm.show(cx, 0, 5)[:200], tm.show(cy, 0, 5)[:200])
                            break
                        if ok2:
                            ctx.holds('R-SIB-REAL', pair, key, 'equal with the SSE2 sine polynomial read as sin (certified within 2e-6 by C12 R-APPROX)')
                            continue
                        ctx.violation('R-SIB-REAL', pair, key, {'file': it['file'], 'line': it['line'], 'problem': 'output %d is a different real function / guard than in the scalar-math build even with the SSE2 sine polynomial read as sin' % which[0],
                                                                 'simd': which[1], 'scalar': which[2]})
                        continue
                if same:
                    ctx.holds('R-SIB-REAL', pair, key)
                elif mname in OPAQUE_FNS or (tn == 'Quat' and mname in ('slerp', 'rotate_towards')):
                    ctx.undecided('R-SIB-REAL', pair, key, 'rounding / sine approximation algorithm of a shape the recognisers do not know on the SIMD side (see C01)')
                else:
                    ctx.violation('R-SIB-REAL', pair, key, {'file': it['file'], 'line': it['line'], 'problem': 'output %d is a different real function / guard than in the scalar-math build' % which[0],
                                                             'simd': which[1], 'scalar': which[2]})
            ctx.floor('functions compared %s vs scalar' % be, n, 1000)
    # (e) Debug / Display effect sequences
    if 'scalar' in facts:
        Fs, Hs = facts['scalar'], ctx.harness('scalar')
        for be in [c for c in ('sse2', 'coresimd', 'neon', 'wasm32') if c in configs]:
            Fb, Hb = facts[be], ctx.harness(be)
            ne = 0
            Fs, Hs = facts['scalar'], ctx.harness('scalar')
            if be == 'wasm32':
                if 'wasm32-scalar' not in facts:
                    continue
                Fs, Hs = facts['wasm32-scalar'], ctx.harness('wasm32-scalar')
            smap = {skey(n_): it_ for n_, it_ in Fs.items.items()}
            for name, it, tn in simd_roots(Fb):
                tr = (it.get('trait') or '').rsplit('::', 1)[-1]
                if tr not in ('Debug', 'Display'):
                    continue
                sit = smap.get(skey(name))
                if sit is None:
                    continue
                rb, rs = Hb.run(it['key']), Hs.run(sit['key'])
                ne += 1
                if rb.abort or rs.abort:
                    ctx.undecided('R-EFFSEQ', '%s|scalar' % be, norm_def_path(name), rb.abort or rs.abort)
                    continue

                def seq(r):
                    out = []
                    for (d, descs, pc, fn) in r.effects:
                        ds = []
                        for de in descs:
                            cells = de[2] if de[0] in ('lit', 'ref', 'constref') else None      # constants (format templates) by content
                            hid_ = {'Vec3A': (12,), 'BVec3A': (12,), 'Mat3A': (12, 28, 44), 'Affine3A': (12, 28, 44, 60)}.get(str(de[1]).rsplit('::', 1)[-1])
                            if de[0] == 'ref' and hid_ and cells:
                                cells = tuple(c_ for c_ in cells if c_[0] not in hid_)     # hidden lanes are not part of the value
                            if cells is not None and not isinstance(cells, str):
                                cells = tuple((c_[0], re.sub(r'TOP\d+', 'TOP', str(c_[1]))) for c_ in cells)
                            ds.append((de[0], re.sub(r'\bstd::', 'core::', re.sub(r'<[^<>]*>', '', norm_def_path(str(de[1])))), cells))
                        out.append((d.rsplit('::', 1)[-1], tuple(ds)))
                    return out
                a, b = seq(rb), seq(rs)
                # pointers to temporaries differ in object naming only; compare shapes and lane provenance
                if a == b:
                    ctx.holds('R-EFFSEQ', '%s|scalar' % be, norm_def_path(name))
                else:
                    d0 = [(x, y) for x, y in zip(a, b) if x != y][:1]
                    if tn in ('BVec3A', 'BVec4A') and tr == 'Debug':
                        ctx.undecided('R-EFFSEQ', '%s|scalar' % be, norm_def_path(name), 'mask Debug prints raw lane words')
                    else:
                        ctx.violation('R-EFFSEQ', '%s|scalar' % be, norm_def_path(name), {'problem': 'formatting effect sequence differs from the scalar-math build', 'first_difference': str(d0)[:600], 'lengths': [len(a), len(b)]})
            ctx.floor('Debug/Display impls compared %s vs scalar' % be, ne, 16)
    ctx.extra['exhaustive'] = True
