"""R-POST: rotation producers establish the preconditions of rotation consumers (used by C20).

For every public constructor / operator that the documentation says yields a rotation - quaternion constructors, unit-quaternion
products, inverse, conjugate, lerp, and the matrix / affine rotation and look-at constructors - the result satisfies, as a
real-arithmetic identity over all inputs meeting the documented preconditions (unit axis / unit quaternion arguments),

    quaternions:  x^2 + y^2 + z^2 + w^2 - 1 == 0
    matrices:     |column_i|^2 - 1 == 0 for the three rotation columns, and for Mat4 the bottom row is exactly (0, 0, 0, 1)

which are exactly the quantities the glam_assert preconditions of mul_vec3 / from_mat3 / to_euler / to_scale_rotation_translation /
transform_point3 bound.  The identity is decided in the ring Q[atoms, sin, cos, sqrt] modulo sin^2 + cos^2 = 1, sqrt(p)^2 = p and the
unit-length relations of the arguments; the relations have pairwise coprime leading squares, so the normal form is canonical and a non-zero
residual over those symbols alone is decisive.  A residual mentioning any other symbol (approximations, inverse trigonometry) is UNDECIDED."""
import re
import terms as tm
import nf
from fractions import Fraction
from nf import Poly, ONE
from spec import Spec
from matmodel import MatModel
from lift import value_lanes, ArgView, strip_ref
from common import api_roots, vec_info, tydef
from runner import REPO

QUATS = {'Quat', 'DQuat'}
MATS3 = {'Mat3', 'Mat3A', 'DMat3', 'Mat4', 'DMat4', 'Affine3A', 'DAffine3'}
MATS2 = {'Mat2', 'DMat2', 'Affine2', 'DAffine2'}

# method -> indices of arguments documented to be unit length (vector axis or quaternion)
QUAT_PRODUCERS = {
    'from_axis_angle': [0], 'from_scaled_axis': [], 'from_rotation_x': [], 'from_rotation_y': [], 'from_rotation_z': [],
    'from_euler': [], 'mul_quat': [0, 1], 'mul': [0, 1], 'inverse': [0], 'conjugate': [0], 'normalize': [], 'lerp': [0, 1],
    'from_rotation_arc': [0, 1], 'from_rotation_arc_colinear': [0, 1], 'from_rotation_arc_2d': [0, 1],
}
# producers whose unit-ness rests on sin/acos numerics or data-dependent branches over the input rotation: attempted, never decisive
QUAT_BEST_EFFORT = {'slerp': [0, 1], 'rotate_towards': [0, 1]}
MAT_PRODUCERS = {
    'from_axis_angle': [0], 'from_rotation_x': [], 'from_rotation_y': [], 'from_rotation_z': [], 'from_quat': [0], 'from_euler': [],
    'from_rotation_translation': [0], 'look_to_lh': [], 'look_to_rh': [], 'look_at_lh': [], 'look_at_rh': [],
}
MAT2_PRODUCERS = {'from_angle': [], 'from_angle_translation': []}
# Mat4 constructors documented as affine: bottom row must be exactly (0, 0, 0, 1)
MAT4_AFFINE = {'from_axis_angle', 'from_rotation_x', 'from_rotation_y', 'from_rotation_z', 'from_quat', 'from_euler', 'from_rotation_translation',
               'from_scale_rotation_translation', 'from_translation', 'from_scale', 'from_mat3', 'from_mat3a', 'from_mat3_translation',
               'look_to_lh', 'look_to_rh', 'look_at_lh', 'look_at_rh'}
MAX_SPLIT = 6
_SRC = {}


def doc_unit_args(repo, it):
    """indices of the parameters the rustdoc of `it` requires to be normalized ("Will panic if `a` or `b` are not normalized"; the sentence may
    wrap over several doc lines and may say "unit vector" / "unit length" / "normalised")"""
    from common import rustdoc_of, fn_params
    params = fn_params(repo, it)
    doc = rustdoc_of(repo, it) or ''
    names = set()
    for sent in re.split(r'(?<=[.!?])\s+', doc):
        for mm in re.finditer(r'(?:[Ww]ill panic|[Pp]anics) if (.+?) (?:is|are) not (?:normali[sz]ed|(?:a )?unit (?:vectors?|length|quaternions?)|of unit length)', sent):
            names.update(re.findall(r'`(\w+)`', mm.group(1)))
    return sorted(params.index(n) for n in names if n in params)


def _collect_conds(t, out, seen):
    if t.id in seen:
        return
    seen.add(t.id)
    if t.op == 'ite' and t.args[0] not in out:
        out.append(t.args[0])
    for a in t.args:
        if isinstance(a, tm.T):
            _collect_conds(a, out, seen)


def split_cases(terms_):
    """all selections among the branches of the terms (NaN tests read as false): yields lists of branch-free terms; None when too many"""
    cur = list(terms_)
    conds = []
    seen = set()
    for t in cur:
        _collect_conds(t, conds, seen)
    for c in [c for c in conds if c.op == 'fne' and c.args[0] is c.args[1]]:
        cur = [tm.subst(t, {c: tm.FALSE}) for t in cur]
    conds = []
    seen = set()
    for t in cur:
        _collect_conds(t, conds, seen)
    if len(conds) > MAX_SPLIT:
        return None
    out = []
    sigs = set()
    for case in range(1 << len(conds)):
        ts = cur
        for j, c in enumerate(conds):
            ts = [tm.subst(t, {c: tm.TRUE if (case >> j) & 1 else tm.FALSE}) for t in ts]
        sig = tuple(t.id for t in ts)
        if sig not in sigs:
            sigs.add(sig)
            out.append(ts)
    return out


def abstract_differences(ts, keep):
    """replace x - y by one fresh atom when the atoms x and y occur nowhere else (an identity in d = x - y for all d is the same
    statement and has far fewer monomials): look_at(eye, center, ..) only uses center - eye"""
    uses = {}
    diffs = {}
    seen = set()

    def walk(t, parent_is_diff):
        if t.op == 'atom':
            uses[t] = uses.get(t, 0) + (0 if parent_is_diff else 1)
            return
        if t.id in seen:
            return
        seen.add(t.id)
        d = None
        if t.op == 'fadd' and len(t.args) == 2:
            a, b = t.args
            if a.op == 'atom' and b.op == 'fneg' and b.args[0].op == 'atom':
                d = (a, b.args[0])
            elif b.op == 'atom' and a.op == 'fneg' and a.args[0].op == 'atom':
                d = (b, a.args[0])
        if d is not None:
            diffs[t] = d
            for x in d:
                uses.setdefault(x, 0)
            return
        for a in t.args:
            if isinstance(a, tm.T):
                walk(a, False)
    for t in ts:
        walk(t, False)
    mapping = {}
    taken = set()
    for t, (x, y) in diffs.items():
        if uses.get(x, 0) == 0 and uses.get(y, 0) == 0 and x not in keep and y not in keep and x not in taken and y not in taken:
            mapping[t] = tm.atom('(%s-%s)' % (tm.show(x), tm.show(y)))
            taken.add(x)
            taken.add(y)
    if not mapping:
        return ts
    return [tm.subst(t, mapping) for t in ts]


def unit_relation(alg, lanes):
    """declare sum(lanes^2) = 1 by rewriting the square of the last lane"""
    vs = [alg.var_for_atom(a) for a in lanes]
    p = Poly.const(1)
    for v in vs[:-1]:
        p = p - Poly({((v, 2),): Fraction(1)})
    alg.rel[vs[-1]] = p


def decisive(alg, num):
    """is a non-zero residual conclusive?  only ring symbols with canonical relations, and independent trigonometric arguments"""
    trig_atoms = []
    for v in num.variables():
        info = alg.var_info.get(v, ('?',))
        if info[0] == 'atom':
            continue
        if info[0] == 'fn' and info[1] in ('sin', 'cos', 'sqrt'):
            if info[1] in ('sin', 'cos'):
                a = info[2]
                if a is None or a[1] != ONE or len(a[0].t) != 1:
                    return False
                (mono, _c), = a[0].t.items()
                # one monomial: an input angle, or (slerp) the arccos symbol times the interpolation parameter - generically independent of the rest
                if not all(alg.var_info.get(v_, ('?',))[0] == 'atom' or alg.var_info.get(v_, ('?', '?'))[1] in ('acos_approx', 'acos') for (v_, _e) in mono):
                    return False
                trig_atoms.append((info[1], mono, _c))
            continue
        if info[0] == 'fn' and info[1] in ('acos_approx', 'acos'):
            continue
        return False
    # the same angle atom with two different multipliers (t and t/2) would not be independent
    mult = {}
    for (_k, atom, c) in trig_atoms:
        mult.setdefault(atom, set()).add(c)
    return all(len(s) == 1 for s in mult.values())


def residual(quantities, rel_args, trig=False):
    """-> (ok, decisive, text) for one branch-free case: every quantity must normalise to zero"""
    alg = nf.Algebra()
    alg.budget = 400000
    if trig:
        alg.expand_angles = True
        alg.acos_exact = True
    S = Spec(alg)
    for lanes in rel_args:
        unit_relation(alg, lanes)
    # signs: copysign(1, x)^2 = signum(x)^2 = 1 (discovered in a first pass)
    for (lanes, _t) in quantities:
        for l in lanes:
            alg.nf(l)
    found = False
    for v_, info in list(alg.var_info.items()):
        if info[0] == 'fn' and info[1] in ('copysign', 'signum') and v_ not in alg.rel:
            alg.rel[v_] = Poly.const(1)
            found = True
    if found:
        alg.memo.clear()
    for q in quantities:
        lanes, target = q
        xs = [alg.nf(l) for l in lanes]
        r = S.sub(S.dot(xs, xs), S.c(target)) if target is not None else xs[0]
        num = alg.reduce(r[0])
        if not num.is_zero():
            return False, decisive(alg, num), num.show(alg.name, 6)
    return True, True, None


def run_producers(ctx, cfg, F, H, floor_decided):
    M = MatModel(F, H)
    n_ok = 0
    Habs = [None]
    for name, it in api_roots(F):
        st = (it.get('self_ty') or '').lstrip('&')
        tname = st.rsplit('::', 1)[-1]
        mname = it.get('name') or ''
        if tname in QUATS:
            table = dict(QUAT_PRODUCERS)
            table.update(QUAT_BEST_EFFORT)
        elif tname in MATS3:
            table = MAT_PRODUCERS
        elif tname in MATS2:
            table = MAT2_PRODUCERS
        else:
            continue
        affine_only = False
        if mname not in table:
            if tname in ('Mat4', 'DMat4') and mname in MAT4_AFFINE and not it.get('trait'):
                affine_only = True
            else:
                continue
        if it.get('trait') and not (mname == 'mul' and it.get('trait', '').endswith('Mul')):
            continue
        body = F.body(it['key'])
        if body is None:
            continue
        argtys = body['locals'][1:1 + body['argc']]
        rty = body['locals'][0]
        best_effort = tname in QUATS and mname in QUAT_BEST_EFFORT
        if tname in QUATS:
            if tydef(F, strip_ref(F, rty)[0]) not in QUATS:
                continue
            if mname == 'mul' and (body['argc'] != 2 or tydef(F, strip_ref(F, argtys[1])[0]) not in QUATS):
                continue
        Hrun = H
        if best_effort:
            # slerp / rotate_towards: the polynomial arccos is read as acos and the SSE2 sine polynomial as sin (both certified by R-APPROX in
            # C02 / C12), sines and cosines of sums are expanded by the addition formulas
            if Habs[0] is None:
                from C12 import _abstract_harness
                Habs[0] = _abstract_harness(F)
            Hrun = Habs[0]
        for (label, r) in Hrun.run_all(it['key']):
            inst = name + ('[%s]' % label if label else '')
            if r.abort or r.ret is None:
                (ctx.undecided if best_effort else ctx.unverifiable)('R-POST', cfg, inst, r.abort or 'diverges')
                continue
            rel_args = []
            bad_arg = False
            for ai in ([] if affine_only else sorted(set(table[mname]) | set(doc_unit_args(REPO, it)))):
                if ai >= len(argtys):
                    continue
                av = ArgView(F, r, ai, argtys[ai])
                if av.lanes is None or any(a is None for a in av.lanes):
                    bad_arg = True
                    break
                rel_args.append(av.lanes)
            if bad_arg:
                ctx.unverifiable('R-POST', cfg, inst, 'unit-length argument is not a vector of atoms')
                continue
            quantities = []
            exact = []
            if tname in QUATS:
                lanes = value_lanes(F, r.ret, rty)
                if lanes is None:
                    ctx.unverifiable('R-POST', cfg, inst, 'result is not a quaternion value')
                    continue
                if best_effort:
                    from C07 import canon_c07
                    lanes = [canon_c07(l) for l in lanes]
                quantities.append((lanes, 1))
            else:
                mi = M.info(rty)
                ent = M.entries(r.ret, rty)
                if mi is None or ent is None:
                    ctx.unverifiable('R-POST', cfg, inst, 'result is not a matrix value')
                    continue
                if not affine_only:
                    n = 2 if tname in MATS2 else 3
                    for c in range(n):
                        quantities.append(([ent[(c, rr)] for rr in range(n)], 1))
                if mi['rows'] == 4:
                    for c in range(4):
                        exact.append(((c, 3), ent[(c, 3)], 1.0 if c == 3 else 0.0))
            problem = None
            for (pos, t, want) in exact:
                ok_, _d, _t = residual([([tm.f2('fadd', t, tm.fconst(-want, mi['esz']))], None)], [])
                if not ok_:
                    problem = ('bottom-row entry (col %d,row %d) is not the constant %g, so transform_point3 / transform_vector3 reject the matrix' % (pos[0], pos[1], want), True)
                    break
            if problem is None and quantities:
                flat = [l for (lanes, _t) in quantities for l in lanes]
                flat = abstract_differences(flat, set(a for lanes in rel_args for a in lanes))
                cases = split_cases(flat)
                if cases is None:
                    ctx.undecided('R-POST', cfg, inst, 'too many data-dependent selections')
                    continue
                try:
                    for ts in cases:
                        qs = []
                        k = 0
                        for (lanes, target) in quantities:
                            qs.append((ts[k:k + len(lanes)], target))
                            k += len(lanes)
                        ok, dec, text = residual(qs, rel_args, trig=best_effort)
                        if not ok:
                            problem = ('squared length of a result %s is not identically 1 for arguments meeting the documented preconditions: residual %s'
                                       % ('quaternion' if tname in QUATS else 'rotation column', text), dec)
                            break
                except (ValueError, RecursionError, KeyError) as e:
                    ctx.undecided('R-POST', cfg, inst, 'not analysable: %r' % (e,))
                    continue
            if problem is None:
                ctx.holds('R-POST', cfg, inst)
                n_ok += 1
            elif problem[1]:
                ctx.violation('R-POST', cfg, inst, {'file': it['file'], 'line': it['line'], 'problem': problem[0]})
            else:
                ctx.undecided('R-POST', cfg, inst, problem[0])
    ctx.floor('rotation producers decided unit / affine (%s)' % cfg, n_ok, floor_decided)
    return n_ok
