"""C06 - column-vector, column-major conventions hold across every accessor and product.

R-COPY: with entry (c, r) anchored on from_cols, every array/slice accessor lists column 0 first, col/row/col_mut
(per constant index), the axis fields, from_diagonal, transpose and the minor constructors (per constant (i, j))
are the stated permutations of entries, bit-exact.  R-ALG: M*v = sum_c v[c]*col(c) and transform_point/vector =
linear*p (+ translation), as exact polynomial identities.  R-COMPOSE: every matrix x matrix, affine x affine and mixed affine x matrix
product operator returns the homogeneous matrix product of its operands entry by entry, which with the M*v rule gives (A*B)*v = A*(B*v)."""
import re
import terms as tm
from terms import const
import nf
from matmodel import MatModel, DIMS
from lift import value_lanes, strip_ref
from common import api_roots, vec_info, tydef, atom_at, cell_term, leaves_plain, TRUSTED_COMMON

LEVEL = 'proof'
TECHNIQUE = 'provenance (bit-copy) analysis with per-index partial evaluation + polynomial normal forms over rustc MIR'
EXPLANATION = ('Every accessor, constructor, minor and transpose of the 11 matrix/affine types is interpreted on symbolic entries and must be '
               'the stated permutation of bare input atoms (bit-exact for every bit pattern); matrix-vector products and affine point/vector '
               'transforms must equal sum_c v[c]*col(c) (+ translation) as polynomials.  Index arguments are specialised to every constant.')

CONFIGS_QUICK = ['sse2', 'sse2-fma', 'sse41', 'scalar', 'coresimd', 'neon', 'wasm32']
CONFIGS_THOROUGH = ['sse2', 'sse2-fma', 'sse41', 'scalar', 'coresimd', 'neon', 'wasm32']


def poly_eq(a, b):
    alg = nf.Algebra()
    return alg.r_eq(alg.nf(a), alg.nf(b))


def run(ctx):
    configs = ctx.need(CONFIGS_QUICK if ctx.tier == 'quick' else CONFIGS_THOROUGH)
    ctx.trusted = TRUSTED_COMMON + ['anchor: from_cols(c0, c1, ..) places lane r of argument c at entry (c, r) (its documented meaning)']
    for cfg in configs:
        F = ctx.facts(cfg)
        H = ctx.harness(cfg)
        M = MatModel(F, H)
        types = set()
        counts = {}

        def done(rule, name, bad, it):
            counts[rule] = counts.get(rule, 0) + 1
            if bad:
                ctx.violation(rule, cfg, name, {'file': it['file'], 'line': it['line'], 'problem': bad})
            else:
                ctx.holds(rule, cfg, name)

        for name, it in api_roots(F):
            st = (it.get('self_ty') or '').lstrip('&')
            tname = st.rsplit('::', 1)[-1]
            if tname not in DIMS:
                continue
            mname = it.get('name') or ''
            tr = (it.get('trait') or '').rsplit('::', 1)[-1]
            body = F.body(it['key'])
            if body is None:
                continue
            argtys = body['locals'][1:1 + body['argc']]
            rty = body['locals'][0]
            # the matrix type itself
            mty = None
            for t_ in [rty] + [strip_ref(F, a)[0] for a in argtys]:
                if F.types[t_]['n'] == st:
                    mty = t_
                    break
            if mty is None:
                continue
            mi = M.info(mty)
            if mi is None:
                ctx.unverifiable('R-COPY', cfg, name, 'matrix layout could not be anchored on from_cols')
                continue
            types.add(tname)
            C, R, esz = mi['cols'], mi['rows'], mi['esz']
            # -------- flat accessors
            if not tr and mname in ('to_cols_array', 'to_cols_array_2d'):
                r = H.run(it['key'])
                bad = r.abort
                if not bad:
                    ent, _ = M.arg_entries(r, 0, argtys[0])
                    lv = [(o, s) for (o, s, lt) in leaves_plain(F, rty)]
                    if len(lv) != C * R:
                        bad = 'array has %d elements, expected %d' % (len(lv), C * R)
                    else:
                        for c in range(C):
                            for rr in range(R):
                                o, s = lv[c * R + rr]
                                if cell_term(r.ret, o, s) is not ent[(c, rr)]:
                                    bad = 'element %d is not entry (col %d, row %d)' % (c * R + rr, c, rr)
                                    break
                            if bad:
                                break
                done('R-COPY', name, bad, it)
            elif not tr and mname in ('from_cols_array', 'from_cols_array_2d'):
                r = H.run(it['key'])
                bad = r.abort
                if not bad:
                    ent = M.entries(r.ret, rty)
                    lv = [(o, s) for (o, s, lt) in leaves_plain(F, strip_ref(F, argtys[0])[0])]
                    by_ref = strip_ref(F, argtys[0])[1]
                    if ent is None or len(lv) != C * R:
                        bad = 'shape'
                    else:
                        for c in range(C):
                            for rr in range(R):
                                if ent[(c, rr)] is not atom_at(r, 0, lv[c * R + rr][0], by_ref):
                                    bad = 'entry (col %d, row %d) is not array element %d' % (c, rr, c * R + rr)
                                    break
                            if bad:
                                break
                done('R-COPY', name, bad, it)
            elif not tr and mname == 'from_cols_slice':
                r = H.run(it['key'])
                bad = r.abort
                if not bad:
                    ent = M.entries(r.ret, rty)
                    for c in range(C):
                        for rr in range(R):
                            g = ent[(c, rr)] if ent else None
                            if g is None or g.op != 'atom' or g.args[0] != 'a0[%d]@0' % (c * R + rr):
                                bad = 'entry (col %d, row %d) is %s, expected slice[%d]' % (c, rr, tm.show(g) if g is not None else None, c * R + rr)
                                break
                        if bad:
                            break
                done('R-COPY', name, bad, it)
            elif not tr and mname == 'write_cols_to_slice':
                r = H.run(it['key'])
                bad = r.abort
                if not bad:
                    ent, _ = M.arg_entries(r, 0, argtys[0])
                    obj = [r.heap.get(oid) for (argi, base, oid, pty, mut, ln) in r.arg_objs if argi == 1]
                    obj = obj[0] if obj else None
                    for c in range(C):
                        for rr in range(R):
                            cell = obj.cells.get((c * R + rr) * esz) if obj else None
                            if cell is None or cell[1] is not ent[(c, rr)]:
                                bad = 'slice[%d] is not entry (col %d, row %d)' % (c * R + rr, c, rr)
                                break
                        if bad:
                            break
                    if not bad and any(o >= C * R * esz for o in obj.cells):
                        bad = 'writes beyond the first %d elements' % (C * R)
                done('R-COPY', name, bad, it)
            elif tr in ('AsRef', 'AsMut'):
                r = H.run(it['key'])
                bad = r.abort
                if not bad:
                    tg = r.interp.ptr_targets(r.ret) if isinstance(r.ret, tm.T) else []
                    selfobj = [oid for (argi, base, oid, pty, mut, ln) in r.arg_objs if argi == 0]
                    lv = [(o, s) for (o, s, lt) in leaves_plain(F, F.types[rty]['to'])]
                    exp = [(mi['off'][(c, rr)], esz) for c in range(C) for rr in range(R)]
                    if len(tg) != 1 or not selfobj or tg[0] != (selfobj[0], 0):
                        bad = 'view does not start at byte 0 of self'
                    elif lv != exp:
                        bad = 'flat view element offsets %s differ from the column-major entry offsets %s' % (lv[:6], exp[:6])
                done('R-COPY', name, bad, it)
            # -------- col / row / col_mut per constant index
            elif not tr and mname in ('col', 'row', 'col_mut') and body['argc'] == 2:
                n = C if mname != 'row' else R
                bad = None
                for i in range(n + 1):
                    r = H.run(it['key'], overrides={(1, 0): const(i, F.ptr_size)})
                    if r.abort:
                        bad = r.abort
                        break
                    if i == n:
                        if not r.diverged and not any(p.cond is tm.TRUE for p in r.panics):
                            bad = '%s(%d) does not panic' % (mname, n)
                        break
                    ent, _ = M.arg_entries(r, 0, argtys[0])
                    if r.panics:
                        bad = '%s(%d) may panic' % (mname, i)
                        break
                    if mname == 'col_mut':
                        tg = r.interp.ptr_targets(r.ret) if isinstance(r.ret, tm.T) else []
                        selfobj = [oid for (argi, base, oid, pty, mut, ln) in r.arg_objs if argi == 0]
                        vi = vec_info(F, F.types[rty]['to'])
                        ok = len(tg) == 1 and selfobj and tg[0][0] == selfobj[0] and vi is not None and vi['dim'] == R and \
                            all(tg[0][1] + vi['lanes'][rr][0] == mi['off'][(i, rr)] for rr in range(R))
                        if not ok:
                            bad = 'col_mut(%d) does not point at column %d' % (i, i)
                            break
                        continue
                    lanes = value_lanes(F, r.ret, rty)
                    exp = [ent[(i, rr)] for rr in range(R)] if mname == 'col' else [ent[(c, i)] for c in range(C)]
                    if lanes is None or len(lanes) != len(exp) or any(a is not b for a, b in zip(lanes, exp)):
                        bad = '%s(%d) is %s' % (mname, i, [tm.show(x, 0, 3) for x in (lanes or [])])
                        break
                done('R-INDEX', name, bad, it)
            elif tr in ('Deref', 'DerefMut'):
                r = H.run(it['key'])
                bad = r.abort
                if not bad:
                    tg = r.interp.ptr_targets(r.ret) if isinstance(r.ret, tm.T) else []
                    selfobj = [oid for (argi, base, oid, pty, mut, ln) in r.arg_objs if argi == 0]
                    pt = F.types[F.types[rty]['to']]
                    if len(tg) != 1 or not selfobj or tg[0] != (selfobj[0], 0):
                        bad = 'overlay does not start at byte 0 of self'
                    else:
                        fields = pt.get('fields', [])
                        axis = ['x_axis', 'y_axis', 'z_axis', 'w_axis']
                        if tname.startswith('Affine') or tname.startswith('DAffine'):
                            axis = axis[:C - 1] + ['translation'] if False else axis
                        for (o, fid, fname) in fields:
                            if fname in axis[:C]:
                                c = axis.index(fname)
                                vi = vec_info(F, fid)
                                if vi is None or any(o + vi['lanes'][rr][0] != mi['off'][(c, rr)] for rr in range(R)):
                                    bad = 'field %s of the overlay is not column %d' % (fname, c)
                        if not pt.get('repr', {}).get('c'):
                            bad = 'overlay struct is not repr(C)'
                done('R-VIEW', name, bad, it)
            elif not tr and mname == 'from_diagonal':
                r = H.run(it['key'])
                bad = r.abort
                if not bad:
                    ent = M.entries(r.ret, rty)
                    d = M.vec_arg(r, 0, argtys[0])
                    for (c, rr), g in (ent or {}).items():
                        if c == rr:
                            if g is not d[c]:
                                bad = 'diagonal entry %d is not element %d of the argument' % (c, c)
                        elif not (tm.is_const(g) and tm.cbits(g) == 0):
                            bad = 'off-diagonal entry (%d,%d) is %s, expected 0' % (c, rr, tm.show(g, 0, 3))
                    if ent is None:
                        bad = 'shape'
                done('R-COPY', name, bad, it)
            elif not tr and mname == 'transpose':
                r = H.run(it['key'])
                bad = r.abort
                if not bad:
                    ent = M.entries(r.ret, rty)
                    src, _ = M.arg_entries(r, 0, argtys[0])
                    for (c, rr), g in (ent or {}).items():
                        if g is not src[(rr, c)]:
                            bad = 'entry (col %d,row %d) of the transpose is %s, expected entry (col %d,row %d)' % (c, rr, tm.show(g, 0, 3), rr, c)
                            break
                    if ent is None:
                        bad = 'shape'
                done('R-COPY', name, bad, it)
            elif not tr and re.match(r'^from_mat\da?_minor$', mname) and body['argc'] == 3:
                smi = M.info(strip_ref(F, argtys[0])[0])
                bad = None
                if smi is None:
                    bad = 'source matrix type'
                else:
                    n = smi['cols']
                    for i in range(n + 1):
                        for j in range(n + 1):
                            if bad:
                                break
                            r = H.run(it['key'], overrides={(1, 0): const(i, F.ptr_size), (2, 0): const(j, F.ptr_size)})
                            if r.abort:
                                bad = r.abort
                                break
                            if i == n or j == n:
                                if not r.diverged and not any(p.cond is tm.TRUE for p in r.panics):
                                    bad = 'minor(%d,%d) does not panic' % (i, j)
                                continue
                            src, _ = M.arg_entries(r, 0, argtys[0])
                            ent = M.entries(r.ret, rty)
                            cs = [c for c in range(n) if c != i]
                            rs = [q for q in range(n) if q != j]
                            for c in range(n - 1):
                                for q in range(n - 1):
                                    if ent is None or ent[(c, q)] is not src[(cs[c], rs[q])]:
                                        bad = 'minor(%d,%d): entry (col %d,row %d) is %s, expected source entry (col %d,row %d)' % (
                                            i, j, c, q, tm.show(ent[(c, q)], 0, 3) if ent else None, cs[c], rs[q])
                                        break
                                if bad:
                                    break
                done('R-MINOR', name, bad, it)
            # -------- products as polynomial identities
            elif ((not tr and re.match(r'^(mul_vec\da?|transform_(point|vector)\da?)$', mname)) or (tr == 'Mul' and mname == 'mul' and vec_info(F, strip_ref(F, argtys[1])[0]) is not None and 'Affine' not in tname)) and body['argc'] == 2:
                r = H.run(it['key'])
                bad = r.abort
                if not bad:
                    ent, _ = M.arg_entries(r, 0, argtys[0])
                    v = M.vec_arg(r, 1, argtys[1])
                    lanes = value_lanes(F, r.ret, rty)
                    if v is None or lanes is None:
                        bad = 'operand/result is not a vector'
                    else:
                        affine = 'Affine' in tname
                        lin_cols = C - 1 if affine else (len(v) if mname.startswith('transform') else C)
                        point = mname.startswith('transform_point')
                        if mname.startswith('transform') and not affine:
                            continue    # Mat3/Mat4 homogeneous transforms: C11
                        for rr in range(len(lanes)):
                            exp = None
                            for c in range(lin_cols):
                                term = tm.f2('fmul', ent[(c, rr)], v[c])
                                exp = term if exp is None else tm.f2('fadd', exp, term)
                            if affine and (point or mname.startswith('mul_vec')) and not mname.startswith('transform_vector'):
                                exp = tm.f2('fadd', exp, ent[(C - 1, rr)])
                            if not poly_eq(lanes[rr], exp):
                                bad = 'row %d of the product is not sum_c M[c][%d]*v[c]%s' % (rr, rr, ' + translation' if affine and point else '')
                                break
                done('R-ALG', name, bad, it)
        # Product over iterators of affine transforms: a left fold of * from IDENTITY (generic bodies, rules/fold.py)
        import fold
        nfold = fold.check_folds(ctx, cfg, F, H, lambda tn: 'float' if tn in ('Affine2', 'Affine3A', 'DAffine2', 'DAffine3') else None, done,
                                 product_unit=lambda tn, n: {6: [1, 0, 0, 1, 0, 0], 12: [1, 0, 0, 0, 1, 0, 0, 0, 1, 0, 0, 0]}.get(n))
        ctx.floor('affine Product impls (%s)' % cfg, nfold, 4)
        # associated constants ZERO / IDENTITY / NAN of the matrix and affine types, entry by entry
        Ic = H.new_interp()
        n_const = 0
        for path, k in sorted(F.konsts.items()):
            if k['name'] not in ('ZERO', 'IDENTITY', 'NAN'):
                continue
            tyid = None
            for i_, t_ in F.types.items():
                if t_['n'] == k['self_ty']:
                    tyid = i_
                    break
            mi = M.info(tyid) if tyid is not None else None
            if mi is None:
                continue
            n_const += 1
            try:
                val = Ic.eval_const(k['v'])
            except Exception as e_:
                ctx.unverifiable('R-CONST', cfg, path, 'constant not decodable: %r' % (e_,))
                continue
            ent = M.entries(val, tyid)
            bad = None
            if ent is None:
                bad = 'constant is not a matrix value'
            else:
                lin = mi['cols'] if mi['cols'] == mi['rows'] else mi['cols'] - 1
                for (c, rr), t_ in sorted(ent.items()):
                    if not tm.is_const(t_):
                        bad = 'entry (col %d,row %d) is not a constant' % (c, rr)
                        break
                    f = tm.f_of(t_)
                    if k['name'] == 'NAN':
                        ok_ = f != f
                    elif k['name'] == 'ZERO':
                        ok_ = f == 0.0
                    else:
                        ok_ = f == (1.0 if (c == rr and c < lin) else 0.0)
                    if not ok_:
                        bad = 'entry (col %d,row %d) of %s is %r' % (c, rr, k['name'], f)
                        break
            if bad:
                ctx.violation('R-CONST', cfg, path, {'problem': bad})
            else:
                ctx.holds('R-CONST', cfg, path)
        ctx.floor('matrix / affine constants (%s)' % cfg, n_const, 33)
        # free-function constructors mat2(..) .. dmat4(..): column c of the result is argument c
        for name, it in api_roots(F):
            if it.get('trait') or it.get('self_ty') or (it.get('name') or '') not in ('mat2', 'mat3', 'mat3a', 'mat4', 'dmat2', 'dmat3', 'dmat4'):
                continue
            body = F.body(it['key'])
            if body is None:
                continue
            rty = body['locals'][0]
            mi = M.info(rty)
            r = H.run(it['key'])
            bad = r.abort
            if not bad:
                ent = M.entries(r.ret, rty) if mi else None
                if ent is None or body['argc'] != mi['cols']:
                    bad = 'result is not a matrix built from one argument per column'
                else:
                    for c in range(mi['cols']):
                        v = M.vec_arg(r, c, body['locals'][1 + c])
                        for rr in range(mi['rows']):
                            if v is None or ent[(c, rr)] is not v[rr]:
                                bad = 'entry (col %d,row %d) is not element %d of argument %d' % (c, rr, rr, c)
                                break
                        if bad:
                            break
            done('R-COPY', name, bad, it)
        # (A*B)*v = A*(B*v): every matrix/affine product operator yields the homogeneous matrix product of its operands
        from spec import Spec
        from C05 import embed
        from lift import result_of
        for name, it in api_roots(F):
            tr = (it.get('trait') or '').rsplit('::', 1)[-1]
            mname = it.get('name') or ''
            body = F.body(it['key'])
            if body is None or body['argc'] != 2:
                continue
            argtys = body['locals'][1:3]
            infos = [M.info(strip_ref(F, a)[0]) for a in argtys]
            if any(i is None for i in infos):
                continue
            if not (tr in ('Mul', 'MulAssign') or (not tr and re.match(r'^mul_mat\d$', mname))):
                continue
            r = H.run(it['key'])
            if r.abort or r.panics:
                done('R-COMPOSE', name, r.abort or 'reachable panic site in a matrix product', it)
                continue
            alg = nf.Algebra()
            S = Spec(alg)
            kres, oty, val = result_of(F, r, body)
            dmi = M.info(oty)
            dst = M.entries(val, oty) if val is not None else None
            if dmi is None or dst is None:
                ctx.unverifiable('R-COMPOSE', cfg, name, 'result of a matrix product is not a matrix')
                continue
            dst = {k: alg.nf(v_) for k, v_ in dst.items()}
            ops = []
            for i, aty in enumerate(argtys):
                e, mi_ = M.arg_entries(r, i, aty)
                ops.append(({k: alg.nf(v_) for k, v_ in e.items()}, mi_))
            n = max(max(mi_['cols'], mi_['rows']) for (_, mi_) in ops)
            emb = [embed(S, e, mi_['cols'], mi_['rows'], n) for (e, mi_) in ops]
            exp = S.matmul(emb[0], emb[1], n)
            got = embed(S, dst, dmi['cols'], dmi['rows'], n)
            bad = None
            for k in sorted(exp):
                if not S.eq(got[k], exp[k]):
                    bad = 'entry (col %d,row %d) of A*B is not sum_k A[k][row]*B[col][k] (homogeneous embedding), so (A*B)*v differs from A*(B*v)' % k
                    break
            done('R-COMPOSE', name, bad, it)
        ctx.floor('matrix product operators (%s)' % cfg, counts.get('R-COMPOSE', 0), 36)
        ctx.floor('matrix / affine types (%s)' % cfg, len(types), 11)
        for k, v in sorted(counts.items()):
            ctx.count('%s:%s' % (k, cfg), v)
        ctx.floor('convention instances (%s)' % cfg, sum(counts.values()), 140)
    ctx.extra['exhaustive'] = True
