"""C01 - element-wise float vector ops equal the per-lane IEEE primitive on every backend.

R-LIFT: for every float vector type and every lane-wise operation, on every backend that type-checks
here (sse2, sse2+fma, scalar, core-simd, libm; thorough: neon, wasm32): result lane j is lane 0 with the
lane-0 operands replaced by the lane-j operands, and lane 0 is the term of the same-named f32/f64 primitive
run through the same engine (equal as IEEE values; min/max on non-NaN lanes; NaN matches NaN).
The SSE2 integer round-trip trunc / floor / ceil (and round, fract, fract_gl built on them) are decided through five stated IEEE facts
(rules/lift.py F1-F5): the guard constant must lie in [2^23, 2^31] and the adjusted value, which touches x only through comparisons with
trunc(x), is decided per ordering (x < trunc x, x > trunc x, x = trunc x) - a wrong constant or comparison is a VIOLATION naming the input
class, an unknown algorithm shape is UNDECIDED and trips the floor.  libm routines are mapped name-to-name, not shown numerically equal to std.
The six comparisons return mask lane i = the primitive comparison of lane i (false on NaN except ne); Sum / Product are left folds (R-FOLD)."""
import re
import terms as tm
import tables
from terms import mk, ite, const
import lift
from lift import ArgView, value_lanes, result_of, check_uniform, oracle_call, prim_paths, canon_float, flatten_aci, strip_ref, int_roundtrip_rewrite
from common import api_roots, vec_info, tydef, atom_at, cell_term, TRUSTED_COMMON
from runner import norm_def_path

LEVEL = 'other'
TECHNIQUE = 'lane-uniformity by substitution + same-named-primitive agreement over rustc MIR on 5-7 backend configurations (abstract interpretation, all inputs)'
EXPLANATION = ('Structural clause of C01 decided for all inputs: every lane-wise float operation routes lane i of its operands through exactly the '
               'named IEEE primitive into lane i, on every backend (NEON and wasm32 by type-checking their sources against the target and using the '
               'intrinsic semantics table).  The SSE2 integer round-trip trunc/floor/ceil/round algorithms are decided by an ordering case analysis resting on five stated IEEE facts; the six comparisons are the primitive comparisons per lane; Sum/Product are left folds of + / *.  '
               'Not decided: numeric equality of the libm routines with std.')
LEVEL_NOTE = ('Decides the lane schema for all inputs; libm accuracy is not claimed. Trusted: IEEE facts F1-F5 of rules/lift.py, round-via-trunc identity, rustc MIR/layout, intrinsic table, IEEE-exact rewrites, '
              'and the equivalences the property itself grants (-0 == +0, NaN == NaN, min/max on non-NaN lanes).')

CONFIGS_QUICK = ['sse2', 'sse2-fma', 'sse41', 'scalar', 'coresimd', 'libm', 'neon', 'wasm32']
CONFIGS_THOROUGH = ['sse2', 'sse2-fma', 'sse41', 'scalar', 'coresimd', 'libm', 'neon', 'wasm32']
FLOAT_TYPES = {'Vec2': 'f32', 'Vec3': 'f32', 'Vec3A': 'f32', 'Vec4': 'f32', 'DVec2': 'f64', 'DVec3': 'f64', 'DVec4': 'f64'}
OP_TRAITS = {'Add', 'Sub', 'Mul', 'Div', 'Rem', 'Neg', 'AddAssign', 'SubAssign', 'MulAssign', 'DivAssign', 'RemAssign'}
SAME_NAMED = {'abs', 'signum', 'copysign', 'min', 'max', 'floor', 'ceil', 'trunc', 'round', 'fract', 'recip', 'mul_add', 'exp', 'powf',
              'div_euclid', 'rem_euclid'}
CMP6 = {'cmpeq': 'eq', 'cmpne': 'ne', 'cmplt': 'lt', 'cmple': 'le', 'cmpgt': 'gt', 'cmpge': 'ge'}
EXPLICIT = {'clamp', 'fract_gl', 'is_nan_mask', 'is_finite_mask'}
REDUCE = {'is_nan', 'is_finite', 'is_negative_bitmask', 'abs_diff_eq', 'eq', 'ne', 'min_element', 'max_element', 'min_position', 'max_position'}
# SSE2 operations implemented by the integer round-trip algorithms (decided through rules/lift.py int_roundtrip_rewrite)
OPAQUE_SSE2 = {'floor', 'ceil', 'trunc', 'round', 'fract', 'fract_gl'}
FLOOR_LANEWISE = 560   # measured per config when armed
FLOOR_REDUCE = 60


def backend_of(F, cfg):
    if cfg.startswith('sse') or cfg in ('libm', 'fastmath'):
        return 'sse2'
    return cfg


def float_roots(F):
    for name, it in api_roots(F):
        st = (it.get('self_ty') or '').lstrip('&').replace('mut ', '')
        tn = st.rsplit('::', 1)[-1]
        if tn in FLOAT_TYPES:
            yield name, it, tn, FLOAT_TYPES[tn]
        elif st in ('f32', 'f64') and it.get('trait') and re.search(r'::(Vec[234]A?|DVec[234])\b', name):
            m = re.search(r'::(Vec[234]A?|DVec[234])\b', name)
            yield name, it, m.group(1), st


def prim(I, F, w, pname, args, trait=None):
    for path in prim_paths(w, pname, trait):
        tg = None
        if '|' in path:
            path, tg = path.split('|')
        r = oracle_call(I, F, path, args, tg)
        if r is not None:
            return r
    # configurations that never call the std primitive (libm / no_std builds): use the vocabulary symbol of the
    # leaf table directly, and the definitional expansions of the composite std methods
    if trait is None:
        sz = 4 if w == 'f32' else 8
        if pname == 'signum':
            return ite(tm.f2('fne', args[0], args[0]), tm.fconst(float('nan'), sz), mk('copysign', tm.fconst(1.0, sz), args[0]))
        if pname == 'recip':
            return tm.f2('fdiv', tm.fconst(1.0, sz), args[0])
        zero, one = tm.fconst(0.0, sz), tm.fconst(1.0, sz)
        if pname == 'div_euclid':
            # definition in core: q = (a / b).trunc(); if a % b < 0 { if b > 0 { q - 1 } else { q + 1 } } else { q }
            x, y = args
            q = mk('trunc', tm.f2('fdiv', x, y))
            return ite(tm.f2('flt', tm.f2('frem', x, y), zero), ite(tm.f2('flt', zero, y), tm.f2('fsub', q, one), tm.f2('fadd', q, one)), q)
        if pname == 'rem_euclid':
            x, y = args
            r_ = tm.f2('frem', x, y)
            return ite(tm.f2('flt', r_, zero), tm.f2('fadd', r_, tm.f1('fabs', y)), r_)
        fn = I.leaf.get('core::%s::<impl %s>::%s' % (w, w, pname))
        if fn is not None:
            return fn(I, None, {'d': 'core::%s::<impl %s>::%s' % (w, w, pname), 'cg': [], 'tg': []}, list(args), None, [], 0)
    else:
        base = pname[:-7] if pname.endswith('_assign') else pname
        op = {'add': 'fadd', 'sub': 'fsub', 'mul': 'fmul', 'div': 'fdiv', 'rem': 'frem'}.get(base)
        if op is not None and len(args) == 2:
            return tm.f2(op, args[0], args[1])
        if base == 'neg':
            return tm.f1('fneg', args[0])
    return None


def run(ctx):
    configs = ctx.need(CONFIGS_QUICK if ctx.tier == 'quick' else CONFIGS_THOROUGH)
    ctx.trusted = TRUSTED_COMMON + ['equivalences granted by C01 itself: -0 == +0, NaN == NaN, min/max only on non-NaN lanes']
    for cfg in configs:
        F = ctx.facts(cfg)
        H = ctx.harness(cfg)
        be = backend_of(F, cfg)
        n_lane = n_red = n_rt = 0
        types = set()
        for name, it, tn, w in float_roots(F):
            mname = it.get('name') or ''
            tr = (it.get('trait') or '').rsplit('::', 1)[-1]
            is_op = tr in OP_TRAITS
            if not is_op and (it.get('trait') and not (tr == 'PartialEq')):
                continue
            if not is_op and mname not in SAME_NAMED and mname not in EXPLICIT and mname not in REDUCE:
                continue
            types.add(tn)
            simd_type = tn in ('Vec3A', 'Vec4') and be != 'scalar'
            r = H.run(it['key'])
            if r.abort:
                ctx.unverifiable('R-LIFT', cfg, name, 'not analysable: %s' % r.abort)
                continue
            body = F.body(it['key'])
            views = [ArgView(F, r, i, body['locals'][i + 1]) for i in range(body['argc'])]
            I = r.interp
            where = {'file': it['file'], 'line': it['line']}
            if r.panics:
                ctx.violation('R-LIFT', cfg, name, dict(where, problem='float operation has a reachable panic site: %r' % (r.panics[0],)))
                continue
            vviews = [v for v in views if v.kind == 'vec']
            if not vviews or any(v.lanes is None or any(a is None for a in v.lanes) for v in views if v.kind in ('vec', 'scalar')):
                ctx.unverifiable('R-LIFT', cfg, name, 'operand lanes not found')
                continue
            N = vviews[0].dim
            lane_args = lambda j: [v.lanes[j] if v.kind == 'vec' else v.lanes[0] for v in views if v.kind in ('vec', 'scalar')]
            if mname in REDUCE and not is_op:
                n_red += 1
                verdict, msg = check_reduce(I, F, mname, w, views, r, N)
                if verdict == 'HOLDS':
                    ctx.holds('R-REDUCE', cfg, name)
                elif verdict == 'VIOLATION':
                    ctx.violation('R-REDUCE', cfg, name, dict(where, problem=msg))
                else:
                    ctx.unverifiable('R-REDUCE', cfg, name, msg)
                continue
            kind, rty, val = result_of(F, r, body)
            lanes = value_lanes(F, val, rty) if val is not None else None
            if lanes is None or len(lanes) != N:
                ctx.unverifiable('R-LIFT', cfg, name, 'result is not a vector of the operand dimension')
                continue
            n_lane += 1
            ok, msg = check_uniform(views, lanes)
            if not ok:
                ctx.violation('R-LIFT', cfg, name, dict(where, problem='not lane-uniform: ' + msg))
                continue
            a0 = lane_args(0)
            if is_op:
                exp = prim(I, F, w, mname, a0, it.get('trait'))
                src = '<%s as %s>::%s' % (w, tr, mname)
            elif mname == 'clamp':
                lo = prim(I, F, w, 'max', [a0[0], a0[1]])
                exp = prim(I, F, w, 'min', [lo, a0[2]]) if lo is not None else None
                src = 'min(max(x, lo), hi)'
            elif mname == 'fract_gl':
                fl = prim(I, F, w, 'floor', [a0[0]])
                exp = tm.f2('fsub', a0[0], fl) if fl is not None else None
                src = 'x - floor(x)'
            elif mname == 'fract':
                tr_ = prim(I, F, w, 'trunc', [a0[0]])
                exp = tm.f2('fsub', a0[0], tr_) if tr_ is not None else None
                src = 'x - trunc(x)'
            elif mname == 'is_nan_mask':
                exp = tm.f2('fne', a0[0], a0[0])
                src = 'x != x'
            elif mname == 'is_finite_mask':
                exp = prim(I, F, w, 'is_finite', [a0[0]])
                src = 'is_finite'
            else:
                exp = prim(I, F, w, mname, a0)
                src = '%s::%s' % (w, mname)
            if exp is None or not isinstance(exp, tm.T):
                ctx.unverifiable('R-LIFT', cfg, name, 'lane-uniform, but the primitive %s was not found in the facts' % src)
                continue
            got = lanes[0]
            rt = simd_type and be == 'sse2' and mname in OPAQUE_SSE2
            if rt:
                del lift.RT_DIAG[:]
                got = int_roundtrip_rewrite(got)
            if got is exp or canon_float(got) is canon_float(exp):
                if rt:
                    n_rt += 1
                ctx.holds('R-LIFT', cfg, name, src)
                if n_lane % 150 == 7:
                    ctx.sample({'config': cfg, 'fn': name, 'lane0': tm.show(got, 0, 5)[:160], 'primitive': src})
                continue
            # value-equal alternatives the property itself grants ("-0 equals +0", clamp only for min <= max)
            alts = []
            sz_ = 4 if w == 'f32' else 8
            if mname == 'clamp':
                hi_ = prim(I, F, w, 'min', [a0[0], a0[2]])
                if hi_ is not None:
                    alts.append(prim(I, F, w, 'max', [hi_, a0[1]]))          # max(min(x, hi), lo): the same value whenever lo <= hi
            if is_op and mname == 'neg':
                alts.append(tm.f2('fadd', tm.fconst(0.0, sz_), tm.f1('fneg', a0[0])))   # 0 - x: differs from -x only in the sign of zero
            if mname == 'abs':
                alts.append(tables.sse_max(tm.f1('fneg', a0[0]), a0[0]))       # max(-x, x): |x| up to the sign of zero
                alts.append(tables.sse_max(a0[0], tm.f1('fneg', a0[0])))
            if any(a_ is not None and (got is a_ or canon_float(got) is canon_float(a_)) for a_ in alts):
                ctx.holds('R-LIFT', cfg, name, src + ' (value-equal form)')
                continue
            # not the primitive's term
            base = mname if not is_op else tr
            if mname == 'round':
                # trusted identity (DESIGN 3.4.1 addendum): round(x) == trunc(x) + (|x - trunc(x)| >= 0.5 ? copysign(1, x) : 0)
                # for every x up to -0 == +0 (x - trunc(x) is exact; |x| >= 2^23, inf and NaN pass through)
                sz = 4 if w == 'f32' else 8
                x = a0[0]
                T_ = mk('trunc', x)
                alt = tm.f2('fadd', T_, ite(tm.f2('fle', tm.fconst(0.5, sz), tm.f1('fabs', tm.f2('fsub', x, T_))), mk('copysign', tm.fconst(1.0, sz), x), tm.fconst(0.0, sz)))
                if got is alt:
                    if rt:
                        n_rt += 1
                    ctx.holds('R-LIFT', cfg, name, 'round via trunc identity')
                    continue
            if mname == 'round' and is_magic_round(got):
                ctx.violation('R-LIFT', cfg, name, dict(where, problem='round() is the magic-number idiom (v + copysign(2^23, v)) - copysign(2^23, v): rounds ties to even, the primitive f32::round rounds ties away from zero (2.5 -> 2 instead of 3)', lane0=tm.show(got, 0, 6)[:300]))
                continue
            if rt and lift.RT_DIAG:
                ctx.violation('R-LIFT', cfg, name, dict(where, problem='SSE2 %s is an integer round-trip algorithm that is not %s: %s' % (mname, src, lift.RT_DIAG[0]), lane0=tm.show(lanes[0], 0, 6)[:300]))
                continue
            if rt and 'x86:cvttps_epi32' in tm.show(lanes[0], 0, 40):
                ctx.undecided('R-LIFT', cfg, name, 'SSE2 %s is an integer round-trip algorithm of a shape the recogniser (facts F1-F5, rules/lift.py) does not know; numeric equality with %s is not decided' % (mname, src))
                continue
            definite = tm.depth(canon_float(got)) <= 3 and tm.depth(canon_float(exp)) <= 3
            detail = dict(where, problem='lane schema is not the primitive %s' % src, lane0=tm.show(canon_float(got), 0, 6)[:300], primitive_term=tm.show(canon_float(exp), 0, 6)[:300],
                          definite='both sides are short compositions of vocabulary primitives that differ' if definite else 'composite terms differ')
            ctx.violation('R-LIFT', cfg, name, detail)
        if be == 'sse2':
            ctx.floor('SSE2 floor/ceil/trunc/round/fract operations decided (%s)' % cfg, n_rt, 12)
        ctx.floor('lane-wise float operations (%s)' % cfg, n_lane, FLOOR_LANEWISE)
        ctx.floor('float reductions / predicates (%s)' % cfg, n_red, FLOOR_REDUCE)
        ctx.floor('float vector types (%s)' % cfg, len(types), 7)
        # the six comparisons: mask lane i is the primitive comparison of lane i (false on NaN except ne)
        n_cmp = 0
        for name, it, tn, w in float_roots(F):
            mname = it.get('name') or ''
            if it.get('trait') or mname not in CMP6:
                continue
            body = F.body(it['key'])
            if body is None or body['argc'] != 2:
                continue
            n_cmp += 1
            r = H.run(it['key'])
            if r.abort:
                ctx.unverifiable('R-LIFT', cfg, name, 'not analysable: %s' % r.abort)
                continue
            views = [ArgView(F, r, i, body['locals'][i + 1]) for i in range(2)]
            lanes = value_lanes(F, r.ret, body['locals'][0])
            bad = None
            if r.panics:
                bad = 'comparison has a reachable panic site'
            elif lanes is None or views[0].kind != 'vec' or views[1].kind != 'vec' or len(lanes) != views[0].dim:
                bad = 'result is not a mask with one lane per element'
            else:
                for i in range(views[0].dim):
                    exp = tm.f2('f' + CMP6[mname], views[0].lanes[i], views[1].lanes[i])
                    if lanes[i] is not exp:
                        bad = 'mask lane %d is %s, expected the primitive %s' % (i, tm.show(lanes[i], 0, 4)[:160], tm.show(exp, 0, 4))
                        break
            if bad:
                ctx.violation('R-LIFT', cfg, name, {'file': it['file'], 'line': it['line'], 'problem': bad})
            else:
                ctx.holds('R-LIFT', cfg, name)
        ctx.floor('comparison operations (%s)' % cfg, n_cmp, 42)
        # Sum / Product over iterators are left folds of + / * (generic bodies)
        import fold

        def _done(rule, name, bad, it):
            if bad:
                ctx.violation(rule, cfg, name, {'file': it['file'], 'line': it['line'], 'problem': bad})
            else:
                ctx.holds(rule, cfg, name)
        nf_ = fold.check_folds(ctx, cfg, F, H, lambda tn: 'float' if tn in FLOAT_TYPES else None, _done)
        ctx.floor('Sum / Product impls of float vectors (%s)' % cfg, nf_, 28)
        # math shim: every f32::math / f64::math function is one call of the same-named primitive
        check_shim(ctx, cfg, F, H)
    ctx.extra['exhaustive'] = True


def is_magic_round(t):
    """known-inequivalence entry: DirectXMath XMVectorRound idiom, selected on |v| <= 2^23"""
    seen = set()
    st = [t]
    while st:
        x = st.pop()
        if x.id in seen:
            continue
        seen.add(x.id)
        if x.op == 'fadd' and len(x.args) == 2:
            for p, q in ((x.args[0], x.args[1]), (x.args[1], x.args[0])):
                if q.op == 'fneg' and q.args[0].op == 'copysign' and p.op == 'fadd' and q.args[0] in p.args:
                    m = q.args[0]
                    if tm.is_const(m.args[0]) and tm.f_of(m.args[0]) == 8388608.0:
                        return True
        st.extend(a for a in x.args if isinstance(a, tm.T))
    return False


def check_reduce(I, F, name, w, views, r, N):
    a = views[0].lanes
    b = views[1].lanes if len(views) > 1 and views[1].kind == 'vec' else None
    res = r.ret
    sz = 4 if w == 'f32' else 8
    if name == 'is_nan':
        exp = tm.b_or(*[tm.f2('fne', x, x) for x in a])
        return ('HOLDS', '') if res is exp else ('VIOLATION', 'is_nan is %s' % tm.show(res, 0, 4)[:200])
    if name == 'is_finite':
        inf = tm.fconst(float('inf'), sz)
        exp = tm.b_and(*[tm.f2('flt', tm.f1('fabs', x), inf) for x in a])
        return ('HOLDS', '') if res is exp else ('VIOLATION', 'is_finite is %s, expected all %d lanes |x| < inf' % (tm.show(res, 0, 4)[:200], N))
    if name == 'is_negative_bitmask':
        nb = 8 * F.types[r.ret_ty]['sz']
        exp = tm.mk_bits([tm.signbit(x) for x in a] + [tm.FALSE] * (nb - N))
        return ('HOLDS', '') if res is exp else ('VIOLATION', 'bitmask is %s' % tm.show(res, 0, 3)[:200])
    if name in ('eq', 'ne'):
        if b is None:
            return ('UNVERIFIABLE', 'rhs lanes')
        exp = tm.b_and(*[tm.f2('feq', x, y) for x, y in zip(a, b)])
        if name == 'ne':
            exp = tm.b_not(exp)
        return ('HOLDS', '') if res is exp or tm.b_not(res) is tm.b_not(exp) else ('VIOLATION', '%s is %s, expected %s' % (name, tm.show(res, 0, 4)[:200], tm.show(exp, 0, 4)[:200]))
    if name == 'abs_diff_eq':
        eps = [v for v in views if v.kind == 'scalar'][0].lanes[0]
        exp = tm.b_and(*[tm.f2('fle', tm.f1('fabs', tm.f2('fsub', x, y)), eps) for x, y in zip(a, b)])
        return ('HOLDS', '') if res is exp else ('VIOLATION', 'abs_diff_eq is %s, expected %s' % (tm.show(res, 0, 5)[:240], tm.show(exp, 0, 5)[:240]))
    if name in ('min_element', 'max_element'):
        c = canon_float(res)
        op = 'fmin~' if name == 'min_element' else 'fmax~'
        leaves = flatten_aci(c, op)
        if leaves == set(a):
            return ('HOLDS', '')
        return ('VIOLATION', '%s ranges over %s instead of exactly the %d lanes' % (name, sorted(tm.show(x, 0, 3) for x in leaves)[:6], N))
    if name in ('min_position', 'max_position'):
        cur, idx = a[0], const(0, F.ptr_size)
        for i in range(1, N):
            c = tm.f2('flt', a[i], cur) if name == 'min_position' else tm.f2('flt', cur, a[i])
            idx = ite(c, const(i, F.ptr_size), idx)
            cur = ite(c, a[i], cur)
        if res is idx or canon_float(res) is canon_float(idx):
            return ('HOLDS', '')
        return ('VIOLATION', 'position %s is not the first-extremum chain %s' % (tm.show(canon_float(res), 0, 6)[:240], tm.show(canon_float(idx), 0, 6)[:240]))
    return ('UNVERIFIABLE', 'unknown reduction')


def check_shim(ctx, cfg, F, H):
    """f32::math / f64::math wrappers: the body is a single call whose callee has the same name
    (std primitive, or libm::<name>[f]) with the arguments in order"""
    n = 0
    for name, it in F.items.items():
        m = re.match(r'^(f32|f64)::math::(?:\w+::)*(\w+)$', name)
        if not m or it['generic']:
            continue
        w, fn = m.group(1), m.group(2)
        body = F.body(it['key'])
        if body is None:
            continue
        calls = []
        for bb in body['blocks']:
            if bb is not None and bb['t'][0] == 'call' and 'd' in bb['t'][1]:
                calls.append(bb['t'][1]['d'])
        n += 1
        base = [c.rsplit('::', 1)[-1] for c in calls]
        ok_names = {fn, fn + 'f', 'f' + fn, 'f' + fn + 'f'}
        if fn == 'powf':
            ok_names |= {'pow', 'powf'}
        if fn == 'sin_cos':
            ok_names |= {'sincos', 'sincosf', 'sin', 'cos', 'sinf', 'cosf'}
        if fn == 'abs':
            ok_names |= {'fabs', 'fabsf'}
        if fn == 'mul_add':
            ok_names |= {'fma', 'fmaf'}
        if fn in ('acos_approx', 'acos_approx_f32', 'acos_approx_f64', 'signum', 'div_euclid', 'rem_euclid', 'inv_sqrt', 'lerp'):
            ctx.count('math_shim_composite:' + cfg)
            continue
        if len(calls) >= 1 and all(b in ok_names for b in base):
            ctx.holds('R-SHIM', cfg, name, calls[0])
        else:
            ctx.violation('R-SHIM', cfg, name, {'file': it['file'], 'line': it['line'], 'problem': 'math shim %s::%s calls %s' % (w, fn, calls)})
    ctx.floor('math shim functions (%s)' % cfg, n, 30)
