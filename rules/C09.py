"""C09 - rotation constructors and all 24 Euler orders follow the documented conventions.

R-ALG with per-variant partial evaluation: from_rotation_x/y/z, from_angle, from_axis_angle (Rodrigues) on every matrix /
affine / quaternion type equal the reference elementary rotations over the atoms sin(t), cos(t) (half angles for
quaternions); from_euler(order, a, b, c) for each of the 24 EulerRot variants (the enum argument is specialised to each
constant) equals the product of the three elementary rotations in the order spelled by the variant (Ex reversed),
for Mat3/Mat3A/Mat4/DMat3/DMat4 and Quat/DQuat - polynomial identities in six atoms.
Not decided: to_euler / to_axis_angle / to_scaled_axis inversion and its error growth near gimbal lock."""
import re
import terms as tm
import nf
from nf import Poly, ONE
from spec import Spec
from matmodel import MatModel, DIMS
from lift import value_lanes, strip_ref, ArgView
from common import api_roots, vec_info, tydef, atom_at, TRUSTED_COMMON

LEVEL = 'other'
TECHNIQUE = 'exhaustive partial evaluation over the 24 EulerRot variants + polynomial identity checking over sin/cos atoms (MIR abstract interpretation)'
EXPLANATION = ('For all angles and axes, every rotation constructor is decided to be the documented right-handed rotation (Rodrigues / elementary matrices / half-angle quaternions) '
               'and every one of the 24 x 7 from_euler instances equals the documented product of single-axis rotations, as exact identities in sin/cos atoms. '
               'The inverse direction (to_euler, to_axis_angle) involves inverse trigonometric numerics and is not decided.')
LEVEL_NOTE = 'Decides the constructor clause for all inputs; the decomposition (to_*) clause is numeric and not claimed. Trusted: rustc MIR, intrinsic table, rules/spec.py, sin^2+cos^2=1.'

CONFIGS_QUICK = ['sse2', 'scalar']
CONFIGS_THOROUGH = ['sse2', 'scalar', 'coresimd', 'neon', 'wasm32']
ROT3 = {'Mat3', 'Mat3A', 'Mat4', 'DMat3', 'DMat4', 'Affine3A', 'DAffine3'}
QUATS = {'Quat', 'DQuat'}
AXIS = {'X': 0, 'Y': 1, 'Z': 2}


def block_ok(S, alg, ent, R3, cols, rows, where):
    """ent: {(c,r): rat}; rotation block == R3, homogeneous remainder == identity / zero translation"""
    for c in range(cols):
        for r in range(rows):
            if c < 3 and r < 3:
                exp = R3[(c, r)]
            else:
                exp = S.c(1) if (c == r) else S.c(0)
            if not S.eq(ent[(c, r)], exp):
                return '%s: entry (col %d,row %d) is %s' % (where, c, r, ent[(c, r)][0].show(alg.name, 8))
    return None


def run(ctx):
    configs = ctx.need(CONFIGS_QUICK if ctx.tier == 'quick' else CONFIGS_THOROUGH)
    ctx.trusted = TRUSTED_COMMON + ['reference mathematics rules/spec.py (elementary rotations, Rodrigues, Hamilton product)', 'sin(t)^2 + cos(t)^2 = 1']
    for cfg in configs:
        F = ctx.facts(cfg)
        H = ctx.harness(cfg)
        M = MatModel(F, H)
        counts = {}
        euler_types = set()

        def done(rule, name, bad, it, note=None):
            counts[rule] = counts.get(rule, 0) + 1
            if bad:
                ctx.violation(rule, cfg, name, {'file': it['file'], 'line': it['line'], 'problem': bad})
            else:
                ctx.holds(rule, cfg, name, note)

        for name, it in api_roots(F):
            st = (it.get('self_ty') or '').lstrip('&')
            tname = st.rsplit('::', 1)[-1]
            mname = it.get('name') or ''
            if it.get('trait') or tname not in (ROT3 | QUATS | {'Mat2', 'DMat2', 'Affine2', 'DAffine2'}):
                continue
            body = F.body(it['key'])
            argtys = body['locals'][1:1 + body['argc']]
            rty = body['locals'][0]
            m = re.match(r'^from_rotation_([xyz])$', mname)
            if m or mname in ('from_axis_angle', 'from_angle'):
                r = H.run(it['key'])
                if r.abort or r.panics:
                    done('R-ALG', name, r.abort or 'reachable panic %r' % (r.panics[0],), it)
                    continue
                alg = nf.Algebra()
                S = Spec(alg)
                bad = None
                if tname in QUATS:
                    lanes = value_lanes(F, r.ret, rty)
                    ang = alg.nf(atom_at(r, body['argc'] - 1, 0))
                    half = S.div(ang, S.c(2))
                    s_, c_ = alg.sin_r(half), alg.cos_r(half)
                    if m:
                        ax = [S.c(1) if i == 'xyz'.index(m.group(1)) else S.c(0) for i in range(3)]
                    else:
                        av = ArgView(F, r, 0, argtys[0])
                        ax = [alg.nf(x) for x in av.lanes]
                    exp = [S.mul(ax[0], s_), S.mul(ax[1], s_), S.mul(ax[2], s_), c_]
                    for i in range(4):
                        if lanes is None or not S.eq(alg.nf(lanes[i]), exp[i]):
                            bad = 'component %s is not (axis*sin(t/2), cos(t/2))' % 'xyzw'[i]
                            break
                else:
                    mi = M.info(rty)
                    ent = M.entries(r.ret, rty)
                    if mi is None or ent is None:
                        ctx.unverifiable('R-ALG', cfg, name, 'result is not a matrix')
                        continue
                    ent = {k: alg.nf(v) for k, v in ent.items()}
                    ang = alg.nf(atom_at(r, body['argc'] - 1, 0))
                    s_, c_ = alg.sin_r(ang), alg.cos_r(ang)
                    if mname == 'from_angle':
                        R2 = {(0, 0): c_, (0, 1): s_, (1, 0): S.neg(s_), (1, 1): c_}
                        for c in range(mi['cols']):
                            for rr in range(mi['rows']):
                                exp = R2[(c, rr)] if (c < 2 and rr < 2) else (S.c(1) if c == rr else S.c(0))
                                if not S.eq(ent[(c, rr)], exp):
                                    bad = 'from_angle: entry (col %d,row %d) is %s' % (c, rr, ent[(c, rr)][0].show(alg.name, 6))
                    else:
                        if m:
                            R3 = S.rot_axis('xyz'.index(m.group(1)), s_, c_)
                        else:
                            av = ArgView(F, r, 0, argtys[0])
                            R3 = S.rodrigues([alg.nf(x) for x in av.lanes[:3]], s_, c_)
                        if tname in ('Mat2', 'DMat2', 'Affine2', 'DAffine2'):
                            continue
                        bad = block_ok(S, alg, ent, R3, mi['cols'], mi['rows'], mname)
                done('R-ALG', name, bad, it)
            elif mname == 'from_euler' and tname in (ROT3 | QUATS):
                euler_types.add(tname)
                nvar = 0
                for (label, r) in H.run_all(it['key']):
                    nvar += 1
                    inst = '%s[%s]' % (name, label)
                    if r.abort or r.panics:
                        done('R-EULER', inst, r.abort or 'reachable panic %r' % (r.panics[0],), it)
                        continue
                    alg = nf.Algebra()
                    S = Spec(alg)
                    letters = label[:3]
                    ex = label.endswith('Ex')
                    angs = [alg.nf(atom_at(r, i, 0)) for i in (1, 2, 3)]
                    bad = None
                    if tname in QUATS:
                        qs = []
                        for L, ang in zip(letters, angs):
                            half = S.div(ang, S.c(2))
                            s_, c_ = alg.sin_r(half), alg.cos_r(half)
                            q = [S.c(0), S.c(0), S.c(0), c_]
                            q[AXIS[L]] = s_
                            qs.append(q)
                        if ex:
                            qs = qs[::-1]
                        exp = S.hamilton(S.hamilton(qs[0], qs[1]), qs[2])
                        lanes = value_lanes(F, r.ret, rty)
                        for i in range(4):
                            if lanes is None or not S.eq(alg.nf(lanes[i]), exp[i]):
                                bad = 'component %s is not the product of the elementary quaternions %s%s' % ('xyzw'[i], letters, ' reversed' if ex else '')
                                break
                    else:
                        mi = M.info(rty)
                        ent = M.entries(r.ret, rty)
                        if mi is None or ent is None:
                            bad = 'result is not a matrix'
                        else:
                            ent = {k: alg.nf(v) for k, v in ent.items()}
                            Rs = [S.rot_axis(AXIS[L], alg.sin_r(ang), alg.cos_r(ang)) for L, ang in zip(letters, angs)]
                            if ex:
                                Rs = Rs[::-1]
                            R3 = S.matmul(S.matmul(Rs[0], Rs[1], 3), Rs[2], 3)
                            bad = block_ok(S, alg, ent, R3, mi['cols'], mi['rows'], 'from_euler(%s)' % label)
                    done('R-EULER', inst, bad, it)
                if nvar != 24:
                    ctx.unverifiable('R-EULER', cfg, name, 'expected 24 EulerRot variants, specialised %d' % nvar)
        ctx.floor('types with from_euler (%s)' % cfg, len(euler_types), 7)
        ctx.floor('from_euler variant instances (%s)' % cfg, counts.get('R-EULER', 0), 168)
        ctx.floor('rotation constructor instances (%s)' % cfg, counts.get('R-ALG', 0), 40)
        for k, v in sorted(counts.items()):
            ctx.count('%s:%s' % (k, cfg), v)
    ctx.extra['exhaustive'] = True
