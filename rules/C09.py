"""C09 - rotation constructors and all 24 Euler orders follow the documented conventions.

R-ALG with per-variant partial evaluation: from_rotation_x/y/z, from_angle, from_axis_angle (Rodrigues) on every matrix /
affine / quaternion type equal the reference elementary rotations over the atoms sin(t), cos(t) (half angles for
quaternions); from_euler(order, a, b, c) for each of the 24 EulerRot variants (the enum argument is specialised to each
constant) equals the product of the three elementary rotations in the order spelled by the variant (Ex reversed),
for Mat3/Mat3A/Mat4/DMat3/DMat4 and Quat/DQuat - polynomial identities in six atoms.
R-INV-EULER: to_euler of Mat3 / Mat3A / DMat3, for each of the 24 orders, inverts the reference rotation on the regular branch (each component is
+-atan2 of operands proportional to (sin, cos) of its own angle with a factor that is positive on the principal range).  R-INV-AXIS: to_axis_angle is
(v/|v|, 2 atan2(|v|, w)) and rebuilds q under |q| = 1; to_scaled_axis = axis * angle.
Not decided: error growth near gimbal lock / small angles, the conventional values chosen at the singularities, Quat / Mat4 to_euler delegation."""
_X = """"""
import re
import terms as tm
import nf
from nf import Poly, ONE
from spec import Spec
from matmodel import MatModel, DIMS
from lift import value_lanes, strip_ref, ArgView
from common import api_roots, vec_info, tydef, atom_at, cell_term, const_value, const_width, TRUSTED_COMMON

LEVEL = 'other'
TECHNIQUE = 'exhaustive partial evaluation over the 24 EulerRot variants + polynomial identity checking over sin/cos atoms (MIR abstract interpretation)'
EXPLANATION = ('For all angles and axes, every rotation constructor is decided to be the documented right-handed rotation (Rodrigues / elementary matrices / half-angle quaternions) '
               'and every one of the 24 x 7 from_euler instances equals the documented product of single-axis rotations, as exact identities in sin/cos atoms. '
               'The inverse direction is decided structurally: to_euler (24 orders x Mat3/Mat3A/DMat3, Quat/Mat4 by delegation) returns on its regular branch +-atan2 of operands '
               'proportional to (sin, cos) of each angle of the reference rotation with a factor positive on the principal range, its gimbal threshold is O(eps) of the scalar type, '
               'and to_axis_angle / to_scaled_axis rebuild the quaternion.  Error growth near the singularities is not decided.')
LEVEL_NOTE = 'Decides the constructor clause and the regular-branch inversion clause for all inputs; numeric error near gimbal lock is not claimed. Trusted: rustc MIR, intrinsic table, rules/spec.py, sin^2+cos^2=1.'

CONFIGS_QUICK = ['sse2', 'sse2-fma', 'sse41', 'scalar', 'coresimd', 'neon', 'wasm32']
CONFIGS_THOROUGH = ['sse2', 'sse2-fma', 'sse41', 'scalar', 'coresimd', 'neon', 'wasm32']
ROT3 = {'Mat3', 'Mat3A', 'Mat4', 'DMat3', 'DMat4', 'Affine3A', 'DAffine3'}
QUATS = {'Quat', 'DQuat'}
AXIS = {'X': 0, 'Y': 1, 'Z': 2}


def block_ok(S, alg, ent, R3, cols, rows, where):
    """ent: {(c,r): rat}; rotation block == R3, homogeneous remainder == identity / zero translation"""
    for c in range(cols):
        for r in range(rows):
            if c < 3 and r < 3:
                exp = R3[(c, r)]
            else:
                exp = S.c(1) if (c == r) else S.c(0)
            if not S.eq(ent[(c, r)], exp):
                return '%s: entry (col %d,row %d) is %s' % (where, c, r, ent[(c, r)][0].show(alg.name, 8))
    return None


def _tuple_scalars(F, v, tyid):
    t = F.types[tyid]
    out = []
    for (off, fid, _n) in t.get('fields', []):
        out.append(cell_term(v, off, F.types[fid]['sz']))
    return out


def _cases(ts, limit=6):
    from C12 import cases_with_assignment
    return cases_with_assignment(ts, limit)


def big_enough(asg):
    """what the threshold conditions of a case say about the tested magnitude X: True = 'X is above the threshold / non-zero',
    False = below / zero, None = no such condition"""
    out = None
    for c_, v_ in asg.items():
        if c_.op in ('flt', 'fle') and len(c_.args) == 2:
            ks = [x for x in c_.args if isinstance(x, tm.T) and const_value(x) is not None]
            if len(ks) != 1:
                continue
            const_first = c_.args[0] is ks[0]          # K < X  /  K <= X
            val = v_ if const_first else (not v_)
        elif c_.op in ('feq', 'fne') and any(const_value(x) == 0.0 for x in c_.args if isinstance(x, tm.T)):
            val = (not v_) if c_.op == 'feq' else v_
        else:
            continue
        out = val if out is None else (out and val)
    return out


def gimbal_branch(cs, ent, letters, ex, repeated):
    """the degenerate branch of to_euler on the reference rotation R(order; a, b*, 0) with the middle angle b* at its singular value
    (cos b* = 0, sin b* = +-1 for three-axis orders; sin b* = 0, cos b* = +-1 for repeated-axis orders): the last returned angle is the
    constant 0, the middle one is +-atan2 of operands proportional to (sin b*, cos b*), the first is +-atan2 of operands equal to a positive
    constant times (sin a, cos a).  -> problem text or None"""
    def is_zero(c):
        while c.op == 'fneg':
            c = c.args[0]
        return tm.is_const(c) and tm.f_of(c) == 0.0
    zero_i = 2 if is_zero(cs[2]) else (0 if is_zero(cs[0]) else None)
    if zero_i is None:
        return 'gimbal-lock branch: neither outer angle is the constant 0'
    free_i = 2 - zero_i
    for sing in (1, -1):
        alg = nf.Algebra()
        alg.budget = 400000
        S = Spec(alg)
        a_ = alg.nf(tm.atom('euler_angle_0'))
        b_ = alg.nf(tm.atom('euler_angle_1'))
        sa, ca = alg.sin_r(a_), alg.cos_r(a_)
        sb, cb = alg.sin_r(b_), alg.cos_r(b_)
        outer = {free_i: (sa, ca), zero_i: (S.c(0), S.c(1))}
        Rs = [S.rot_axis(AXIS[letters[0]], *outer[0]), S.rot_axis(AXIS[letters[1]], sb, cb), S.rot_axis(AXIS[letters[2]], *outer[2])]
        if ex:
            Rs = Rs[::-1]
        R3 = S.matmul(S.matmul(Rs[0], Rs[1], 3), Rs[2], 3)
        vsb, vcb = list(sb[0].variables())[0], list(cb[0].variables())[0]
        fix = {vsb: Poly.const(0), vcb: Poly.const(sing)} if repeated else {vsb: Poly.const(sing), vcb: Poly.const(0)}
        mapping = {alg.var_for_atom(ent[k]): alg.substitute(R3[k][0], fix) for k in ent if k[0] < 3 and k[1] < 3}

        def sub(x):
            n, d = x
            if d != ONE:
                raise ValueError('rational operand')
            m2 = dict(mapping)
            for v in n.variables():
                info = alg.var_info.get(v, ('?',))
                if info[0] == 'fn' and info[1] == 'sqrt' and v not in m2:
                    rad = info[2]
                    P = alg.substitute(rad[0], mapping)
                    if not P.is_const() or P.const_value() < 0:
                        raise ValueError('square root of a non-constant at the singular angle')
                    import math as _m
                    k = P.const_value()
                    rn, rd = _m.isqrt(k.numerator), _m.isqrt(k.denominator)
                    if rn * rn != k.numerator or rd * rd != k.denominator:
                        raise ValueError('irrational constant')
                    from fractions import Fraction
                    m2[v] = Poly.const(Fraction(rn, rd))
            return alg.substitute(n, m2)
        try:
            for i in (free_i, 1):
                c = cs[i]
                sign = 1
                while c.op == 'fneg':
                    c = c.args[0]
                    sign = -sign
                if c.op != 'atan2':
                    return 'gimbal-lock branch: component %d is not +-atan2(..)' % i
                n_, d_ = sub(alg.nf(c.args[0])), sub(alg.nf(c.args[1]))
                if i == free_i:
                    th_s, th_c = (sa[0], ca[0]) if sign == 1 else (-sa[0], ca[0])
                    cross = alg.reduce(alg.mul(n_, th_c) - alg.mul(d_, th_s))
                    lam = alg.reduce(alg.mul(n_, th_s) + alg.mul(d_, th_c))
                    if not cross.is_zero():
                        return 'gimbal-lock branch (middle angle singular, %+d): the first angle is not recovered: atan2 operands are not proportional to (sin a, cos a)' % sing
                    if not (lam.is_const() and lam.const_value() > 0):
                        return 'gimbal-lock branch (middle angle singular, %+d): the first angle is recovered with factor %s, which is not a positive constant (off by pi)' % (sing, lam.show(alg.name, 4))
                else:
                    # (N, D) must be a non-negative multiple of (sin b*, cos b*) up to the sign wrapper
                    if not (n_.is_const() and d_.is_const()):
                        return 'gimbal-lock branch: the middle angle does not evaluate to a constant at the singular value'
                    N, D = n_.const_value() * sign, d_.const_value()
                    want = (0, sing) if repeated else (sing, 0)
                    # atan2(sign*N, D) as an angle: compare directions; for repeated orders the returned angle is sigma*atan2(sy >= 0, .), so
                    # only the cosine direction is fixed by the data (sy = 0)
                    if repeated:
                        if not (N == 0 and D * sing > 0):
                            return 'gimbal-lock branch: the middle angle is not 0 / pi as the data require'
                    else:
                        if not (D == 0 and N * sing > 0):
                            return 'gimbal-lock branch: the middle angle is not +-pi/2 as the data require'
        except ValueError as e:
            return 'gimbal-lock branch not analysable: %s' % e
    return None


def check_to_euler(ctx, cfg, F, H, M, done):
    """R-INV-EULER: to_euler(order) applied to the reference rotation R(order; a, b, c) (product of the three elementary rotations, as from_euler is shown
    to build) returns (a, b, c) on the regular branch: every returned component is +-atan2(N, D) with (N, D) = lambda (sin t, cos t) for its own
    angle t and lambda in {1, cos b, sin b} - positive for the middle angle b in its principal range - as polynomial identities modulo sin^2 + cos^2 = 1."""
    for name, it in api_roots(F):
        st = (it.get('self_ty') or '').lstrip('&')
        tname = st.rsplit('::', 1)[-1]
        if it.get('trait') or (it.get('name') or '') != 'to_euler' or tname not in ('Mat3', 'Mat3A', 'DMat3'):
            continue
        body = F.body(it['key'])
        argtys = body['locals'][1:1 + body['argc']]
        rty = body['locals'][0]
        for (label, r) in H.run_all(it['key']):
            inst = '%s[%s]' % (name, label)
            if r.abort:
                ctx.undecided('R-INV-EULER', cfg, inst, r.abort)
                continue
            comps = _tuple_scalars(F, r.ret, rty) if r.ret is not None else None
            ent, mi = M.arg_entries(r, 0, argtys[0])
            if not comps or len(comps) != 3 or any(c is None for c in comps) or ent is None:
                ctx.unverifiable('R-INV-EULER', cfg, inst, 'result components / matrix operand not found')
                continue
            cases = _cases(comps)
            if cases is None:
                ctx.undecided('R-INV-EULER', cfg, inst, 'too many selections')
                continue
            letters = label[:3]
            ex = label.endswith('Ex')
            repeated = letters[0] == letters[2]
            bad = None
            n_reg = 0
            n_gimbal = 0
            for asg, cs in cases:
                be_ = big_enough(asg)
                if any(tm.is_const(c) for c in cs):
                    # gimbal-lock branch: the third angle is fixed at 0 by convention; the other two must still rebuild the rotation
                    if be_ is True:
                        bad = 'the gimbal-lock branch is taken when the tested magnitude is above the threshold (comparison reversed)'
                        break
                    why = gimbal_branch(cs, ent, letters, ex, repeated)
                    if why:
                        bad = why
                        break
                    n_gimbal += 1
                    continue
                if be_ is False:
                    bad = 'the regular branch (three atan2) is taken when the tested magnitude is below the gimbal-lock threshold (comparison reversed)'
                    break
                alg = nf.Algebra()
                alg.budget = 400000
                S = Spec(alg)
                angs = [alg.nf(tm.atom('euler_angle_%d' % i)) for i in range(3)]
                Rs = [S.rot_axis(AXIS[L], alg.sin_r(ang), alg.cos_r(ang)) for L, ang in zip(letters, angs)]
                if ex:
                    Rs = Rs[::-1]
                R3 = S.matmul(S.matmul(Rs[0], Rs[1], 3), Rs[2], 3)
                mapping = {alg.var_for_atom(ent[k]): R3[k][0] for k in ent if k[0] < 3 and k[1] < 3}
                sb, cb = alg.sin_r(angs[1])[0], alg.cos_r(angs[1])[0]
                # range of the middle angle: it is returned as sigma * atan2(non-negative square root, .), so sigma * sin b >= 0 for repeated-axis
                # orders (b in [0, pi] or [-pi, 0]) and cos b >= 0 for the others (b in [-pi/2, pi/2])
                sigma = 1
                c1 = cs[1]
                while c1.op == 'fneg':
                    c1 = c1.args[0]
                    sigma = -sigma
                if sigma == -1:
                    sb = -sb

                def sub_rat(x):
                    # substitute matrix entries by the reference rotation; square roots of cos^2 b / sin^2 b are cos b / sin b (principal range)
                    n, d = x
                    if d != ONE:
                        raise ValueError('rational operand')
                    m2 = dict(mapping)
                    for v in n.variables():
                        info = alg.var_info.get(v, ('?',))
                        if info[0] == 'fn' and info[1] == 'sqrt' and v not in m2:
                            rad = info[2]
                            if rad is None or rad[1] != ONE:
                                raise ValueError('square root of a rational')
                            P = alg.substitute(rad[0], mapping)
                            if alg.reduce(P - alg.mul(cb, cb)).is_zero():
                                m2[v] = cb
                            elif alg.reduce(P - alg.mul(sb, sb)).is_zero():
                                m2[v] = sb
                            else:
                                raise ValueError('square root of %s' % P.show(alg.name, 4))
                    return alg.substitute(n, m2)
                try:
                    for i, c in enumerate(cs):
                        sign = 1
                        while c.op == 'fneg':
                            c = c.args[0]
                            sign = -sign
                        if c.op != 'atan2':
                            bad = 'component %d is not +-atan2(..)' % i
                            break
                        n_, d_ = sub_rat(alg.nf(c.args[0])), sub_rat(alg.nf(c.args[1]))
                        th = angs[i] if sign == 1 else S.neg(angs[i])
                        s_, c_ = alg.sin_r(th)[0], alg.cos_r(th)[0]
                        cross = alg.reduce(alg.mul(n_, c_) - alg.mul(d_, s_))
                        lam = alg.reduce(alg.mul(n_, s_) + alg.mul(d_, c_))
                        if not cross.is_zero():
                            bad = 'component %d: atan2 operands are not proportional to (sin, cos) of angle %d of the reference rotation' % (i, i)
                            break
                        allowed = [Poly.const(1), cb, sb] if i != 1 else [Poly.const(1)]
                        if not any((lam - a).is_zero() for a in allowed):
                            bad = 'component %d: atan2 operands are (sin, cos) of angle %d scaled by %s, which is not positive on the principal range (the angle would be off by pi)' % (i, i, lam.show(alg.name, 4))
                            break
                except ValueError as e:
                    bad = 'not analysable: %s' % e
                if bad:
                    break
                n_reg += 1
                # the regular branch is guarded by  threshold < sqrt(..)  with a threshold that is a small multiple of the scalar type's own
                # epsilon: the rebuilt rotation errs by ~eps/threshold on this branch and by ~threshold on the other, so both need threshold = O(eps)
                for c_, v_ in asg.items():
                    ks = [x for x in c_.args if isinstance(x, tm.T) and const_value(x) is not None] if c_.op in ('flt', 'fle') else []
                    if len(ks) != 1:
                        continue
                    k = const_value(ks[0])
                    eps = 2.0 ** -23 if const_width(ks[0]) == 4 else 2.0 ** -52
                    if not (eps <= k <= 64 * eps):
                        bad = 'gimbal-lock threshold %g is %.3g times the epsilon of the scalar type (expected a small multiple: the documented 16 epsilon)' % (k, k / eps)
                        break
                if bad:
                    break
            if bad is None and n_reg == 0:
                bad = 'no regular (non gimbal-lock) branch found'
            if bad is None and n_gimbal == 0:
                bad = 'no gimbal-lock branch found'
            done('R-INV-EULER', inst, bad, it)


def check_to_euler_delegation(ctx, cfg, F, H, M, done):
    """R-INV-DELEG: Quat / DQuat / Mat4 / DMat4 to_euler(order) is Mat3 / DMat3 to_euler(order) of from_quat(self) / from_mat4(self): the result terms
    of the 3x3 form with its entries replaced by the entries of the conversion are identical, for each of the 24 orders."""
    def find(tn, mn):
        for name, it in api_roots(F):
            st = (it.get('self_ty') or '').lstrip('&')
            if not it.get('trait') and st.rsplit('::', 1)[-1] == tn and (it.get('name') or '') == mn:
                return name, it
        return None, None
    for (src, m3, conv) in (('Quat', 'Mat3', 'from_quat'), ('DQuat', 'DMat3', 'from_quat'), ('Mat4', 'Mat3', 'from_mat4'), ('DMat4', 'DMat3', 'from_mat4')):
        sname, sit = find(src, 'to_euler')
        mname_, mit = find(m3, 'to_euler')
        cname, cit = find(m3, conv)
        if sit is None or mit is None or cit is None:
            ctx.unverifiable('R-INV-DELEG', cfg, '%s::to_euler' % src, 'functions not found')
            continue
        rc = H.run(cit['key'])
        cbody = F.body(cit['key'])
        E = M.entries(rc.ret, cbody['locals'][0]) if not rc.abort and rc.ret is not None else None
        if E is None:
            ctx.unverifiable('R-INV-DELEG', cfg, '%s::to_euler' % src, 'conversion %s not analysable' % conv)
            continue
        sb, mb = F.body(sit['key']), F.body(mit['key'])
        runs_m = dict(H.run_all(mit['key']))
        for (label, rs) in H.run_all(sit['key']):
            inst = '%s[%s]' % (sname, label)
            rm = runs_m.get(label)
            if rs.abort or rm is None or rm.abort:
                ctx.undecided('R-INV-DELEG', cfg, inst, rs.abort or 'no 3x3 counterpart')
                continue
            cs = _tuple_scalars(F, rs.ret, sb['locals'][0])
            cm = _tuple_scalars(F, rm.ret, mb['locals'][0])
            ent, _mi = M.arg_entries(rm, 0, mb['locals'][1])
            # atoms of the conversion's operand -> atoms of this function's operand (same offsets; by value vs by reference)
            ren = {}
            for a, info in rc.atoms.items():
                if info.arg == 0:
                    for b, infb in rs.atoms.items():
                        if infb.arg == 0 and infb.off == info.off and infb.kind == info.kind:
                            ren[a] = b
            mp = {ent[k]: tm.subst(E[k], ren) for k in ent}
            bad = None
            for i in range(3):
                if tm.subst(cm[i], mp) is not cs[i]:
                    bad = 'component %d is not the 3x3 to_euler of %s(self)' % (i, conv)
                    break
            done('R-INV-DELEG', inst, bad, it=sit)


def check_to_axis_angle(ctx, cfg, F, H, done):
    """R-INV-AXIS: to_axis_angle returns (v / |v|, 2 atan2(|v|, w)) on the regular branch, so (axis sin(t/2), cos(t/2)) rebuilds q under |q| = 1;
    to_scaled_axis is axis * angle of the same function."""
    from post import unit_relation
    axis_terms = {}
    for name, it in api_roots(F):
        st = (it.get('self_ty') or '').lstrip('&')
        tname = st.rsplit('::', 1)[-1]
        mname = it.get('name') or ''
        if it.get('trait') or tname not in QUATS or mname not in ('to_axis_angle', 'to_scaled_axis'):
            continue
        body = F.body(it['key'])
        argtys = body['locals'][1:1 + body['argc']]
        rty = body['locals'][0]
        r = H.run(it['key'])
        if r.abort or r.ret is None:
            ctx.undecided('R-INV-AXIS', cfg, name, r.abort or 'diverges')
            continue
        av = ArgView(F, r, 0, argtys[0])
        if mname == 'to_axis_angle':
            t = F.types[rty]
            (o0, f0, _), (o1, f1, _) = t['fields'][0], t['fields'][1]
            from C02 import _sub
            axis = value_lanes(F, _sub(r.ret, o0, F.types[f0]['sz']), f0)
            angle = cell_term(r.ret, o1, F.types[f1]['sz'])
            outs = (axis or []) + [angle]
        else:
            outs = value_lanes(F, r.ret, rty)
        if not outs or any(o is None for o in outs) or av.lanes is None:
            ctx.unverifiable('R-INV-AXIS', cfg, name, 'result / operand lanes not found')
            continue
        cases = _cases(outs)
        bad = None
        n_reg = 0
        for asg, cs in (cases or []):
            if all(tm.is_const(c) for c in cs):
                # |v| < eps: the conventional answer must itself rebuild (nearly) the identity: angle 0 about a unit axis, or the zero scaled axis
                vals_ = [tm.f_of(c) for c in cs]
                if len(vals_) == 4 and (vals_[3] != 0.0 or abs(sum(x * x for x in vals_[:3]) - 1.0) > 1e-12):
                    bad = 'the degenerate branch returns axis %s, angle %s: expected a unit axis and the angle 0' % (vals_[:3], vals_[3])
                elif len(vals_) == 3 and any(x != 0.0 for x in vals_):
                    bad = 'the degenerate branch returns the scaled axis %s, expected zero' % vals_
                if bad:
                    break
                continue
            alg = nf.Algebra()
            S = Spec(alg)
            unit_relation(alg, av.lanes)
            q = [alg.nf(x) for x in av.lanes]
            atans = []
            for c in cs:
                _subterms(c, 'atan2', atans, set())
            # the conventional (X, 0) answer may only be taken for |v| below a tiny threshold: otherwise small rotations are lost
            for c_, v_ in asg.items():
                ks = [x for x in c_.args if isinstance(x, tm.T) and const_value(x) is not None] if c_.op in ('flt', 'fle') else []
                if len(ks) == 1 and not (0.0 < abs(const_value(ks[0])) <= 1e-7):
                    bad = 'the degenerate branch is taken below %g: rotations by up to twice that angle lose their axis and angle' % const_value(ks[0])
            if bad:
                break
            if not atans:
                if big_enough(asg) is True:
                    bad = 'the degenerate (X, 0) answer is returned for |v| above the threshold (comparison reversed)'
                    break
                continue          # degenerate branch (no angle is computed)
            if big_enough(asg) is False:
                bad = 'the regular branch divides by |v| when |v| is below the threshold (comparison reversed)'
                break
            if len(set(atans)) != 1:
                bad = 'regular branch does not use exactly one atan2'
                break
            at = atans[0]
            n_, d_ = alg.nf(at.args[0]), alg.nf(at.args[1])
            rho = alg.sqrt_r(S.add(S.mul(n_, n_), S.mul(d_, d_)))
            sh_, ch_ = S.div(n_, rho), S.div(d_, rho)       # sin, cos of t/2 = atan2(n, d)
            half = alg.nf(at)
            if mname == 'to_axis_angle':
                if not S.eq(alg.nf(cs[3]), S.mul(S.c(2), half)):
                    bad = 'angle is not 2 atan2(|v|, w)'
                    break
                ax = [alg.nf(c) for c in cs[:3]]
                rebuilt = [S.mul(x, sh_) for x in ax] + [ch_]
                if not all(alg.reduce(S.sub(x, y)[0]).is_zero() for x, y in zip(rebuilt, q)):
                    bad = '(axis sin(t/2), cos(t/2)) does not rebuild the quaternion under |q| = 1'
                    break
                axis_terms[tname] = (cs[:3], cs[3])
            else:
                ref = axis_terms.get(tname)
                if ref is None:
                    bad = 'to_axis_angle of the same type was not analysed'
                    break
                if not all(S.eq(alg.nf(c), S.mul(alg.nf(x), alg.nf(ref[1]))) for c, x in zip(cs, ref[0])):
                    bad = 'to_scaled_axis is not axis * angle of to_axis_angle'
                    break
            n_reg += 1
        if cases is None:
            ctx.undecided('R-INV-AXIS', cfg, name, 'too many selections')
            continue
        if bad is None and n_reg == 0:
            bad = 'no regular branch found'
        done('R-INV-AXIS', name, bad, it)


def _subterms(t, op, out, seen):
    if t.id in seen:
        return
    seen.add(t.id)
    if t.op == op:
        out.append(t)
    for a in t.args:
        if isinstance(a, tm.T):
            _subterms(a, op, out, seen)


def run(ctx):
    configs = ctx.need(CONFIGS_QUICK if ctx.tier == 'quick' else CONFIGS_THOROUGH)
    ctx.trusted = TRUSTED_COMMON + ['reference mathematics rules/spec.py (elementary rotations, Rodrigues, Hamilton product)', 'sin(t)^2 + cos(t)^2 = 1']
    for cfg in configs:
        F = ctx.facts(cfg)
        H = ctx.harness(cfg)
        M = MatModel(F, H)
        counts = {}
        euler_types = set()

        def done(rule, name, bad, it, note=None):
            counts[rule] = counts.get(rule, 0) + 1
            if bad:
                ctx.violation(rule, cfg, name, {'file': it['file'], 'line': it['line'], 'problem': bad})
            else:
                ctx.holds(rule, cfg, name, note)

        for name, it in api_roots(F):
            st = (it.get('self_ty') or '').lstrip('&')
            tname = st.rsplit('::', 1)[-1]
            mname = it.get('name') or ''
            if it.get('trait') or tname not in (ROT3 | QUATS | {'Mat2', 'DMat2', 'Affine2', 'DAffine2'}):
                continue
            body = F.body(it['key'])
            argtys = body['locals'][1:1 + body['argc']]
            rty = body['locals'][0]
            m = re.match(r'^from_rotation_([xyz])$', mname)
            if m or mname in ('from_axis_angle', 'from_angle'):
                r = H.run(it['key'])
                if r.abort or r.panics:
                    done('R-ALG', name, r.abort or 'reachable panic %r' % (r.panics[0],), it)
                    continue
                alg = nf.Algebra()
                S = Spec(alg)
                bad = None
                if tname in QUATS:
                    lanes = value_lanes(F, r.ret, rty)
                    ang = alg.nf(atom_at(r, body['argc'] - 1, 0))
                    half = S.div(ang, S.c(2))
                    s_, c_ = alg.sin_r(half), alg.cos_r(half)
                    if m:
                        ax = [S.c(1) if i == 'xyz'.index(m.group(1)) else S.c(0) for i in range(3)]
                    else:
                        av = ArgView(F, r, 0, argtys[0])
                        ax = [alg.nf(x) for x in av.lanes]
                    exp = [S.mul(ax[0], s_), S.mul(ax[1], s_), S.mul(ax[2], s_), c_]
                    for i in range(4):
                        if lanes is None or not S.eq(alg.nf(lanes[i]), exp[i]):
                            bad = 'component %s is not (axis*sin(t/2), cos(t/2))' % 'xyzw'[i]
                            break
                else:
                    mi = M.info(rty)
                    ent = M.entries(r.ret, rty)
                    if mi is None or ent is None:
                        ctx.unverifiable('R-ALG', cfg, name, 'result is not a matrix')
                        continue
                    ent = {k: alg.nf(v) for k, v in ent.items()}
                    ang = alg.nf(atom_at(r, body['argc'] - 1, 0))
                    s_, c_ = alg.sin_r(ang), alg.cos_r(ang)
                    if mname == 'from_angle':
                        R2 = {(0, 0): c_, (0, 1): s_, (1, 0): S.neg(s_), (1, 1): c_}
                        for c in range(mi['cols']):
                            for rr in range(mi['rows']):
                                exp = R2[(c, rr)] if (c < 2 and rr < 2) else (S.c(1) if c == rr else S.c(0))
                                if not S.eq(ent[(c, rr)], exp):
                                    bad = 'from_angle: entry (col %d,row %d) is %s' % (c, rr, ent[(c, rr)][0].show(alg.name, 6))
                    else:
                        if m:
                            R3 = S.rot_axis('xyz'.index(m.group(1)), s_, c_)
                        else:
                            av = ArgView(F, r, 0, argtys[0])
                            R3 = S.rodrigues([alg.nf(x) for x in av.lanes[:3]], s_, c_)
                        if tname in ('Mat2', 'DMat2', 'Affine2', 'DAffine2'):
                            continue
                        bad = block_ok(S, alg, ent, R3, mi['cols'], mi['rows'], mname)
                done('R-ALG', name, bad, it)
            elif mname == 'from_scaled_axis' and tname in QUATS:
                # from_scaled_axis(v) = rotation by |v| about v / |v|: (v/|v| sin(|v|/2), cos(|v|/2)); the identity for v = 0
                r = H.run(it['key'])
                bad = None
                if r.abort or r.ret is None:
                    ctx.unverifiable('R-ALG', cfg, name, r.abort or 'diverges')
                    continue
                lanes = value_lanes(F, r.ret, rty)
                av = ArgView(F, r, 0, argtys[0])
                cases = _cases(lanes) if lanes else None
                if not cases or av.lanes is None:
                    bad = 'result / operand lanes not found'
                else:
                    n_reg = 0
                    # only the exact zero vector (or a length whose square underflows: <= eps^2 of the scalar type) may take the identity
                    # shortcut: a larger threshold turns small non-zero rotations into the identity
                    for asg, ls in cases:
                        for c_ in asg:
                            for x_ in (c_.args if c_.op in ('flt', 'fle', 'feq', 'fne') else []):
                                kv = const_value(x_) if isinstance(x_, tm.T) else None
                                if kv is not None and abs(kv) > (2.0 ** -23 if const_width(x_) == 4 else 2.0 ** -52) ** 2:
                                    bad = 'the identity shortcut is taken for |v| up to %g, not only for the zero vector' % abs(kv)
                    for asg, ls in (cases if not bad else []):
                        if all(tm.is_const(x) for x in ls):
                            if [tm.f_of(x) for x in ls] != [0.0, 0.0, 0.0, 1.0]:
                                bad = 'the zero-length branch is not the identity quaternion'
                            if big_enough(asg) is True:
                                bad = 'the identity is returned for a non-zero scaled axis (comparison reversed)'
                            continue
                        if big_enough(asg) is False:
                            bad = 'the rotation branch divides by |v| for the zero vector (comparison reversed)'
                            break
                        alg = nf.Algebra()
                        S = Spec(alg)
                        v = [alg.nf(x) for x in av.lanes]
                        ln = alg.sqrt_r(S.dot(v, v))
                        half = S.div(ln, S.c(2))
                        exp = [S.mul(S.div(x, ln), alg.sin_r(half)) for x in v] + [alg.cos_r(half)]
                        if not all(S.eq(alg.nf(l), e) for l, e in zip(ls, exp)):
                            bad = 'from_scaled_axis is not (v/|v| sin(|v|/2), cos(|v|/2))'
                            break
                        n_reg += 1
                    if not bad and n_reg == 0:
                        bad = 'no regular branch found'
                done('R-ALG', name, bad, it)
            elif mname == 'from_euler' and tname in (ROT3 | QUATS):
                euler_types.add(tname)
                nvar = 0
                for (label, r) in H.run_all(it['key']):
                    nvar += 1
                    inst = '%s[%s]' % (name, label)
                    if r.abort or r.panics:
                        done('R-EULER', inst, r.abort or 'reachable panic %r' % (r.panics[0],), it)
                        continue
                    alg = nf.Algebra()
                    S = Spec(alg)
                    letters = label[:3]
                    ex = label.endswith('Ex')
                    angs = [alg.nf(atom_at(r, i, 0)) for i in (1, 2, 3)]
                    bad = None
                    if tname in QUATS:
                        qs = []
                        for L, ang in zip(letters, angs):
                            half = S.div(ang, S.c(2))
                            s_, c_ = alg.sin_r(half), alg.cos_r(half)
                            q = [S.c(0), S.c(0), S.c(0), c_]
                            q[AXIS[L]] = s_
                            qs.append(q)
                        if ex:
                            qs = qs[::-1]
                        exp = S.hamilton(S.hamilton(qs[0], qs[1]), qs[2])
                        lanes = value_lanes(F, r.ret, rty)
                        for i in range(4):
                            if lanes is None or not S.eq(alg.nf(lanes[i]), exp[i]):
                                bad = 'component %s is not the product of the elementary quaternions %s%s' % ('xyzw'[i], letters, ' reversed' if ex else '')
                                break
                    else:
                        mi = M.info(rty)
                        ent = M.entries(r.ret, rty)
                        if mi is None or ent is None:
                            bad = 'result is not a matrix'
                        else:
                            ent = {k: alg.nf(v) for k, v in ent.items()}
                            Rs = [S.rot_axis(AXIS[L], alg.sin_r(ang), alg.cos_r(ang)) for L, ang in zip(letters, angs)]
                            if ex:
                                Rs = Rs[::-1]
                            R3 = S.matmul(S.matmul(Rs[0], Rs[1], 3), Rs[2], 3)
                            bad = block_ok(S, alg, ent, R3, mi['cols'], mi['rows'], 'from_euler(%s)' % label)
                    done('R-EULER', inst, bad, it)
                if nvar != 24:
                    ctx.unverifiable('R-EULER', cfg, name, 'expected 24 EulerRot variants, specialised %d' % nvar)
        check_to_euler(ctx, cfg, F, H, M, done)
        check_to_axis_angle(ctx, cfg, F, H, done)
        check_to_euler_delegation(ctx, cfg, F, H, M, done)
        ctx.floor('to_euler delegation instances (%s)' % cfg, counts.get('R-INV-DELEG', 0), 96)
        ctx.floor('to_euler variant instances (%s)' % cfg, counts.get('R-INV-EULER', 0), 72)
        ctx.floor('to_axis_angle / to_scaled_axis instances (%s)' % cfg, counts.get('R-INV-AXIS', 0), 4)
        ctx.floor('types with from_euler (%s)' % cfg, len(euler_types), 7)
        ctx.floor('from_euler variant instances (%s)' % cfg, counts.get('R-EULER', 0), 168)
        ctx.floor('rotation constructor instances (%s)' % cfg, counts.get('R-ALG', 0), 40)
        for k, v in sorted(counts.items()):
            ctx.count('%s:%s' % (k, cfg), v)
    ctx.extra['exhaustive'] = True
