"""C04 - quaternion algebra: Hamilton product, conjugate, and rotation of vectors.

R-ALG: mul_quat lanes equal the Hamilton product polynomials; q*v (Vec3 and Vec3A) equals the vector part of
q (v,0) q* built from the reference Hamilton product (a polynomial identity, no unit-norm assumption);
+, -, scalar * and /, dot, length_squared act component-wise.  R-COPY/exact: conjugate and inverse negate exactly
the vector part.  R-ROUND: rounding certificate for the product."""
import re
import terms as tm
import nf
from spec import Spec
from lift import value_lanes, strip_ref, result_of, ArgView
from common import api_roots, vec_info, tydef, atom_at, TRUSTED_COMMON
from C03 import cancellation

LEVEL = 'other'
TECHNIQUE = 'polynomial normal-form identity checking of MIR-extracted lane terms against the reference Hamilton product; exact sign-bit analysis for conjugate'
EXPLANATION = ('Decides, for all inputs and on every backend, that the real functions computed by quaternion multiplication and by q*v are the Hamilton '
               'product and the sandwich product (exact integer results on integer components follow), and that conjugate/inverse flip exactly three sign bits. '
               'Length preservation, composition, q == -q and inverse-undoes are algebraic corollaries for unit q; rounding is bounded by the depth certificate.')
LEVEL_NOTE = 'Decides the algebraic identity and rounding depth; corollaries for unit quaternions are by algebra, not re-checked numerically. Trusted: rustc MIR, intrinsic table, rules/spec.py.'

CONFIGS_QUICK = ['sse2', 'sse2-fma', 'sse41', 'scalar', 'coresimd', 'neon', 'wasm32']
CONFIGS_THOROUGH = ['sse2', 'sse2-fma', 'sse41', 'scalar', 'coresimd', 'neon', 'wasm32']
QUATS = ('Quat', 'DQuat')


def has_division(t):
    seen = set()
    st = [t]
    while st:
        x = st.pop()
        if x.id in seen:
            continue
        seen.add(x.id)
        if x.op in ('fdiv', 'recip', 'x86:rcp_approx', 'x86:rsqrt_approx'):
            return True
        st.extend(a for a in x.args if isinstance(a, tm.T))
    return False


def unit_algebra(qlanes):
    """an algebra in which the quaternion whose lane atoms are given has unit length"""
    from post import unit_relation
    alg2 = nf.Algebra()
    alg2.budget = 400000
    unit_relation(alg2, qlanes)
    return alg2, Spec(alg2)


def run(ctx):
    configs = ctx.need(CONFIGS_QUICK if ctx.tier == 'quick' else CONFIGS_THOROUGH)
    ctx.trusted = TRUSTED_COMMON + ['reference mathematics rules/spec.py (Hamilton product, conjugate, sandwich product)']
    for cfg in configs:
        F = ctx.facts(cfg)
        H = ctx.harness(cfg)
        counts = {}

        def done(rule, name, bad, it, note=None):
            counts[rule] = counts.get(rule, 0) + 1
            if bad:
                ctx.violation(rule, cfg, name, {'file': it['file'], 'line': it['line'], 'problem': bad})
            else:
                ctx.holds(rule, cfg, name, note)

        for name, it in api_roots(F):
            st = (it.get('self_ty') or '').lstrip('&')
            tname = st.rsplit('::', 1)[-1]
            if tname not in QUATS:
                continue
            mname = it.get('name') or ''
            tr = (it.get('trait') or '').rsplit('::', 1)[-1]
            body = F.body(it['key'])
            argtys = body['locals'][1:1 + body['argc']]
            rty = body['locals'][0]
            views = None
            kind = None
            if (not tr and mname == 'mul_quat') or (tr in ('Mul', 'MulAssign') and body['argc'] == 2 and tydef(F, strip_ref(F, argtys[1])[0]) in QUATS):
                kind = 'hamilton'
            elif (not tr and mname in ('mul_vec3', 'mul_vec3a')) or (tr == 'Mul' and body['argc'] == 2 and (tydef(F, strip_ref(F, argtys[1])[0]) or '').startswith(('Vec3', 'DVec3'))):
                kind = 'rotate'
            elif not tr and mname in ('conjugate', 'inverse'):
                kind = 'conj'
            elif tr in ('Add', 'Sub', 'Neg', 'AddAssign', 'SubAssign') or (tr in ('Mul', 'Div', 'MulAssign', 'DivAssign') and body['argc'] == 2 and F.types[strip_ref(F, argtys[1])[0]].get('k') == 'float'):
                kind = 'lanewise'
            elif not tr and mname in ('dot', 'length_squared'):
                kind = 'dot'
            elif not tr and mname in ('length', 'length_recip', 'normalize'):
                kind = 'norm'
            elif not tr and mname == 'angle_between':
                kind = 'angle'
            elif not tr and mname == 'xyz':
                kind = 'xyz'
            if kind is None:
                continue
            if kind == 'angle':
                from harness import Harness
                from C02 import EXTRA
                r = Harness(F, {'extra_leaf': EXTRA}).run(it['key'])
            else:
                r = H.run(it['key'])
            if r.abort:
                ctx.unverifiable('R-ALG', cfg, name, 'not analysable: ' + r.abort)
                continue
            if r.panics:
                done('R-ALG', name, 'reachable panic site: %r' % (r.panics[0],), it)
                continue
            views = [ArgView(F, r, i, argtys[i]) for i in range(body['argc'])]
            alg = nf.Algebra()
            S = Spec(alg)
            kres, oty, val = result_of(F, r, body)
            q = [alg.nf(a) for a in views[0].lanes]
            bad = None
            note = None
            if kind == 'hamilton':
                p2 = [alg.nf(a) for a in views[1].lanes]
                lanes = value_lanes(F, val, oty)
                exp = S.hamilton(q, p2)
                for i in range(4):
                    if lanes is None or not S.eq(alg.nf(lanes[i]), exp[i]):
                        bad = 'component %s of the product is not the Hamilton product: got %s' % ('xyzw'[i], alg.nf(lanes[i])[0].show(alg.name, 16) if lanes else None)
                        break
                if not bad:
                    ds = [nf.rounding_depth(l) for l in lanes]
                    Ks = [cancellation(alg.nf(l)[0], nf.abs_nf(alg, l)) for l in lanes]
                    note = {'rounding_depth': ds, 'K': Ks}
                    if any(d is None or d > 8 for d in ds) or any(K != 1 for K in Ks):
                        bad = 'rounding certificate fails: depth=%s K=%s' % (ds, Ks)
            elif kind == 'rotate':
                v = [alg.nf(a) for a in views[1].lanes[:3]]
                lanes = value_lanes(F, val, oty)
                exp = S.quat_rotate(q, v)
                for i in range(3):
                    if lanes is None or not S.eq(alg.nf(lanes[i]), exp[i]):
                        bad = 'component %s of q*v is not the vector part of q (v,0) q*: got %s' % ('xyz'[i], alg.nf(lanes[i])[0].show(alg.name, 10) if lanes else None)
                        break
                if bad and lanes is not None:
                    # the property speaks of unit quaternions only: any formula that agrees with the sandwich product modulo |q|^2 = 1 is the rotation
                    alg2, S2 = unit_algebra(views[0].lanes)
                    q2 = [alg2.nf(a) for a in views[0].lanes]
                    v2 = [alg2.nf(a) for a in views[1].lanes[:3]]
                    exp2 = S2.quat_rotate(q2, v2)
                    if all(alg2.reduce(S2.sub(alg2.nf(lanes[i]), exp2[i])[0]).is_zero() for i in range(3)):
                        bad = None
                        note = 'equal to the sandwich product modulo |q|^2 = 1'
            elif kind == 'conj':
                lanes = value_lanes(F, val, oty)
                a = views[0].lanes
                exp = [tm.f1('fneg', a[0]), tm.f1('fneg', a[1]), tm.f1('fneg', a[2]), a[3]]
                for i in range(4):
                    if lanes is None or lanes[i] is not exp[i]:
                        # x * -1.0 is also an exact sign flip
                        alt = tm.f2('fmul', a[i], tm.fconst(-1.0 if i < 3 else 1.0, 4 if tname == 'Quat' else 8))
                        if lanes is None or lanes[i] is not alt:
                            bad = 'component %s of %s is %s, expected an exact %s' % ('xyzw'[i], mname, tm.show(lanes[i], 0, 4) if lanes else None, 'sign flip' if i < 3 else 'copy')
                            break
                if bad and mname == 'inverse' and lanes is not None:
                    # inverse is documented for unit quaternions: conjugate / |q|^2 (the general inverse) is the same function there
                    alg2, S2 = unit_algebra(a)
                    cj = [S2.neg(alg2.nf(a[0])), S2.neg(alg2.nf(a[1])), S2.neg(alg2.nf(a[2])), alg2.nf(a[3])]
                    if all(alg2.reduce(S2.sub(alg2.nf(lanes[i]), cj[i])[0]).is_zero() for i in range(4)):
                        bad = None
                        note = 'equal to the conjugate modulo |q|^2 = 1'
            elif kind == 'lanewise':
                lanes = value_lanes(F, val, oty)
                other = views[1] if len(views) > 1 else None
                for i in range(4):
                    x = q[i]
                    if tr in ('Add', 'AddAssign'):
                        e = S.add(x, alg.nf(other.lanes[i]))
                    elif tr in ('Sub', 'SubAssign'):
                        e = S.sub(x, alg.nf(other.lanes[i]))
                    elif tr == 'Neg':
                        e = S.neg(x)
                    elif tr in ('Mul', 'MulAssign'):
                        e = S.mul(x, alg.nf(other.lanes[0]))
                    else:
                        e = S.div(x, alg.nf(other.lanes[0]))
                    if lanes is None or not S.eq(alg.nf(lanes[i]), e):
                        bad = 'component %s is not the component-wise operation' % 'xyzw'[i]
                        break
            elif kind == 'xyz':
                kres, oty, val = result_of(F, r, body)
                lanes = value_lanes(F, val, oty) if val is not None and not isinstance(val, tm.T) else None
                if lanes is None or len(lanes) != 3 or any(l is not a for l, a in zip(lanes, views[0].lanes[:3])):
                    bad = 'xyz() is not the vector part (x, y, z) of the quaternion'
            elif kind == 'angle':
                # the angle of the rotation taking self to rhs: 2 acos(|self . rhs|)
                p2 = [alg.nf(a) for a in views[1].lanes]
                g = r.ret
                ac = []
                if isinstance(g, tm.T) and g.op == 'fmul' and any(tm.is_const(x) and tm.f_of(x) == 2.0 for x in g.args):
                    ac = [x for x in g.args if not tm.is_const(x)]
                elif isinstance(g, tm.T) and g.op == 'fadd' and len(g.args) == 2 and g.args[0] is g.args[1]:
                    ac = [g.args[0]]            # x * 2 is canonicalised to x + x
                ok = len(ac) == 1 and ac[0].op == 'acos_approx' and ac[0].args[0].op == 'fabs' and S.eq(alg.nf(ac[0].args[0].args[0]), S.dot(q, p2))
                if not ok:
                    bad = 'angle_between is not 2 acos(|self . rhs|)'
            elif kind == 'norm':
                ln = alg.sqrt_r(S.dot(q, q))
                kres, oty, val = result_of(F, r, body)
                lanes = value_lanes(F, val, oty) if val is not None and not isinstance(val, tm.T) else None
                if mname == 'normalize':
                    # glam_assert-free builds: q / |q| component-wise
                    exp_l = [S.div(x, ln) for x in q]
                    if lanes is None or not all(S.eq(alg.nf(l), e) for l, e in zip(lanes, exp_l)):
                        bad = 'normalize is not q / sqrt(q.q) component-wise'
                else:
                    e = ln if mname == 'length' else S.div(S.c(1), ln)
                    if not isinstance(r.ret, tm.T) or not S.eq(alg.nf(r.ret), e):
                        bad = '%s is not %s' % (mname, 'sqrt(q.q)' if mname == 'length' else '1 / sqrt(q.q)')
                    elif mname == 'length' and has_division(r.ret):
                        bad = 'length divides (undefined at the zero quaternion, where sqrt(q.q) is 0)'
            elif kind == 'dot':
                o = [alg.nf(a) for a in views[1].lanes] if mname == 'dot' else q
                if not isinstance(r.ret, tm.T) or not S.eq(alg.nf(r.ret), S.dot(q, o)):
                    bad = '%s is not the 4-component dot product' % mname
            done('R-ALG', name, bad, it, note)
            if note and counts['R-ALG'] % 5 == 1:
                ctx.sample({'config': cfg, 'fn': name, 'certificate': note})
        ctx.floor('quaternion algebra instances (%s)' % cfg, sum(counts.values()), 30)
        # Sum / Product over iterators: left folds of + from ZERO and of * from the identity (generic bodies, rules/fold.py)
        import fold
        nfold = fold.check_folds(ctx, cfg, F, H, lambda tn: 'float' if tn in ('Quat', 'DQuat') else None, done, product_unit=lambda tn, n: [0, 0, 0, 1] if n == 4 else None)
        ctx.floor('Sum / Product impls (%s)' % cfg, nfold, 8)
        for k, v in sorted(counts.items()):
            ctx.count('%s:%s' % (k, cfg), v)
    ctx.extra['exhaustive'] = True
