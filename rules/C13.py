"""C13 - integer vectors are the exact lane-wise lift of Rust integer semantics.

R-LIFT: every lane-wise operation of the 27 integer vector types is, lane for lane, the same-named
primitive (resolved by rustc, run through the same engine) applied to that lane's operands; checked_
forms are Some exactly when all lanes' primitives are Some; reductions are the documented ring /
min-max expressions over each lane exactly once; panics are the primitive's own, one per lane."""
import re
import terms as tm
from terms import mk, ite, const
import nf
import lift
from lift import ArgView, value_lanes, result_of, check_uniform, oracle_call, prim_paths
from common import api_roots, vec_info, tydef, TRUSTED_COMMON
from runner import norm_def_path

LEVEL = 'proof'
TECHNIQUE = 'lane-uniformity by substitution + same-named-primitive agreement over rustc MIR (abstract interpretation); ring normal form for reductions'
EXPLANATION = ('Each operation of each integer vector type is interpreted once on symbolic lanes.  Lane j of the result must be '
               'lane 0 with every lane-0 operand replaced by the lane-j operand (uniformity), and lane 0 must be the term that '
               'the same-named primitive of the element type produces in the same engine.  Enumerated from the impls rustc resolved, '
               'so all 27 types x all operations are covered; both overflow-check profiles in the thorough tier.')

CONFIGS_QUICK = ['sse2', 'scalar']
CONFIGS_THOROUGH = ['sse2', 'sse2-rel', 'scalar', 'coresimd']
INT_MODS = ('i8', 'u8', 'i16', 'u16', 'i32', 'u32', 'i64', 'u64', 'usize')

OP_TRAITS = {'Add', 'Sub', 'Mul', 'Div', 'Rem', 'Neg', 'Not', 'BitAnd', 'BitOr', 'BitXor', 'Shl', 'Shr',
             'AddAssign', 'SubAssign', 'MulAssign', 'DivAssign', 'RemAssign', 'BitAndAssign', 'BitOrAssign', 'BitXorAssign',
             'ShlAssign', 'ShrAssign'}
SAME_NAMED = re.compile(r'^(abs|signum|div_euclid|rem_euclid|min|max|wrapping_\w+|saturating_\w+|abs_diff|pow|isqrt)$')
CHECKED = re.compile(r'^checked_(add|sub|mul|div|rem|add_unsigned|sub_unsigned|add_signed|sub_signed|neg|abs)$')
CMP = {'cmpeq': 'eq', 'cmpne': 'ne', 'cmplt': 'lt', 'cmple': 'le', 'cmpgt': 'gt', 'cmpge': 'ge'}
SKIP = {'new', 'splat', 'map', 'from_array', 'to_array', 'from_slice', 'write_to_slice', 'extend', 'truncate', 'with_x', 'with_y',
        'with_z', 'with_w', 'clone', 'eq', 'ne', 'hash', 'default', 'fmt', 'index', 'index_mut', 'as_ref', 'as_mut', 'from', 'into',
        'try_from', 'assert_fields_are_eq', 'sum', 'product'}
FLOOR_LIFT = 3600      # measured 3667 lane-wise instances (sse2) when armed
FLOOR_REDUCE = 360     # measured 365


def elem_of(self_ty):
    m = re.match(r'^&?(?:mut )?(i8|u8|i16|u16|i32|u32|i64|u64|usize)::\w+::(\w+)$', self_ty or '')
    return m.group(1) if m else None


def int_roots(F):
    for name, it in api_roots(F):
        st = it.get('self_ty') or ''
        e = elem_of(st)
        if e is None:
            # scalar-on-the-left impls: `impl Mul<IVec3> for i32` live in the vector's module
            if st.lstrip('&') in INT_MODS and re.match(r'^(i8|u8|i16|u16|i32|u32|i64|u64|usize)::', norm_def_path(name)):
                e = st.lstrip('&')
            else:
                continue
        if 'Swizzles' in (it.get('trait') or ''):
            continue
        yield name, it, e


def expected_lane0(I, F, it, e, views, name):
    """term of the same-named primitive on the lane-0 operands; None if there is no such primitive"""
    tr = (it.get('trait') or '').rsplit('::', 1)[-1]
    args0 = [v.lanes[0] for v in views if v.kind in ('vec', 'scalar', 'mask')]
    if any(a is None for a in args0):
        return None, 'operand atoms not found'
    # element types of the operands decide the primitive's self type (first vector/scalar operand)
    first = [v for v in views if v.kind in ('vec', 'scalar')][0]
    selfty = rust_int_name(first.elem, F)
    rhs = None
    if len(views) > 1 and views[1].kind in ('vec', 'scalar'):
        rhs = rust_int_name(views[1].elem, F)
    for path in prim_paths(selfty, name, it.get('trait') if tr in OP_TRAITS else None, rhs):
        tg = None
        if '|' in path:
            path, tg = path.split('|')
        r = oracle_call(I, F, path, args0, tg)
        if r is not None:
            return r, path
    return None, 'no same-named primitive %s for %s' % (name, selfty)


def rust_int_name(elem, F):
    if elem in ('u64', 'i64'):
        return elem
    return elem


def ring_eq(a, b, bits):
    alg = nf.Algebra(int_mod=True)
    pa, pb = alg.nf(a), alg.nf(b)
    if pa[1] != nf.ONE or pb[1] != nf.ONE:
        return False
    x, y = nf.poly_mod(pa[0], 1 << bits), nf.poly_mod(pb[0], 1 << bits)
    return x is not None and y is not None and x == y


def flatten(t, opname):
    if t.op == opname:
        s = set()
        for a in t.args:
            s |= flatten(a, opname)
        return s
    return {t}


RING_OPS = ('add', 'sub', 'mul', 'neg')


def ring_nodes(ts):
    """{(op name, type, frozenset of argument ids)} of the ring operation nodes of the terms"""
    out = set()
    seen = set()
    st = [t for t in ts if isinstance(t, tm.T)]
    while st:
        t = st.pop()
        if t.id in seen:
            continue
        seen.add(t.id)
        if ':' in t.op:
            nm, ty = t.op.rsplit(':', 1)
            if nm in RING_OPS:
                out.add((nm, ty, tuple(sorted(x.id for x in t.args if isinstance(x, tm.T)))))
        st.extend(x for x in t.args if isinstance(x, tm.T))
    return out


def overflow_sites(panics):
    """{(op name, type, argument ids)} of the overflow panic sites; other sites -> second component"""
    out = set()
    other = []
    for p in panics:
        c = p.cond
        if c is tm.FALSE:
            continue
        # the overflow condition is the last conjunct (earlier ones are 'no earlier panic')
        cands = [c] + ([x for x in c.args if isinstance(x, tm.T)] if c.op == 'and' else [])
        hit = None
        for x in cands:
            if ':' in x.op and x.op.split(':', 1)[0].endswith('.ovf'):
                nm, ty = x.op.split(':', 1)
                hit = (nm[:-4], ty, tuple(sorted(y.id for y in x.args if isinstance(y, tm.T))))
        if hit is None and p.kind == 'assert:overflow_neg':
            for x in cands:
                if x.op.startswith('eq:') and len(x.args) == 2 and tm.is_const(x.args[1]):
                    hit = ('neg', x.op.split(':', 1)[1], (x.args[0].id,))
        if hit:
            out.add(hit)
        else:
            other.append(p)
    return out, other


def panic_completeness(values, panics, expect_overflow):
    """with overflow checks on, an operation written with the panicking operators has exactly one overflow site per ring operation of its result
    (and one written with wrapping / saturating / checked operators has none): -> problem text or None"""
    nodes = ring_nodes(values)
    sites, _other = overflow_sites(panics)
    if not expect_overflow:
        return None if not sites else 'a non-panicking operation has %d overflow panic site(s)' % len(sites)
    missing = nodes - sites
    extra = sites - nodes
    if missing:
        nm, ty, _ = sorted(missing)[0]
        return 'the %s:%s in the result has no overflow panic site (it silently wraps where the primitive operator panics)' % (nm, ty)
    if extra:
        nm, ty, _ = sorted(extra)[0]
        return 'an overflow panic site of %s:%s does not belong to any operation of the result' % (nm, ty)
    return None


def check_reduction(I, F, name, e, views, r, it):
    """-> (verdict, message)"""
    bits = int(e[1:]) if e != 'usize' else 8 * F.ptr_size
    ty = (e[0] if e != 'usize' else 'u') + str(bits)
    a = views[0].lanes
    b = views[1].lanes if len(views) > 1 and views[1].kind == 'vec' else None
    n = len(a)
    res = r.ret
    add = lambda x, y: tm.iop('add', ty, x, y)
    mul = lambda x, y: tm.iop('mul', ty, x, y)
    sub = lambda x, y: tm.iop('sub', ty, x, y)
    if name in ('dot', 'length_squared', 'distance_squared', 'element_sum', 'element_product', 'perp_dot'):
        if name == 'dot':
            terms = [mul(x, y) for x, y in zip(a, b)]
        elif name == 'length_squared':
            terms = [mul(x, x) for x in a]
        elif name == 'distance_squared':
            terms = [mul(sub(x, y), sub(x, y)) for x, y in zip(a, b)]
        elif name == 'element_sum':
            terms = list(a)
        elif name == 'perp_dot':
            exp = sub(mul(a[0], b[1]), mul(a[1], b[0]))
            return ('HOLDS', '') if ring_eq(res, exp, bits) else ('VIOLATION', 'result %s is not x*ry - y*rx' % tm.show(res, 0, 5))
        else:
            exp = a[0]
            for x in a[1:]:
                exp = mul(exp, x)
            return ('HOLDS', '') if ring_eq(res, exp, bits) else ('VIOLATION', 'result %s is not the product of all lanes' % tm.show(res, 0, 5))
        exp = terms[0]
        for x in terms[1:]:
            exp = add(exp, x)
        if not isinstance(res, tm.T):
            return ('UNVERIFIABLE', 'non-scalar result')
        return ('HOLDS', '') if ring_eq(res, exp, bits) else ('VIOLATION', 'result %s differs from %s in Z/2^%d' % (tm.show(res, 0, 5)[:200], tm.show(exp, 0, 5)[:200], bits))
    if name == 'is_negative_bitmask':
        bits_ = []
        for x in a:
            v = oracle_call(I, F, 'core::num::<impl %s>::is_negative' % e, [x])
            if v is None:
                v = tm.FALSE if e[0] == 'u' else None
            if v is None:
                return ('UNVERIFIABLE', 'is_negative primitive not found')
            bits_.append(v)
        nb = 8 * F.types[r.ret_ty]['sz']
        exp = tm.mk_bits(bits_ + [tm.FALSE] * (nb - len(bits_)))
        return ('HOLDS', '') if res is exp else ('VIOLATION', 'bitmask %s is not bit i = lane i negative' % tm.show(res, 0, 3)[:200])
    if name in ('dot_into_vec',):
        lanes = value_lanes(F, res, r.ret_ty)
        exp = mul(a[0], b[0])
        for x, y in list(zip(a, b))[1:]:
            exp = add(exp, mul(x, y))
        ok = lanes is not None and all(ring_eq(l, exp, bits) for l in lanes)
        return ('HOLDS', '') if ok else ('VIOLATION', 'some lane is not the dot product')
    if name == 'cross':
        lanes = value_lanes(F, res, r.ret_ty)
        exp = [sub(mul(a[1], b[2]), mul(b[1], a[2])), sub(mul(a[2], b[0]), mul(b[2], a[0])), sub(mul(a[0], b[1]), mul(b[0], a[1]))]
        for i in range(3):
            if lanes is None or not ring_eq(lanes[i], exp[i], bits):
                return ('VIOLATION', 'lane %d of cross is %s' % (i, tm.show(lanes[i], 0, 5) if lanes else None))
        return ('HOLDS', '')
    if name == 'perp':
        lanes = value_lanes(F, res, r.ret_ty)
        exp = [tm.iun('neg', ty, a[1]), a[0]]
        ok = lanes is not None and ring_eq(lanes[0], exp[0], bits) and lanes[1] is exp[1]
        return ('HOLDS', '') if ok else ('VIOLATION', 'perp is not (-y, x)')
    if name == 'rotate':
        lanes = value_lanes(F, res, r.ret_ty)
        exp = [sub(mul(a[0], b[0]), mul(a[1], b[1])), add(mul(a[1], b[0]), mul(a[0], b[1]))]
        for i in range(2):
            if lanes is None or not ring_eq(lanes[i], exp[i], bits):
                return ('VIOLATION', 'lane %d of rotate is %s' % (i, tm.show(lanes[i], 0, 5) if lanes else None))
        return ('HOLDS', '')
    if name in ('min_element', 'max_element'):
        op = name[:3] + ':' + ty
        leaves = flatten(res, op)
        if leaves == set(a):
            return ('HOLDS', '')
        return ('VIOLATION', '%s ranges over %s instead of all %d lanes' % (name, sorted(tm.show(x) for x in leaves), n))
    if name in ('min_position', 'max_position'):
        cur, idx = a[0], const(0, F.ptr_size)
        for i in range(1, n):
            c = tm.iop('lt', ty, a[i], cur) if name == 'min_position' else tm.iop('lt', ty, cur, a[i])
            idx = ite(c, const(i, F.ptr_size), idx)
            cur = ite(c, a[i], cur)
        return ('HOLDS', '') if res is idx else ('VIOLATION', 'position %s is not the first-extremum chain %s' % (tm.show(res, 0, 6)[:200], tm.show(idx, 0, 6)[:200]))
    if name in ('manhattan_distance', 'chebyshev_distance', 'checked_manhattan_distance'):
        uty = 'u' + str(bits)
        ad = []
        for x, y in zip(a, b):
            if e[0] == 'u' or e == 'usize':
                # unsigned: abs_diff written out or the primitive; accept the primitive's own term
                p, _ = None, None
            v = oracle_call(I, F, 'core::num::<impl %s>::abs_diff' % e, [x, y])
            if v is None:
                return ('UNVERIFIABLE', 'abs_diff primitive not found')
            ad.append(v)
        if name == 'manhattan_distance':
            exp = ad[0]
            for v in ad[1:]:
                exp = tm.iop('add', uty, exp, v)
            return ('HOLDS', '') if ring_eq(res, exp, bits) else ('VIOLATION', 'result %s is not the sum of abs_diff over all lanes' % tm.show(res, 0, 5)[:200])
        if name == 'chebyshev_distance':
            leaves = flatten(res, 'max:' + uty)
            return ('HOLDS', '') if leaves == set(ad) else ('VIOLATION', 'maximum ranges over %s' % sorted(tm.show(x, 0, 3) for x in leaves))
        # checked_manhattan_distance: Some(sum) gated on every checked_add being Some
        d = res.discr.get((0, r.ret_ty)) if not isinstance(res, tm.T) else None
        if d is None:
            return ('UNVERIFIABLE', 'no discriminant')
        atoms = tm.atoms_of(d)
        need = set(x for x in a + b)
        if atoms != need:
            return ('VIOLATION', 'None/Some decision depends on %d of %d operand lanes' % (len(atoms), len(need)))
        # exact shape: a chain of checked_add over the abs_diff of every lane, None as soon as one step is None, payload = last step
        ad_ops = set(x.op for x in ad)
        allowed = {'checked_add:' + uty, 'some_val', 'is_some', 'ite', 'uninit', 'and', 'not', 'atom', 'c'} | ad_ops
        ops = {}
        seen = set()

        def walk(t):
            if t.id in seen:
                return
            seen.add(t.id)
            ops.setdefault(t.op, set()).add(t)
            for x in t.args:
                if isinstance(x, tm.T):
                    walk(x)
        walk(d)
        for (_sz, t_) in [c for o, c in res.cells.items() if isinstance(o, int)]:
            walk(t_)
        foreign = sorted(o for o in ops if o not in allowed)
        if foreign:
            return ('VIOLATION', 'checked_manhattan_distance uses %s; expected only checked_add over abs_diff' % foreign)
        steps = ops.get('checked_add:' + uty, set())
        if len(steps) != n - 1:
            return ('VIOLATION', 'checked_manhattan_distance has %d checked_add steps, expected %d' % (len(steps), n - 1))
        if set(t_ for o_ in ad_ops for t_ in ops.get(o_, set())) != set(ad):
            return ('VIOLATION', 'checked_manhattan_distance does not add abs_diff of exactly every lane once')
        gates = set(x.args[0] for x in ops.get('is_some', set()))
        if gates != steps:
            return ('VIOLATION', 'the Some/None decision does not test every checked_add step')
        return ('HOLDS', '')
    return (None, 'not a reduction')


RING_REDUCTIONS = {'dot', 'length_squared', 'distance_squared', 'element_sum', 'element_product', 'perp_dot', 'dot_into_vec', 'cross', 'perp', 'rotate', 'manhattan_distance'}
REDUCTIONS = {'is_negative_bitmask', 'perp', 'dot', 'length_squared', 'distance_squared', 'element_sum', 'element_product', 'perp_dot', 'dot_into_vec', 'cross',
              'rotate', 'min_element', 'max_element', 'min_position', 'max_position', 'manhattan_distance', 'chebyshev_distance',
              'checked_manhattan_distance'}


def run(ctx):
    configs = ctx.need(CONFIGS_QUICK if ctx.tier == 'quick' else CONFIGS_THOROUGH)
    ctx.trusted = TRUSTED_COMMON + ['integer primitive vocabulary: core::num::<impl T>::name is the uninterpreted symbol name:T (wrapping_add/sub/mul = ring ops)']
    for cfg in configs:
        F = ctx.facts(cfg)
        H = ctx.harness(cfg)
        n_lift = n_red = n_types = 0
        types = set()
        overflow_on = F.header['overflow_checks']
        for name, it, e in int_roots(F):
            mname = it.get('name')
            tr = (it.get('trait') or '').rsplit('::', 1)[-1]
            types.add((it.get('self_ty') or '').lstrip('&'))
            is_op = tr in OP_TRAITS
            if not is_op and mname in SKIP:
                ctx.count('not_c13_scope(constructors/conversions/fmt):' + cfg)
                continue
            if mname.startswith('as_') or (it.get('trait') and not is_op):
                ctx.count('not_c13_scope(constructors/conversions/fmt):' + cfg)
                continue
            r = H.run(it['key'])
            if r.abort:
                ctx.unverifiable('R-LIFT', cfg, name, 'not analysable: %s' % r.abort)
                continue
            body = F.body(it['key'])
            views = [ArgView(F, r, i, body['locals'][i + 1]) for i in range(body['argc'])]
            I = r.interp
            root_panics = list(r.panics)       # the oracle calls below append the primitive's own sites to the same list
            if mname in REDUCTIONS:
                n_red += 1
                v, msg = check_reduction(I, F, mname, e, views, r, it)
                if v == 'HOLDS' and overflow_on and mname in RING_REDUCTIONS:
                    vals = [r.ret] if isinstance(r.ret, tm.T) else (value_lanes(F, r.ret, r.ret_ty) or [])
                    why = panic_completeness(vals, root_panics, True)
                    if why:
                        v, msg = 'VIOLATION', why
                if v == 'HOLDS':
                    ctx.holds('R-REDUCE', cfg, name)
                elif v == 'VIOLATION':
                    ctx.violation('R-REDUCE', cfg, name, {'file': it['file'], 'line': it['line'], 'problem': msg})
                else:
                    ctx.unverifiable('R-REDUCE', cfg, name, msg)
                continue
            kind, rty, val = result_of(F, r, body)
            cm = CHECKED.match(mname) if not is_op else None
            if cm:
                n_lift += 1
                verdict = check_checked(I, F, ctx, cfg, name, it, e, views, r, mname)
                continue
            lanes = value_lanes(F, val, rty) if val is not None else None
            if lanes is None:
                ctx.unverifiable('R-LIFT', cfg, name, 'result of %s is not a vector (kind=%s); operation not classified' % (mname, kind))
                continue
            n_lift += 1
            ok, msg = check_uniform(views, lanes)
            if not ok:
                ctx.violation('R-LIFT', cfg, name, {'file': it['file'], 'line': it['line'], 'problem': 'not lane-uniform: ' + msg})
                continue
            # primitive agreement
            if mname in CMP:
                x, y = views[0].lanes[0], views[1].lanes[0]
                ety = views[0].elem
                exp = tm.iop(CMP[mname], ety, x, y)
                src = 'comparison predicate ' + CMP[mname]
            elif mname == 'select':
                exp = ite(views[0].lanes[0], views[1].lanes[0], views[2].lanes[0])
                src = 'select'
            elif mname == 'clamp':
                ety = views[0].elem
                exp = tm.iop('min', ety, tm.iop('max', ety, views[0].lanes[0], views[1].lanes[0]), views[2].lanes[0])
                src = 'min(max(x, lo), hi)'
            elif mname in ('min', 'max'):
                ety = views[0].elem
                exp = tm.iop(mname, ety, views[0].lanes[0], views[1].lanes[0])
                src = 'integer ' + mname
            else:
                exp, src = expected_lane0(I, F, it, e, views, mname if not is_op else mname)
                if exp is None:
                    ctx.unverifiable('R-LIFT', cfg, name, 'lane-uniform, but %s' % src)
                    continue
            if mname == 'clamp' and exp is not None and exp is not lanes[0]:
                # max(min(x, hi), lo) is the same value whenever lo <= hi, the documented (and asserted) precondition of clamp
                ety_ = views[0].elem
                alt_ = tm.iop('max', ety_, tm.iop('min', ety_, views[0].lanes[0], views[2].lanes[0]), views[1].lanes[0])
                if alt_ is lanes[0]:
                    exp = alt_
            if exp is not None and exp is not lanes[0]:
                # identical up to exact ring identities?
                ety = views[0].elem if views[0].kind != 'other' else e
                bits = int(ety[1:]) if ety[1:].isdigit() else 64
                if not (isinstance(exp, tm.T) and ring_eq(exp, lanes[0], bits)):
                    ctx.violation('R-LIFT', cfg, name, {'file': it['file'], 'line': it['line'],
                                                         'problem': 'lane schema %s is not the primitive %s = %s' % (tm.show(lanes[0], 0, 5)[:200], src, tm.show(exp, 0, 5)[:200])})
                    continue
            # panic sites: exactly the primitive's own, once per lane
            bad_panic = None
            oracle_panics = r.panics[len(root_panics):]

            def _core(c):
                # the failing condition itself (earlier conjuncts only say that no earlier site fired)
                return c.args[-1] if c.op == 'and' else c
            got_set = set(_core(p.cond) for p in root_panics if p.cond is not tm.FALSE)
            exp_set = set()
            nl = len(lanes)
            for p in oracle_panics:
                if p.cond is tm.FALSE:
                    continue
                for j in range(nl):
                    mp = {}
                    for v in views:
                        if v.kind in ('vec', 'mask') and v.lanes and j < len(v.lanes) and v.lanes[0] is not None:
                            mp[v.lanes[0]] = v.lanes[j]
                    exp_set.add(_core(tm.subst(p.cond, mp)))
            shift_only = (not exp_set) and got_set and all(p.kind == 'assert:overflow' and p.detail in ('Shl', 'Shr') for p in root_panics if p.cond is not tm.FALSE) \
                and len(got_set) <= nl and tr in ('Shl', 'Shr', 'ShlAssign', 'ShrAssign')
            if mname not in CMP and mname not in ('select', 'clamp', 'min', 'max') and got_set != exp_set and not shift_only:
                miss, extra = exp_set - got_set, got_set - exp_set
                if miss:
                    bad_panic = 'the primitive panics when %s, this operation does not (it silently continues)' % tm.show(sorted(miss, key=lambda t: t.id)[0], 0, 4)[:160]
                else:
                    bad_panic = 'panics when %s, the primitive does not' % tm.show(sorted(extra, key=lambda t: t.id)[0], 0, 4)[:160]
            for p in root_panics:
                at = tm.atoms_of(p.cond)
                lane_sets = []
                for j in range(len(lanes)):
                    s = set()
                    for v in views:
                        if v.kind in ('vec', 'mask') and j < len(v.lanes):
                            s.add(v.lanes[j])
                        elif v.kind == 'scalar':
                            s.add(v.lanes[0])
                    lane_sets.append(s)
                if not any(at <= s for s in lane_sets):
                    bad_panic = 'panic condition %s mixes lanes' % tm.show(p.cond, 0, 4)[:160]
            if bad_panic:
                ctx.violation('R-LIFT', cfg, name, {'file': it['file'], 'line': it['line'], 'problem': bad_panic})
                continue
            ctx.holds('R-LIFT', cfg, name, src)
            if n_lift % 900 == 5:
                ctx.sample({'config': cfg, 'fn': name, 'lane0': tm.show(lanes[0], 0, 5)[:160], 'primitive': src, 'panic_sites': len(r.panics)})
        # Sum / Product over iterators are left folds of + / * from ZERO / ONE (generic bodies, rules/fold.py)
        import fold

        def _done(rule, name, bad, it):
            if bad:
                ctx.violation(rule, cfg, name, {'file': it['file'], 'line': it['line'], 'problem': bad})
            else:
                ctx.holds(rule, cfg, name)
        nfold = fold.check_folds(ctx, cfg, F, H, lambda tn: 'int' if re.match(r'^(I|U)(8|16|64)?Vec[234]$|^USizeVec[234]$|^ISizeVec[234]$', tn) else None, _done)
        ctx.floor('Sum / Product impls of integer vectors (%s)' % cfg, nfold, 100)
        ctx.floor('lane-wise integer operations (%s)' % cfg, n_lift, FLOOR_LIFT)
        ctx.floor('integer reductions (%s)' % cfg, n_red, FLOOR_REDUCE)
        ctx.floor('integer vector types (%s)' % cfg, len([t for t in types if re.match(r'^\w+::\w+::\w+Vec[234]$', t)]), 27)
    ctx.extra['exhaustive'] = True


def check_checked(I, F, ctx, cfg, name, it, e, views, r, mname):
    """Option<V>: Some(lanes) iff every lane's primitive is Some; payload lanes are the primitives' values"""
    res = r.ret
    if isinstance(res, tm.T):
        ctx.unverifiable('R-LIFT', cfg, name, 'checked op returned a scalar')
        return
    d = res.discr.get((0, r.ret_ty))
    t = F.types[r.ret_ty]
    some = [v for v in t['variants']['vs'] if v['name'] == 'Some'][0]
    (poff, pty, _n) = some['fields'][0]
    pv = vec_info(F, pty)
    n = views[0].dim
    prims = []
    for j in range(n):
        args = [v.lanes[j] if v.kind == 'vec' else v.lanes[0] for v in views if v.kind in ('vec', 'scalar')]
        selfty = views[0].elem
        rn = {'i64': 'i64'}.get(selfty, selfty)
        pr = None
        for cand in (rust_names(selfty, F)):
            pr = oracle_call(I, F, 'core::num::<impl %s>::%s' % (cand, mname), args)
            if pr is not None:
                break
        if pr is None or isinstance(pr, tm.T):
            ctx.unverifiable('R-LIFT', cfg, name, 'no primitive %s for %s' % (mname, selfty))
            return
        prims.append(pr)
    # expected discriminant: nested gating in lane order (short-circuit) == conjunction
    conds = []
    vals = []
    for pr in prims:
        pd = list(pr.discr.values())[0]
        # pd = ite(is_some, 1, 0)
        if pd.op == 'ite' and tm.is_const(pd.args[1]) and tm.cbits(pd.args[1]) == 1:
            conds.append(pd.args[0])
        elif tm.is_const(pd):
            conds.append(tm.TRUE if tm.cbits(pd) == 1 else tm.FALSE)
        else:
            ctx.unverifiable('R-LIFT', cfg, name, 'primitive discriminant shape')
            return
        vals.append(list(pr.cells.values())[0][1])
    exp_d = const(0, 16)
    for c in reversed(conds):
        exp_d = ite(c, exp_d if exp_d is not const(0, 16) or c is conds[-1] else exp_d, const(0, 16)) if False else None
    # build nested: ite(c0, ite(c1, ... ite(c_{n-1}, 1, 0) ..., 0), 0)
    exp_d = const(1, 16)
    for c in reversed(conds):
        exp_d = ite(c, exp_d, const(0, 16))
    if d is not exp_d:
        ctx.violation('R-LIFT', cfg, name, {'file': it['file'], 'line': it['line'],
                                             'problem': 'Some/None decision %s is not "all %d lanes Some" %s' % (tm.show(d, 0, 6)[:240], n, tm.show(exp_d, 0, 6)[:240])})
        return
    allc = tm.b_and(*conds)
    for j, (off, sz) in enumerate(pv['lanes']):
        c = res.cells.get(poff + off)
        got = c[1] if c else None
        # strip the gating: payload is only meaningful when Some
        exp = vals[j]
        g = got
        while g is not None and g.op == 'ite' and g.args[2] is tm.UNINIT:
            g = g.args[1]
        if g is not exp:
            ctx.violation('R-LIFT', cfg, name, {'file': it['file'], 'line': it['line'],
                                                 'problem': 'payload lane %d is %s, expected %s' % (j, tm.show(g, 0, 5)[:200] if g is not None else None, tm.show(exp, 0, 5)[:200])})
            return
    ctx.holds('R-LIFT', cfg, name, 'checked: all lanes')


def rust_names(elem, F):
    if elem == 'u64' and F.ptr_size == 8:
        return ['u64', 'usize']
    if elem == 'i64' and F.ptr_size == 8:
        return ['i64', 'isize']
    return [elem]
