"""R-APPROX: accuracy certificates for glam's polynomial approximations, by interval abstract interpretation (engine/lane/interval.py).

For the term rustc's MIR denotes - coefficients, Horner order, range reduction, branch conditions exactly as compiled - the rule proves
    | fl(term)(v) - reference(v) | <= tol      for every real v in the stated domain
where fl() includes the binary32 rounding of every operation (running error bound) and the real part is enclosed by a mean-value form
(interval forward differentiation) with adaptive bisection; boxes containing kinks fall back to plain interval evaluation.  Nothing is
sampled: each box is an enclosure, the union of boxes is the domain.  A failed certificate with a point whose tight enclosure exceeds the
bound is a VIOLATION (the point is reported); a failure without such a point is UNDECIDED and trips the floor.
Trusted: binary64 libm acos/sin/cos/sqrt of the analysing Python are within 1 ulp (padded to 4e-16 absolute)."""
import math
import re
import terms as tm
import interval
from interval import _dn, _up, Undetermined
from lift import rounding_rewrite

PAD = 4e-16


def _acos_val(a, b):
    a2, b2 = min(1.0, max(-1.0, a)), min(1.0, max(-1.0, b))
    return (math.acos(b2) - PAD, math.acos(a2) + PAD)


def _acos_der(a, b):
    if a <= -1.0 or b >= 1.0:
        raise Undetermined('derivative of acos is unbounded at the ends')
    m2 = max(a * a, b * b)
    n2 = 0.0 if a <= 0.0 <= b else min(a * a, b * b)
    return (_dn(-1.0 / math.sqrt(_dn(1.0 - _up(m2))) * (1 + 1e-15)), _up(-1.0 / math.sqrt(_up(1.0 - _dn(n2))) * (1 - 1e-15)))


def _trig_range(f, a, b, peaks_at):
    """enclosure of sin (peaks at pi/2 + k pi) or cos (peaks at k pi) on [a, b]"""
    vals = [f(a), f(b)]
    lo, hi = min(vals) - PAD, max(vals) + PAD
    k = math.ceil((a - peaks_at) / math.pi)
    x = peaks_at + k * math.pi
    while x <= b:
        v = f(x)
        if v > 0:
            hi = 1.0
        else:
            lo = -1.0
        k += 1
        x = peaks_at + k * math.pi
    return (max(lo, -1.0), min(hi, 1.0))


def _sin_val(a, b):
    return _trig_range(math.sin, a, b, math.pi / 2)


def _sin_der(a, b):
    return _trig_range(math.cos, a, b, 0.0)


# (item-name suffix, lane, reference, derivative, domain, breakpoints, tolerance, what)
CERTS = [
    ('f32::math::acos_approx_f32', None, _acos_val, _acos_der, (-1.5, 1.5), (-1.0, 0.0, 1.0), 1.0e-6,
     '|acos_approx(v) - acos(clamp(v, -1, 1))| <= 1e-6 for all v in [-1.5, 1.5], binary32 rounding included'),
    ('sse2::m128_sin', 0, _sin_val, _sin_der, (-2 * math.pi, 2 * math.pi), (-math.pi, -math.pi / 2, 0.0, math.pi / 2, math.pi), 2.0e-6,
     '|m128_sin(v) - sin(v)| <= 2e-6 for all v in [-2 pi, 2 pi], binary32 rounding and the 2 pi range reduction included'),
]


SIN_RE = re.compile(r'(^|::)sse2::m128_sin\w*$')


def sin_helpers(F):
    """names of the SSE2 backend's own sine helper(s): any non-generic fn of module sse2 whose name starts with m128_sin (so a rename that
    keeps the prefix is followed; the certificate below, not the name, is what establishes that the function is a sine)"""
    return sorted(n for n, it in F.items.items() if SIN_RE.search(n) and not it.get('generic') and F.has_body(it['key']))


def run_certs(ctx, cfg, F, H, which):
    """which: iterable of item names / name suffixes to certify in this configuration.  -> number proved"""
    n_ok = 0
    for (suffix, lane, rv, rd, dom, bps, tol, what) in CERTS:
        if suffix == 'sse2::m128_sin':
            its = [(n, F.items[n]) for n in sin_helpers(F) if n in which or suffix in which]
        elif suffix not in which:
            continue
        else:
            its = [(n, it) for n, it in F.items.items() if n.endswith(suffix) and not it.get('generic')]
        if not its:
            continue
        name, it = its[0]
        r = H.run(it['key'])
        if r.abort or r.ret is None:
            ctx.unverifiable('R-APPROX', cfg, name, r.abort or 'diverges')
            continue
        t = r.ret
        if not isinstance(t, tm.T):
            c = t.cells.get(lane * 4)
            t = c[1] if c else None
        atoms = [a for a, info in r.atoms.items() if info.off == (0 if lane is None else lane * 4)]
        if t is None or len(atoms) != 1:
            ctx.unverifiable('R-APPROX', cfg, name, 'result lane / operand atom not found')
            continue
        t = rounding_rewrite(t)
        res = interval.certify_mv(t, atoms[0], dom[0], dom[1], 4, rv, rd, tol, breakpoints=bps)
        where = {'file': it['file'], 'line': it['line']}
        if res['ok'] is True:
            n_ok += 1
            ctx.holds('R-APPROX', cfg, name, {'certified': what, 'boxes': res['boxes'], 'largest_box_bound': res['worst']})
            ctx.sample({'config': cfg, 'fn': name, 'certificate': what, 'boxes': res['boxes'], 'largest_box_bound': res['worst']})
        elif res['ok'] is False:
            ctx.violation('R-APPROX', cfg, name, dict(where, problem='accuracy bound fails: %s.  At v = %r the computed value lies in [%r, %r] and the reference in [%r, %r]'
                                                      % (what, res['witness'], res['value'][0], res['value'][1], res['reference'][0], res['reference'][1])))
        else:
            ctx.undecided('R-APPROX', cfg, name, 'certificate not established: %s' % res.get('why'))
    return n_ok


def run_f64_acos(ctx, cfg, F, H):
    """f64: acos_approx(v) is the exact composition acos(clamp(v, -1, 1)) (no polynomial): decided structurally"""
    from lift import canon_float
    n = 0
    for name, it in F.items.items():
        if it.get('generic') or not (name.startswith('f64::math::') and name.endswith('::acos_approx')):
            continue
        r = H.run(it['key'])
        if r.abort or not isinstance(r.ret, tm.T):
            ctx.unverifiable('R-APPROX', cfg, name, r.abort or 'no scalar result')
            continue
        v = [a for a in r.atoms][0]
        one, mone = tm.fconst(1.0, 8), tm.fconst(-1.0, 8)
        lo = tm.ite(tm.f2('flt', v, mone), mone, v)
        cl = tm.ite(tm.f2('flt', one, lo), one, lo)
        exp = [tm.mk('acos', cl), tm.mk('acos', tm.mk('fmin~', *sorted((one, tm.mk('fmax~', *sorted((mone, v)))))))]
        got = r.ret
        if got in exp or canon_float(got) in [canon_float(e) for e in exp]:
            ctx.holds('R-APPROX', cfg, name, 'acos(clamp(v, -1, 1))')
            n += 1
        else:
            ctx.violation('R-APPROX', cfg, name, {'file': it['file'], 'line': it['line'], 'problem': 'f64 acos_approx is not acos(clamp(v, -1, 1)): %s' % tm.show(canon_float(got), 0, 6)[:240]})
    return n
