"""C10 - scale-rotation-translation composition and decomposition are mutually consistent.

R-ALG: every from_*SRT / from_*_translation constructor on Mat4/DMat4, Affine3A/DAffine3, Affine2/DAffine2 and Mat3 (2D forms)
equals translation * rotation * scale of the documented elementary factors (so siblings agree); decomposition returns the last
column as translation (bit copy), column lengths as scale with the determinant sign on x, and atan2(-y.x, y.y) as the 2D angle.
The rotation returned by to_scale_rotation_translation is from_rotation_axes of the columns each divided by its own returned scale
(srt_rotation).  With C05 R-ROUNDTRIP (from_rotation_axes inverts from_quat up to sign) and the composition rule above this gives the
recomposition identity for every matrix that is T*R*S with non-zero scale, in real arithmetic, as a chain of decided clauses; the chain is
not re-derived as one polynomial identity here, and rounding is not bounded."""
import re
import terms as tm
import nf
from spec import Spec
from matmodel import MatModel, DIMS
from lift import value_lanes, strip_ref, ArgView
from common import api_roots, vec_info, tydef, atom_at, cell_term, TRUSTED_COMMON

LEVEL = 'other'
TECHNIQUE = 'polynomial identity checking of MIR-extracted matrix entries against T*R*S reference products; provenance analysis of decomposition outputs'
EXPLANATION = ('Decides for all inputs that the SRT constructors are translation*rotation*scale (columns scaled, not rows; translation unscaled) on every matrix/affine type, '
               'and that decomposition reads translation/scale/angle from the documented entries and rebuilds the rotation from the columns divided by the returned scale.  Rounding of the round trip is not bounded.')
LEVEL_NOTE = 'Decides the composition clause and the structural part of decomposition. Trusted: rustc MIR, intrinsic table, rules/spec.py.'

CONFIGS_QUICK = ['sse2', 'sse2-fma', 'sse41', 'scalar', 'coresimd', 'neon', 'wasm32']
CONFIGS_THOROUGH = ['sse2', 'sse2-fma', 'sse41', 'scalar', 'coresimd', 'neon', 'wasm32']
CTORS3 = {'from_scale_rotation_translation', 'from_rotation_translation', 'from_mat3_translation', 'from_scale', 'from_translation', 'from_quat', 'from_mat3'}
CTORS2 = {'from_scale_angle_translation', 'from_scale_angle', 'from_angle_translation', 'from_mat2_translation', 'from_scale', 'from_translation', 'from_mat2'}
TYPES3 = {'Mat4', 'DMat4', 'Affine3A', 'DAffine3'}
TYPES2 = {'Mat3', 'Mat3A', 'DMat3', 'Affine2', 'DAffine2', 'Mat2', 'DMat2'}


def srt_rotation(F, H, M, r, rty, fields, e, so, sv, alg, S, d):
    """the rotation returned by to_scale_rotation_translation is from_rotation_axes of the columns each divided by its own scale:
    every column entry enters the quaternion only as entry * X_c with X_c * scale_c == 1, and from_rotation_axes interpreted on exactly
    those values reproduces the returned quaternion term for term"""
    (ro, qty, _) = fields[1]
    qv = vec_info(F, qty)
    if qv is None:
        return 'rotation field is not a quaternion'
    rq = [cell_term(r.ret, ro + off, sz) for (off, sz) in qv['lanes']]
    if any(x is None for x in rq):
        return 'rotation lanes not found'
    X = {}
    seen = set()
    st = list(rq)
    ent_at = {e[(c, rr)]: (c, rr) for c in range(d) for rr in range(d)}
    while st:
        t = st.pop()
        if t.id in seen:
            continue
        seen.add(t.id)
        if t.op == 'fmul' and len(t.args) == 2:
            for a_, x_ in ((t.args[0], t.args[1]), (t.args[1], t.args[0])):
                if a_ in ent_at and x_ not in ent_at:
                    X.setdefault(ent_at[a_][0], set()).add(x_)
        st.extend(x for x in t.args if isinstance(x, tm.T))
    for c in range(d):
        sc = cell_term(r.ret, so + sv['lanes'][c][0], sv['esz'])
        good = []
        for x in X.get(c, set()):
            try:
                if S.eq(S.mul(alg.nf(x), alg.nf(sc)), S.c(1)):
                    good.append(x)
            except ValueError:
                pass
        if len(good) != 1:
            return 'column %d does not enter the rotation rescaled by 1 / scale.%s (%d such factors among %d products with its entries)' % (c, 'xyz'[c], len(good), len(X.get(c, set())))
        X[c] = {good[0]}
    # from_rotation_axes on exactly those normalised columns
    qn = tydef(F, qty)
    key = None
    for n2, it2 in F.items.items():
        if it2.get('name') == 'from_rotation_axes' and not it2.get('trait') and not it2.get('generic') and (it2.get('self_ty') or '').rsplit('::', 1)[-1] == qn:
            key = it2['key']
            b2 = F.body(key)
            break
    if key is None:
        return 'from_rotation_axes of %s not found' % qn
    from interp import Agg
    av = {}
    for c in range(d):
        aty = strip_ref(F, b2['locals'][1 + c])[0]
        vi = vec_info(F, aty)
        ag = Agg(F.types[aty]['sz'])
        for rr in range(d):
            ag.cells[vi['lanes'][rr][0]] = (vi['esz'], tm.f2('fmul', e[(c, rr)], list(X[c])[0]))
        av[c] = ag
    r2 = H.run(key, arg_values=av)
    if r2.abort or r2.ret is None:
        return 'from_rotation_axes not analysable on the normalised columns: %s' % r2.abort
    q2 = value_lanes(F, r2.ret, b2['locals'][0])
    if q2 is None or any(a is not b for a, b in zip(q2, rq)):
        return 'the rotation is not from_rotation_axes(columns / scale)'
    return None


def run(ctx):
    configs = ctx.need(CONFIGS_QUICK if ctx.tier == 'quick' else CONFIGS_THOROUGH)
    ctx.trusted = TRUSTED_COMMON + ['reference mathematics rules/spec.py (quaternion rotation matrix, 2D rotation)']
    for cfg in configs:
        F = ctx.facts(cfg)
        H = ctx.harness(cfg)
        M = MatModel(F, H)
        counts = {}

        def done(rule, name, bad, it):
            counts[rule] = counts.get(rule, 0) + 1
            if bad:
                ctx.violation(rule, cfg, name, {'file': it['file'], 'line': it['line'], 'problem': bad})
            else:
                ctx.holds(rule, cfg, name)

        for name, it in api_roots(F):
            st = (it.get('self_ty') or '').lstrip('&')
            tname = st.rsplit('::', 1)[-1]
            mname = it.get('name') or ''
            if it.get('trait') or tname not in (TYPES3 | TYPES2):
                continue
            body = F.body(it['key'])
            argtys = body['locals'][1:1 + body['argc']]
            rty = body['locals'][0]
            is3 = tname in TYPES3
            if (is3 and mname in CTORS3) or (not is3 and mname in CTORS2):
                r = H.run(it['key'])
                if r.abort or r.panics:
                    done('R-ALG', name, r.abort or 'reachable panic %r' % (r.panics[0],), it)
                    continue
                mi = M.info(rty)
                ent = M.entries(r.ret, rty)
                if mi is None or ent is None:
                    continue
                alg = nf.Algebra()
                S = Spec(alg)
                ent = {k: alg.nf(v) for k, v in ent.items()}
                # classify arguments by type
                scale = rot = trans = lin = None
                d = 3 if is3 else 2
                for i, aty in enumerate(argtys):
                    base, by_ref = strip_ref(F, aty)
                    tn = tydef(F, base) or ''
                    vi = vec_info(F, base)
                    if tn in ('Quat', 'DQuat'):
                        q = [alg.nf(a) for a in ArgView(F, r, i, aty).lanes]
                        rot = S.quat_matrix(q)
                    elif M.info(base) is not None:
                        e, smi = M.arg_entries(r, i, aty)
                        lin = {k: alg.nf(v) for k, v in e.items()}
                    elif vi is not None:
                        lanes = [alg.nf(a) for a in ArgView(F, r, i, aty).lanes]
                        # order of vector arguments: scale first, translation last (by the method name)
                        if 'scale' in mname and scale is None and not (mname == 'from_scale' and False):
                            scale = lanes
                        else:
                            trans = lanes
                    elif F.types[base].get('k') == 'float':
                        ang = alg.nf(atom_at(r, i, 0, by_ref))
                        s_, c_ = alg.sin_r(ang), alg.cos_r(ang)
                        rot = {(0, 0): c_, (0, 1): s_, (1, 0): S.neg(s_), (1, 1): c_}
                if mname == 'from_translation':
                    trans, scale = scale or trans, None
                if rot is None and lin is not None:
                    rot = lin
                bad = None
                for c in range(mi['cols']):
                    for rr in range(mi['rows']):
                        if c < d and rr < d:
                            if rot is not None:
                                exp = rot[(c, rr)]
                            else:
                                exp = S.c(1) if c == rr else S.c(0)
                            if scale is not None:
                                exp = S.mul(exp, scale[c])
                        elif c == mi['cols'] - 1 and rr < d and (mi['cols'] > d):
                            exp = trans[rr] if trans is not None else S.c(0)
                        else:
                            exp = S.c(1) if c == rr else S.c(0)
                        if not S.eq(ent[(c, rr)], exp):
                            bad = '%s: entry (col %d,row %d) is %s, expected translation*rotation*scale' % (mname, c, rr, ent[(c, rr)][0].show(alg.name, 6))
                            break
                    if bad:
                        break
                done('R-ALG', name, bad, it)
            elif mname in ('to_scale_rotation_translation', 'to_scale_angle_translation'):
                r = H.run(it['key'])
                if r.abort or r.panics:
                    done('R-DECOMP', name, r.abort or 'reachable panic %r' % (r.panics[0],), it)
                    continue
                alg = nf.Algebra()
                S = Spec(alg)
                e, mi = M.arg_entries(r, 0, argtys[0])
                t = F.types[rty]
                fields = t['fields']
                d = 3 if is3 else 2
                bad = None
                # translation: bit copy of the last column
                (to, tty, _) = fields[2]
                tv = vec_info(F, tty)
                for rr in range(d):
                    got = cell_term(r.ret, to + tv['lanes'][rr][0], tv['esz'])
                    if got is not e[(mi['cols'] - 1, rr)]:
                        bad = 'translation component %d is not entry (last column,row %d)' % (rr, rr)
                # scale: column lengths, determinant sign on x
                (so, sty, _) = fields[0]
                sv = vec_info(F, sty)
                # Mat4/DMat4 measure the full stored column (w = 0 for an affine matrix) and use the 4x4 determinant
                full = mi['rows'] if mi['rows'] == mi['cols'] else d
                cols = [[alg.nf(e[(c, rr)]) for rr in range(full)] for c in range(d)]
                blk = {(c, rr): alg.nf(e[(c, rr)]) for c in range(full) for rr in range(full)}
                det = S.det(blk, full)
                for c in range(d):
                    got = cell_term(r.ret, so + sv['lanes'][c][0], sv['esz'])
                    ln = alg.sqrt_r(S.dot(cols[c], cols[c]))
                    # the documented input is affine (stored w of every axis is 0): measuring the xyz part of a 4x4 column is the same length
                    ln3 = alg.sqrt_r(S.dot(cols[c][:d], cols[c][:d]))

                    def is_len(x):
                        return S.eq(alg.nf(x), ln) or S.eq(alg.nf(x), ln3)
                    if c == 0:
                        ok = got is not None and got.op == 'fmul'
                        if got is not None and got.op == 'copysign' and is_len(got.args[0]) and S.eq(alg.nf(got.args[1]), det):
                            continue          # copysign(|column 0|, det): the same value as |column 0| * signum(det) for every det that is not NaN
                        if ok:
                            fac = [x for x in got.args if is_len(x)]
                            sg = [x for x in got.args if x not in fac]
                            ok = len(fac) >= 1 and len(sg) == 1
                            if ok:
                                cs = sg[0].args[2] if sg[0].op == 'ite' else sg[0]
                                ok = cs.op == 'copysign' and S.eq(alg.nf(cs.args[1]), det)
                        if not ok:
                            bad = 'scale.x is not |column 0| * signum(det)'
                    elif got is None or not is_len(got):
                        bad = bad or 'scale component %d is not the length of column %d' % (c, c)
                if not bad and mname == 'to_scale_rotation_translation':
                    bad = srt_rotation(F, H, M, r, rty, fields, e, so, sv, alg, S, d)
                if not bad and mname == 'to_scale_angle_translation':
                    (ao, aty_, _) = fields[1]
                    got = cell_term(r.ret, ao, F.types[aty_]['sz'])
                    if got is None or got.op != 'atan2' or not S.eq(alg.nf(got.args[0]), S.neg(alg.nf(e[(1, 0)]))) or not S.eq(alg.nf(got.args[1]), alg.nf(e[(1, 1)])):
                        bad = 'angle is not atan2(-y_axis.x, y_axis.y)'
                done('R-DECOMP', name, bad, it)
        ctx.floor('SRT constructor instances (%s)' % cfg, counts.get('R-ALG', 0), 40)
        ctx.floor('decomposition instances (%s)' % cfg, counts.get('R-DECOMP', 0), 6)
        for k, v in sorted(counts.items()):
            ctx.count('%s:%s' % (k, cfg), v)
    ctx.extra['exhaustive'] = True
