"""R-LIFT machinery: lane views, lane-uniformity by substitution, same-named-primitive oracle."""
import re
import terms as tm
from terms import T, mk, const, ite, TRUE, FALSE
from interp import Agg, Abort, Frame
from common import vec_info, tydef, atom_at, cell_term, leaves_plain, hidden_offsets

SCALAR_KINDS = ('int', 'float', 'bool')


def scalar_name(F, tyid):
    t = F.types[tyid]
    k = t.get('k')
    if k == 'int':
        return ('i' if t['signed'] else 'u') + str(t['sz'] * 8)
    if k == 'float':
        return 'f' + str(t['sz'] * 8)
    if k == 'bool':
        return 'bool'
    return None


def rust_scalar_name(F, tyid):
    return F.types[tyid]['n']


def strip_ref(F, tyid):
    t = F.types[tyid]
    if t.get('k') == 'ptr' and t.get('fat') is None:
        return t['to'], True
    return tyid, False


class ArgView(object):
    """how an argument presents lanes: kind in {'vec','mask','scalar','other'}"""

    def __init__(self, F, root, argi, tyid):
        self.argi = argi
        base, self.by_ref = strip_ref(F, tyid)
        self.ty = base
        self.kind = 'other'
        self.lanes = None
        self.dim = 0
        vi = vec_info(F, base)
        t = F.types[base]
        if vi is not None:
            self.kind = 'mask' if vi['name'].startswith('BVec') else 'vec'
            self.dim = vi['dim']
            self.vi = vi
            self.lanes = [atom_at(root, argi, off, self.by_ref) for (off, sz) in vi['lanes']]
            self.elem = vi['elem']
        elif t.get('k') in SCALAR_KINDS:
            self.kind = 'scalar'
            self.lanes = [atom_at(root, argi, 0, self.by_ref)]
            self.elem = scalar_name(F, base)


def value_lanes(F, v, tyid):
    """lane terms of a vector-typed value (visible lanes only); masks -> booleans"""
    vi = vec_info(F, tyid)
    if vi is None:
        return None
    out = []
    for (off, sz) in vi['lanes']:
        c = cell_term(v, off, sz)
        if c is None:
            return None
        if vi['name'].startswith('BVec') and sz > 1:
            b = tm.mask_bool(c)
            c = b if b is not None else mk('lane_true', c)
        out.append(c)
    return out


def result_of(F, r, it_body):
    """(kind, tyid, value) of a root's result: the return value, or for `&mut self` fns returning
    unit the pointee of argument 0 after the call"""
    rt = r.ret_ty
    if F.types[rt]['sz'] == 0:
        for (argi, base, oid, pty, mut, ln) in r.arg_objs:
            if argi == 0 and mut and base == 0:
                obj = r.heap.get(oid)
                if obj is not None:
                    return ('assign', pty, obj)
        return ('unit', rt, None)
    return ('ret', rt, r.ret)


def lane_mapping(views, j):
    m = {}
    for v in views:
        if v.kind in ('vec', 'mask') and v.lanes[0] is not None and j < len(v.lanes) and v.lanes[j] is not None:
            m[v.lanes[0]] = v.lanes[j]
    return m


def check_uniform(views, lanes):
    """lane j == lane 0 with every vector argument's lane-0 atom replaced by its lane-j atom.
    -> (ok, message)"""
    if not lanes:
        return False, 'no lanes'
    lane0_atoms = set()
    other_lane_atoms = set()
    for v in views:
        if v.kind in ('vec', 'mask'):
            if v.lanes[0] is not None:
                lane0_atoms.add(v.lanes[0])
            for a in v.lanes[1:]:
                if a is not None:
                    other_lane_atoms.add(a)
    t0 = lanes[0]
    cross = tm.atoms_of(t0) & other_lane_atoms
    if cross:
        return False, 'lane 0 of the result depends on %s' % sorted(tm.show(x) for x in cross)
    for j in range(1, len(lanes)):
        exp = tm.subst(t0, lane_mapping(views, j))
        if exp is not lanes[j]:
            return False, 'lane %d is %s but lane 0 lifted to lane %d is %s' % (j, tm.show(lanes[j], 0, 5)[:240], j, tm.show(exp, 0, 5)[:240])
    return True, ''


# -------------------------------------------------------------------------------------------
# oracle: run the same-named scalar primitive through the same engine

_CALLEE_INDEX = {}


def callee_index(F):
    idx = _CALLEE_INDEX.get(id(F))
    if idx is None:
        idx = {}
        norm = re.compile(r'\bstd::')
        for k in F.body_keys():
            b = F.body(k)
            for bb in b['blocks']:
                if bb is None:
                    continue
                t = bb['t']
                if t[0] == 'call' and 'd' in t[1]:
                    d = norm.sub('core::', t[1]['d'])
                    key = d
                    if t[1].get('tg'):
                        key = d + '|' + ','.join(t[1]['tg'])
                    if key not in idx:
                        idx[key] = (t[1], t[3][2], [a[1][2] if a[0] in 'cm' else (a[1][-1] if isinstance(a[1][-1], int) else None) for a in t[2]])
                    if d not in idx:
                        idx[d] = idx[key]
        _CALLEE_INDEX[id(F)] = idx
    return idx


def oracle_call(I, F, path, args, tg=None):
    """call the resolved callee with def-path `path` (normalised) on abstract args.
    -> value or None if that callee never occurs in the crate"""
    idx = callee_index(F)
    ent = idx.get(path + '|' + tg) if tg else idx.get(path)
    if ent is None:
        return None
    callee, dest_ty, arg_tys = ent
    fr = Frame({'d': '<oracle:%s>' % path, 'file': '<oracle>', 'locals': [], 'blocks': [], 'key': '<oracle>'}, '<oracle>')
    argops = [['k', ['ty', ty]] for ty in arg_tys]
    d = I.norm_path(callee['d'])
    fn = I.leaf.get(d)
    if fn is not None:
        from interp import NOTLEAF, DIVERGE
        res = fn(I, fr, callee, list(args), dest_ty, argops, 0)
        if res is not NOTLEAF and res is not DIVERGE:
            return res
    if callee.get('body') and F.has_body(callee['k']):
        return I.call_body(callee['k'], list(args), 0)
    return None


def prim_paths(elem_rust, name, trait=None, rhs_rust=None):
    """candidate def-paths of the scalar primitive with the same name"""
    out = []
    w = elem_rust
    if trait:
        t = trait.replace('std::', 'core::')
        if t.endswith('Assign'):
            t = t[:-6]
            name = name[:-7]
        if rhs_rust and rhs_rust != w:
            out.append('<%s as %s<%s>>::%s' % (w, t, rhs_rust, name))
        out.append('<%s as %s>::%s' % (w, t, name))
        return out
    if w in ('f32', 'f64'):
        out.append('core::%s::<impl %s>::%s' % (w, w, name))
    else:
        out.append('core::num::<impl %s>::%s' % (w, name))
    out.append('core::cmp::impls::<impl core::cmp::Ord for %s>::%s' % (w, name))
    out.append('core::cmp::Ord::%s|%s' % (name, w))
    return out


# -------------------------------------------------------------------------------------------
# "equal on non-NaN lanes, -0 == +0, NaN == NaN" canonicalisation used by C01 / C07

def canon_float(t, memo=None):
    """rewrites valid up to the equivalences the properties grant:
       ite(flt(a,b), a, b) / fmin_nanprop / fmin  ->  fmin~(a,b)   (min on non-NaN lanes)
       ite(flt(b,a), a, b) / ...                  ->  fmax~(a,b)
       ite(fne(x,x), x, e)                        ->  ite(fne(x,x), NaN, e)   (NaN matches NaN)"""
    if memo is None:
        memo = {}
    r = memo.get(t.id)
    if r is not None:
        return r
    if t.op in ('atom', 'c', 'top', 'uninit', 'ptr'):
        memo[t.id] = t
        return t
    args = [canon_float(a, memo) if isinstance(a, T) else a for a in t.args]
    op = t.op
    r = None
    if op == 'ite':
        c, a, b = args
        if c.op == 'flt':
            x, y = c.args
            if a is x and b is y:
                r = mk('fmin~', *sorted((x, y)))
            elif a is y and b is x:
                r = mk('fmax~', *sorted((x, y)))
        elif c.op == 'not' and c.args[0].op == 'fle':
            # !(x <= y) ? a : b   -- on non-NaN lanes this is  y < x ? a : b
            x, y = c.args[0].args
            if a is x and b is y:
                r = mk('fmax~', *sorted((x, y)))
            elif a is y and b is x:
                r = mk('fmin~', *sorted((x, y)))
        if r is None and c.op == 'fne' and c.args[0] is c.args[1] and a is c.args[0]:
            sz = 4
            r = ite(c, mk('NaN'), b)
        if r is None and c.op == 'fne' and c.args[0] is c.args[1] and a.op == 'c':
            try:
                f = tm.f_of(a)
                if f != f:
                    r = ite(c, mk('NaN'), b)
            except Exception:
                pass
    elif op == 'fle':
        # on non-NaN lanes  a <= b  is  !(b < a)
        r = tm.b_not(tm.f2('flt', args[1], args[0]))
    elif op in ('fmin', 'fmin_nanprop'):
        r = mk('fmin~', *sorted(args))
    elif op in ('fmax', 'fmax_nanprop'):
        r = mk('fmax~', *sorted(args))
    if r is None:
        r = tm.rebuild(op, args) if any(x is not y for x, y in zip(args, t.args)) else t
    memo[t.id] = r
    return r


def flatten_aci(t, opname):
    if t.op == opname:
        s = set()
        for a in t.args:
            s |= flatten_aci(a, opname)
        return s
    return {t}


# -------------------------------------------------------------------------------------------
# integer round-trip rounding algorithms (DirectXMath XMVectorTruncate / Floor / Ceil as used by src/sse2.rs)
#
# Trusted float facts (binary32; each is a statement about IEEE arithmetic, none about glam):
#   F1  for a constant c with 2^23 <= c <= 2^31:  (bits(|x|) <s bits(c))  <=>  x is not NaN and |x| < c
#   F2  if |x| < 2^31:  int->float(cvtt(x)) == trunc(x)   (cvtt truncates toward zero exactly; the result fits i32; |x| >= 2^24 are
#       integers already, smaller ones convert back exactly) - as a value, the sign of a zero result may differ
#   F3  int->float(all-ones lane) == -1.0, int->float(0) == +0.0
#   F4  if |x| < 2^31:  trunc(x) + (x < trunc(x) ? -1 : 0) == floor(x)  and  trunc(x) - (trunc(x) < x ? -1 : 0) == ceil(x), exactly
#       (|x| < 2^23: |trunc(x)| + 1 <= 2^23 is representable; larger |x| are integers and the comparison is false)
#   F5  if x is NaN, infinite or |x| >= 2^23 then trunc(x), floor(x), ceil(x) all equal x (NaN matches NaN)
# Hence  ite(G_c(x), R(x), x) == R(x)  for R in {trunc, floor, ceil} written as above.

_RT_LO = 0x4B000000   # 2^23
_RT_HI = 0x4F000000   # 2^31


def _rt_guard(c):
    """-> x when c is  bits(|x|) <s bits(const in [2^23, 2^31])"""
    if c.op == 'lt:i32' and len(c.args) == 2 and c.args[0].op == 'fabs' and tm.is_const(c.args[1]) and tm.csize(c.args[1]) == 4:
        if _RT_LO <= tm.cbits(c.args[1]) <= _RT_HI:
            return c.args[0].args[0]
    return None


RT_DIAG = []     # reasons collected while classifying round-trip algorithms (read by C01 to explain a mismatch)


def _rt_guard_any(c):
    """-> (x, bits of the constant) for any  bits(|x|) <s bits(const)"""
    if c.op == 'lt:i32' and len(c.args) == 2 and c.args[0].op == 'fabs' and tm.is_const(c.args[1]) and tm.csize(c.args[1]) == 4:
        return c.args[0].args[0], tm.cbits(c.args[1])
    return None


def _rt_offsets(a2, x, TR):
    """the value touches x only through comparisons with trunc(x): decide it per ordering.  -> (k_neg_frac, k_pos_frac, k_integer) with
    a2 == trunc(x) + k in the three cases x < trunc(x), x > trunc(x), x == trunc(x); None when a2 is not of that form"""
    ks = []
    for (lt_x_t, lt_t_x) in ((True, False), (False, True), (False, False)):
        eq = not lt_x_t and not lt_t_x
        B = lambda v: tm.TRUE if v else tm.FALSE
        m = {tm.f2('flt', x, TR): B(lt_x_t), tm.f2('flt', TR, x): B(lt_t_x), tm.f2('feq', x, TR): B(eq), tm.f2('fne', x, TR): B(not eq),
             tm.f2('fle', x, TR): B(lt_x_t or eq), tm.f2('fle', TR, x): B(lt_t_x or eq)}
        m = {k: v for k, v in m.items() if k.op not in ('c',)}
        v = tm.subst(a2, m)
        if v is TR:
            ks.append(0.0)
        elif v.op == 'fadd' and len(v.args) == 2 and TR in v.args:
            o = v.args[0] if v.args[1] is TR else v.args[1]
            if o.op == 'fneg' and tm.is_const(o.args[0]):
                ks.append(-tm.f_of(o.args[0]))
            elif tm.is_const(o):
                ks.append(tm.f_of(o))
            else:
                return None
        else:
            return None
    return tuple(ks)


_RT_PRIMS = {(0.0, 0.0, 0.0): 'trunc', (-1.0, 0.0, 0.0): 'floor', (0.0, 1.0, 0.0): 'ceil'}


def int_roundtrip_rewrite(t, memo=None):
    """rewrite the integer round-trip trunc / floor / ceil algorithms to the primitives trunc(x) / floor(x) / ceil(x) (facts F1-F5).
    The adjusted value may be written in any way that depends on x only through comparisons with trunc(x): it is decided per ordering."""
    if memo is None:
        memo = {}
    r = memo.get(t.id)
    if r is not None:
        return r
    if t.op in ('atom', 'c', 'top', 'uninit', 'ptr'):
        memo[t.id] = t
        return t
    args = [int_roundtrip_rewrite(a, memo) if isinstance(a, T) else a for a in t.args]
    r = None
    if t.op == 'ite':
        c, a, b = args
        g = _rt_guard_any(c)
        if g is not None and b is g[0]:
            x, cb = g
            Tx = mk('x86:cvtepi32_ps', mk('x86:cvttps_epi32', x))
            TR = mk('trunc', x)
            if Tx in a.deps or a is Tx or _mentions(a, Tx):
                if cb < _RT_LO:
                    RT_DIAG.append('values with %#x <= bits(|x|) < 0x4b000000 (below 2^23, so possibly fractional) bypass the rounding and are returned unchanged' % cb)
                elif cb > _RT_HI:
                    RT_DIAG.append('values with 2^31 <= |x| (bits up to %#x) are sent through cvttps_epi32, which overflows to i32::MIN' % cb)
                else:
                    a2 = _rt_masks(tm.subst(a, {Tx: TR}))
                    ks = _rt_offsets(a2, x, TR)
                    if ks is not None:
                        nm = _RT_PRIMS.get(ks)
                        if nm is not None:
                            r = mk(nm, x)
                        else:
                            RT_DIAG.append('round-trip algorithm returns trunc(x)%+g for negative non-integers, trunc(x)%+g for positive non-integers and x%+g for integers: not trunc, floor or ceil' % ks)
    if r is None:
        r = tm.rebuild(t.op, args) if any(p is not q for p, q in zip(args, t.args)) else t
    memo[t.id] = r
    return r


def _mentions(t, sub):
    seen = set()
    st = [t]
    while st:
        u = st.pop()
        if u is sub:
            return True
        if u.id in seen:
            continue
        seen.add(u.id)
        st.extend(a for a in u.args if isinstance(a, T))
    return False


def _rt_masks(t, memo=None):
    """F3: int->float of a canonical mask lane is ite(b, -1.0, 0.0)"""
    if memo is None:
        memo = {}
    r = memo.get(t.id)
    if r is not None:
        return r
    if t.op in ('atom', 'c', 'top', 'uninit', 'ptr'):
        return t
    if t.op == 'x86:cvtepi32_ps' and t.args[0].op == 'm32':
        r = ite(t.args[0].args[0], tm.fconst(-1.0, 4), tm.fconst(0.0, 4))
    else:
        args = [_rt_masks(a, memo) if isinstance(a, T) else a for a in t.args]
        r = tm.rebuild(t.op, args) if any(p is not q for p, q in zip(args, t.args)) else t
    memo[t.id] = r
    return r


def round_via_trunc_rewrite(t):
    """trusted identity: round(x) == trunc(x) + (|x - trunc(x)| >= 0.5 ? copysign(1, x) : 0) for every x up to -0 == +0
    (x - trunc(x) is exact; |x| >= 2^23, infinities and NaN pass through)"""
    truncs = set()
    seen = set()
    st = [t]
    while st:
        u = st.pop()
        if u.id in seen:
            continue
        seen.add(u.id)
        if u.op == 'trunc':
            truncs.add(u)
        st.extend(a for a in u.args if isinstance(a, T))
    m = {}
    for T_ in truncs:
        x = T_.args[0]
        for sz in (4, 8):
            try:
                alt = tm.f2('fadd', T_, ite(tm.f2('fle', tm.fconst(0.5, sz), tm.f1('fabs', tm.f2('fsub', x, T_))), mk('copysign', tm.fconst(1.0, sz), x), tm.fconst(0.0, sz)))
            except Exception:
                continue
            m[alt] = mk('round', x)
    return tm.subst(t, m) if m else t


def rounding_rewrite(t):
    return round_via_trunc_rewrite(int_roundtrip_rewrite(t))
