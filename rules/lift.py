"""R-LIFT machinery: lane views, lane-uniformity by substitution, same-named-primitive oracle."""
import re
import terms as tm
from terms import T, mk, const, ite, TRUE, FALSE
from interp import Agg, Abort, Frame
from common import vec_info, tydef, atom_at, cell_term, leaves_plain, hidden_offsets

SCALAR_KINDS = ('int', 'float', 'bool')


def scalar_name(F, tyid):
    t = F.types[tyid]
    k = t.get('k')
    if k == 'int':
        return ('i' if t['signed'] else 'u') + str(t['sz'] * 8)
    if k == 'float':
        return 'f' + str(t['sz'] * 8)
    if k == 'bool':
        return 'bool'
    return None


def rust_scalar_name(F, tyid):
    return F.types[tyid]['n']


def strip_ref(F, tyid):
    t = F.types[tyid]
    if t.get('k') == 'ptr' and t.get('fat') is None:
        return t['to'], True
    return tyid, False


class ArgView(object):
    """how an argument presents lanes: kind in {'vec','mask','scalar','other'}"""

    def __init__(self, F, root, argi, tyid):
        self.argi = argi
        base, self.by_ref = strip_ref(F, tyid)
        self.ty = base
        self.kind = 'other'
        self.lanes = None
        self.dim = 0
        vi = vec_info(F, base)
        t = F.types[base]
        if vi is not None:
            self.kind = 'mask' if vi['name'].startswith('BVec') else 'vec'
            self.dim = vi['dim']
            self.vi = vi
            self.lanes = [atom_at(root, argi, off, self.by_ref) for (off, sz) in vi['lanes']]
            self.elem = vi['elem']
        elif t.get('k') in SCALAR_KINDS:
            self.kind = 'scalar'
            self.lanes = [atom_at(root, argi, 0, self.by_ref)]
            self.elem = scalar_name(F, base)


def value_lanes(F, v, tyid):
    """lane terms of a vector-typed value (visible lanes only); masks -> booleans"""
    vi = vec_info(F, tyid)
    if vi is None:
        return None
    out = []
    for (off, sz) in vi['lanes']:
        c = cell_term(v, off, sz)
        if c is None:
            return None
        if vi['name'].startswith('BVec') and sz > 1:
            b = tm.mask_bool(c)
            c = b if b is not None else mk('lane_true', c)
        out.append(c)
    return out


def result_of(F, r, it_body):
    """(kind, tyid, value) of a root's result: the return value, or for `&mut self` fns returning
    unit the pointee of argument 0 after the call"""
    rt = r.ret_ty
    if F.types[rt]['sz'] == 0:
        for (argi, base, oid, pty, mut, ln) in r.arg_objs:
            if argi == 0 and mut and base == 0:
                obj = r.heap.get(oid)
                if obj is not None:
                    return ('assign', pty, obj)
        return ('unit', rt, None)
    return ('ret', rt, r.ret)


def lane_mapping(views, j):
    m = {}
    for v in views:
        if v.kind in ('vec', 'mask') and v.lanes[0] is not None and j < len(v.lanes) and v.lanes[j] is not None:
            m[v.lanes[0]] = v.lanes[j]
    return m


def check_uniform(views, lanes):
    """lane j == lane 0 with every vector argument's lane-0 atom replaced by its lane-j atom.
    -> (ok, message)"""
    if not lanes:
        return False, 'no lanes'
    lane0_atoms = set()
    other_lane_atoms = set()
    for v in views:
        if v.kind in ('vec', 'mask'):
            if v.lanes[0] is not None:
                lane0_atoms.add(v.lanes[0])
            for a in v.lanes[1:]:
                if a is not None:
                    other_lane_atoms.add(a)
    t0 = lanes[0]
    cross = tm.atoms_of(t0) & other_lane_atoms
    if cross:
        return False, 'lane 0 of the result depends on %s' % sorted(tm.show(x) for x in cross)
    for j in range(1, len(lanes)):
        exp = tm.subst(t0, lane_mapping(views, j))
        if exp is not lanes[j]:
            return False, 'lane %d is %s but lane 0 lifted to lane %d is %s' % (j, tm.show(lanes[j], 0, 5)[:240], j, tm.show(exp, 0, 5)[:240])
    return True, ''


# -------------------------------------------------------------------------------------------
# oracle: run the same-named scalar primitive through the same engine

_CALLEE_INDEX = {}


def callee_index(F):
    idx = _CALLEE_INDEX.get(id(F))
    if idx is None:
        idx = {}
        norm = re.compile(r'\bstd::')
        for k in F.body_keys():
            b = F.body(k)
            for bb in b['blocks']:
                if bb is None:
                    continue
                t = bb['t']
                if t[0] == 'call' and 'd' in t[1]:
                    d = norm.sub('core::', t[1]['d'])
                    key = d
                    if t[1].get('tg'):
                        key = d + '|' + ','.join(t[1]['tg'])
                    if key not in idx:
                        idx[key] = (t[1], t[3][2], [a[1][2] if a[0] in 'cm' else (a[1][-1] if isinstance(a[1][-1], int) else None) for a in t[2]])
                    if d not in idx:
                        idx[d] = idx[key]
        _CALLEE_INDEX[id(F)] = idx
    return idx


def oracle_call(I, F, path, args, tg=None):
    """call the resolved callee with def-path `path` (normalised) on abstract args.
    -> value or None if that callee never occurs in the crate"""
    idx = callee_index(F)
    ent = idx.get(path + '|' + tg) if tg else idx.get(path)
    if ent is None:
        return None
    callee, dest_ty, arg_tys = ent
    fr = Frame({'d': '<oracle:%s>' % path, 'file': '<oracle>', 'locals': [], 'blocks': [], 'key': '<oracle>'}, '<oracle>')
    argops = [['k', ['ty', ty]] for ty in arg_tys]
    d = I.norm_path(callee['d'])
    fn = I.leaf.get(d)
    if fn is not None:
        from interp import NOTLEAF, DIVERGE
        res = fn(I, fr, callee, list(args), dest_ty, argops, 0)
        if res is not NOTLEAF and res is not DIVERGE:
            return res
    if callee.get('body') and F.has_body(callee['k']):
        return I.call_body(callee['k'], list(args), 0)
    return None


def prim_paths(elem_rust, name, trait=None, rhs_rust=None):
    """candidate def-paths of the scalar primitive with the same name"""
    out = []
    w = elem_rust
    if trait:
        t = trait.replace('std::', 'core::')
        if t.endswith('Assign'):
            t = t[:-6]
            name = name[:-7]
        if rhs_rust and rhs_rust != w:
            out.append('<%s as %s<%s>>::%s' % (w, t, rhs_rust, name))
        out.append('<%s as %s>::%s' % (w, t, name))
        return out
    if w in ('f32', 'f64'):
        out.append('core::%s::<impl %s>::%s' % (w, w, name))
    else:
        out.append('core::num::<impl %s>::%s' % (w, name))
    out.append('core::cmp::impls::<impl core::cmp::Ord for %s>::%s' % (w, name))
    out.append('core::cmp::Ord::%s|%s' % (name, w))
    return out


# -------------------------------------------------------------------------------------------
# "equal on non-NaN lanes, -0 == +0, NaN == NaN" canonicalisation used by C01 / C07

def canon_float(t, memo=None):
    """rewrites valid up to the equivalences the properties grant:
       ite(flt(a,b), a, b) / fmin_nanprop / fmin  ->  fmin~(a,b)   (min on non-NaN lanes)
       ite(flt(b,a), a, b) / ...                  ->  fmax~(a,b)
       ite(fne(x,x), x, e)                        ->  ite(fne(x,x), NaN, e)   (NaN matches NaN)"""
    if memo is None:
        memo = {}
    r = memo.get(t.id)
    if r is not None:
        return r
    if t.op in ('atom', 'c', 'top', 'uninit', 'ptr'):
        memo[t.id] = t
        return t
    args = [canon_float(a, memo) if isinstance(a, T) else a for a in t.args]
    op = t.op
    r = None
    if op == 'ite':
        c, a, b = args
        if c.op == 'flt':
            x, y = c.args
            if a is x and b is y:
                r = mk('fmin~', *sorted((x, y)))
            elif a is y and b is x:
                r = mk('fmax~', *sorted((x, y)))
        elif c.op == 'not' and c.args[0].op == 'fle':
            # !(x <= y) ? a : b   -- on non-NaN lanes this is  y < x ? a : b
            x, y = c.args[0].args
            if a is x and b is y:
                r = mk('fmax~', *sorted((x, y)))
            elif a is y and b is x:
                r = mk('fmin~', *sorted((x, y)))
        if r is None and c.op == 'fne' and c.args[0] is c.args[1] and a is c.args[0]:
            sz = 4
            r = ite(c, mk('NaN'), b)
        if r is None and c.op == 'fne' and c.args[0] is c.args[1] and a.op == 'c':
            try:
                f = tm.f_of(a)
                if f != f:
                    r = ite(c, mk('NaN'), b)
            except Exception:
                pass
    elif op == 'fle':
        # on non-NaN lanes  a <= b  is  !(b < a)
        r = tm.b_not(tm.f2('flt', args[1], args[0]))
    elif op in ('fmin', 'fmin_nanprop'):
        r = mk('fmin~', *sorted(args))
    elif op in ('fmax', 'fmax_nanprop'):
        r = mk('fmax~', *sorted(args))
    if r is None:
        r = tm.rebuild(op, args) if any(x is not y for x, y in zip(args, t.args)) else t
    memo[t.id] = r
    return r


def flatten_aci(t, opname):
    if t.op == opname:
        s = set()
        for a in t.args:
            s |= flatten_aci(a, opname)
        return s
    return {t}
