"""C08 - the hidden fourth lane of Vec3A / Mat3A / Affine3A / BVec3A never influences a result.

R-DEP (noninterference by dependency analysis): for every reachable, non-generic function whose
arguments contain a hidden lane, no observable output cell, panic condition or value handed to an
opaque callee depends on a hidden-lane atom."""
import terms as tm
from common import api_roots, hidden_offsets, is_hidden_atom, observable_deps, tydef, TRUSTED_COMMON
from runner import norm_def_path

LEVEL = 'proof'
TECHNIQUE = 'static information-flow (dependency) analysis over rustc MIR with a lane-level abstract interpreter; compile-fail witnesses'
EXPLANATION = ('Noninterference proof by abstract interpretation: each function is interpreted once on fully symbolic '
               'arguments; the dependency set of every observable output (return value cells, memory written through '
               'arguments, panic conditions, values passed to opaque callees) is an over-approximation, and it is '
               'disjoint from the hidden-lane atoms.  Holds for all inputs under the trusted intrinsic table.')

CONFIGS_QUICK = ['sse2', 'sse2-fma', 'sse41', 'coresimd', 'neon', 'wasm32']
CONFIGS_THOROUGH = ['sse2', 'sse2-fma', 'sse41', 'sse2-dbg', 'coresimd', 'neon', 'wasm32']

# measured when the rule was armed (sse2: 1170 instances); see DESIGN 4/C08
FLOOR = {'sse2': 420, 'coresimd': 420, 'neon': 420, 'wasm32': 420, 'sse2-fma': 420, 'sse41': 420, 'sse2-dbg': 420}


def raw_register_from(F, it):
    """exempt by rule: From impls between a hidden-carrying type and the type of its field .0"""
    tr = it.get('trait', '')
    if tr not in ('std::convert::From', 'core::convert::From'):
        return False
    tys = list(it['inputs']) + [it['output']]
    for a in tys:
        for b in tys:
            ta = F.types[a]
            if tydef(F, a) in ('Vec3A', 'BVec3A') and ta.get('crate') == 'glam' and ta.get('fields'):
                if ta['fields'][0][1] == b:
                    return True
    return False


def analyse_root(ctx, cfg, F, H, name, it):
    """-> (n_hidden_atoms, list of (where, hidden atom names)) or raises"""
    r = H.run(it['key'])
    hidden = set(a for a, info in r.atoms.items() if is_hidden_atom(F, info))
    if not hidden:
        return 0, [], r
    if r.abort:
        return len(hidden), [('abort', r.abort)], r
    I = r.interp
    obs = []
    if r.ret is not None:
        observable_deps(I, F, r.ret, r.ret_ty, True, None, obs, 'ret')
    for (argi, base, oid, pty, mut, ln) in r.arg_objs:
        if not mut:
            continue
        obj = I.heap.get(oid)
        if obj is None:
            continue
        hid = set(hidden_offsets(F, pty)) if F.types[pty]['sz'] else set()
        for off, c in obj.cells.items():
            if off in hid:
                continue
            obs.append(('arg%d*@%s' % (argi, off), c[1].deps))
        for dk, dv in obj.discr.items():
            obs.append(('arg%d*.discr' % argi, dv.deps))
    for p in r.panics:
        obs.append(('panic-condition %s in %s' % (p.kind, p.fn), p.cond.deps))
    for (d, deps, caller, line) in r.opaque:
        obs.append(('value passed to opaque callee %s from %s' % (d, caller), deps))
    bad = []
    for (where, deps) in obs:
        h = deps & hidden
        if h:
            bad.append((where, sorted(tm.show(x) for x in h)))
    return len(hidden), bad, r


def run(ctx):
    configs = CONFIGS_QUICK if ctx.tier == 'quick' else CONFIGS_THOROUGH
    configs = ctx.need(configs)
    ctx.trusted = TRUSTED_COMMON + ['BVec3A/BVec4A lanes are canonical masks (all-ones or zero): established by C15 R-WHO']
    for cfg in configs:
        F = ctx.facts(cfg)
        H = ctx.harness(cfg, {'skip_offsets': (lambda F_: (lambda tyid: hidden_offsets(F_, tyid)))(F)})
        n_inst = 0
        exempt_fired = False
        for name, it in api_roots(F):
            try:
                nh, bad, r = analyse_root(ctx, cfg, F, H, name, it)
            except Exception as e:  # fail closed
                ctx.unverifiable('R-DEP', cfg, name, 'analysis error: %r' % (e,))
                continue
            ctx.count('roots_interpreted:' + cfg)
            if nh == 0:
                continue
            n_inst += 1
            if raw_register_from(F, it):
                if bad:
                    exempt_fired = True
                ctx.count('exempt_raw_register_conversions:' + cfg)
                continue
            if bad and bad[0][0] == 'abort':
                ctx.unverifiable('R-DEP', cfg, name, 'function left the analysable fragment (%s): independence from the hidden lane cannot be established' % bad[0][1])
            elif bad:
                ctx.violation('R-DEP', cfg, name, {'file': it['file'], 'line': it['line'], 'depends_on_hidden_lane': bad[:6]})
            else:
                ctx.holds('R-DEP', cfg, name)
                if n_inst % 97 == 1:
                    ctx.sample({'config': cfg, 'fn': name, 'hidden_atoms': nh, 'verdict': 'no observable depends on them', 'ret': tm.show(r.ret, 0, 4)[:300] if isinstance(r.ret, tm.T) else str(r.ret)[:300]})
        # generic functions (Hash::hash<H>, Sum / Product over an iterator type, serde impls): interpreted on their generic MIR with opaque type
        # parameters; what they hand to the opaque callees (the hasher, the serializer) must not depend on a hidden lane either
        n_gen = 0
        for name, it in sorted(F.items.items()):
            if not it.get('generic') or it.get('crate', 'glam') != 'glam':
                continue
            try:
                nh, bad, r = analyse_root(ctx, cfg, F, H, name, it)
            except Exception as e:
                if 'Hash' in (it.get('trait') or ''):
                    ctx.undecided('R-DEP', cfg, name, 'generic body not analysable: %r' % (e,))
                continue
            if nh == 0:
                continue
            if bad and bad[0][0] == 'abort':
                ctx.undecided('R-DEP', cfg, name, 'generic body left the analysable fragment (%s)' % bad[0][1])
                continue
            n_gen += 1
            if bad:
                ctx.violation('R-DEP', cfg, name, {'file': it['file'], 'line': it['line'], 'depends_on_hidden_lane': bad[:6]})
            else:
                ctx.holds('R-DEP', cfg, name)
        ctx.floor('generic functions over hidden-lane types analysed (%s)' % cfg, n_gen, 1)
        ctx.floor('C08 instances with a hidden lane in their arguments (%s)' % cfg, n_inst, FLOOR.get(cfg, 1000))
        ctx.control('raw-register From conversion is reported hidden-dependent (%s)' % cfg, exempt_fired, 'From<Vec3A> for <register type> must depend on lane 3')
        # control 2: Vec4::min_element depends on lane 3 of its argument
        k = [n for n, it in F.items.items() if norm_def_path(n) == 'f32::vec4::Vec4::min_element']
        fired = False
        if k:
            r = H.run(F.items[k[0]]['key'])
            if r.ret is not None and isinstance(r.ret, tm.T):
                fired = any(r.atoms[a].off == 12 for a in r.ret.deps if a in r.atoms)
        ctx.control('Vec4::min_element depends on its fourth lane (%s)' % cfg, fired, 'dependency tracking through the reduction kernel')
    if ctx.tier == 'thorough':
        from runner import run_witness
        run_witness(ctx, ['C08'])
    ctx.extra['exhaustive'] = True
    ctx.extra['rule_text'] = 'instances = every reachable non-generic fn/trait-impl fn whose arguments contain a SIMD-backed Vec3A/BVec3A sub-object (enumerated from rustc facts); an instance HOLDS when no observable depends on a hidden-lane atom'
