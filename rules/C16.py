"""C16 - swizzle getters and with_ setters permute exactly the lanes their names spell.

R-COPY: for every method of every impl of Vec2Swizzles / Vec3Swizzles / Vec4Swizzles (enumerated from
the trait impls rustc resolved), each visible output lane is the bare input atom named by the letter; the identity swizzles xy / xyz / xyzw the traits provide as default
methods (generic bodies, inherited by every impl) must return self."""
import re
import terms as tm
from common import vec_info, atom_at, cell_term, tydef, TRUSTED_COMMON
from runner import norm_def_path

LEVEL = 'proof'
TECHNIQUE = 'provenance (bit-copy) analysis of every swizzle body over rustc MIR; exhaustive over all resolved trait impls'
EXPLANATION = ('Every swizzle method body is interpreted once on symbolic lanes; the result lanes must be the identical '
               'input atoms (bit-exact copies, no arithmetic) selected by the method name, and the return type must be the '
               'documented one.  Exhaustive over all impls of the three swizzle traits in every analysed backend.')

CONFIGS_QUICK = ['sse2', 'sse2-fma', 'sse41', 'scalar', 'coresimd', 'neon', 'wasm32']
CONFIGS_THOROUGH = ['sse2', 'sse2-fma', 'sse41', 'scalar', 'coresimd', 'neon', 'wasm32']
TRAITS = {'swizzles::vec_traits::Vec2Swizzles': 2, 'swizzles::vec_traits::Vec3Swizzles': 3, 'swizzles::vec_traits::Vec4Swizzles': 4}
IDX = {'x': 0, 'y': 1, 'z': 2, 'w': 3}
FLOOR = 5800   # measured 5842 swizzle fns per config (34 types) when armed


def expected_ret_name(self_name, k):
    if self_name == 'Vec3A':
        return 'Vec3A' if k == 3 else 'Vec%d' % k
    m = re.match(r'^(.*)Vec[234]$', self_name)
    return '%sVec%d' % (m.group(1), k)


def run(ctx):
    configs = ctx.need(CONFIGS_QUICK if ctx.tier == 'quick' else CONFIGS_THOROUGH)
    ctx.trusted = TRUSTED_COMMON
    for cfg in configs:
        F = ctx.facts(cfg)
        H = ctx.harness(cfg)
        n = 0
        impl_types = set()
        for name, it in F.items.items():
            tr = it.get('trait')
            if tr not in TRAITS:
                continue
            n += 1
            dim = TRAITS[tr]
            mname = it['name']
            inst = '%s::%s' % (it['self_ty'], mname)
            impl_types.add(it['self_ty'])
            setter = mname.startswith('with_')
            letters = mname[5:] if setter else mname
            if not letters or any(l not in IDX for l in letters) or any(IDX[l] >= dim for l in letters):
                ctx.unverifiable('R-COPY', cfg, inst, 'method name %r of %s is not a swizzle over %d lanes' % (mname, tr, dim))
                continue
            r = H.run(it['key'])
            if r.abort or r.ret is None:
                ctx.unverifiable('R-COPY', cfg, inst, 'not analysable: %s' % r.abort)
                continue
            if r.panics:
                ctx.violation('R-COPY', cfg, inst, {'file': it['file'], 'line': it['line'], 'problem': 'swizzle can panic', 'site': repr(r.panics[0])[:300]})
                continue
            body = F.body(it['key'])
            self_ty = body['locals'][1]
            sv = vec_info(F, self_ty)
            rv = vec_info(F, r.ret_ty)
            if sv is None or rv is None or sv['dim'] != dim:
                ctx.unverifiable('R-COPY', cfg, inst, 'self/return type is not a recognised vector type')
                continue
            bad = None
            if setter:
                av = vec_info(F, body['locals'][2])
                if av is None or av['dim'] != len(letters) or rv['name'] != sv['name']:
                    bad = 'setter signature: value has %s lanes, returns %s' % (av and av['dim'], rv['name'])
                elif len(set(letters)) != len(letters):
                    bad = 'setter repeats a lane'
                else:
                    want = {}
                    for j, l in enumerate(letters):
                        want[IDX[l]] = atom_at(r, 1, av['lanes'][j][0])
                    for i in range(dim):
                        exp = want.get(i) or atom_at(r, 0, sv['lanes'][i][0])
                        got = cell_term(r.ret, rv['lanes'][i][0], rv['esz'])
                        if exp is None or got is not exp:
                            bad = 'lane %d of the result is %s, expected %s' % (i, tm.show(got, 0, 4) if got is not None else None, tm.show(exp) if exp is not None else None)
                            break
            else:
                k = len(letters)
                exp_name = expected_ret_name(sv['name'], k)
                if rv['name'] != exp_name or rv['dim'] != k:
                    bad = 'return type %s, documented %s' % (rv['name'], exp_name)
                else:
                    for j, l in enumerate(letters):
                        exp = atom_at(r, 0, sv['lanes'][IDX[l]][0])
                        got = cell_term(r.ret, rv['lanes'][j][0], rv['esz'])
                        if exp is None or got is not exp:
                            bad = 'lane %d of the result is %s, expected %s (letter %s)' % (j, tm.show(got, 0, 4) if got is not None else None, tm.show(exp) if exp is not None else None, l)
                            break
            if bad:
                ctx.violation('R-COPY', cfg, inst, {'file': it['file'], 'line': it['line'], 'problem': bad})
            else:
                ctx.holds('R-COPY', cfg, inst)
                if n % 1500 == 7:
                    ctx.sample({'config': cfg, 'fn': inst, 'result': str(r.ret)[:200]})
        # trait default methods (the identity swizzles xy / xyz / xyzw are provided by the trait and inherited by every impl):
        # the generic body must hand back `self` and nothing else
        n_def = 0
        for name, it in F.items.items():
            tr = it.get('in_trait') or ''
            if tr not in TRAITS or not it.get('generic'):
                continue
            body = F.body(it['key'])
            if body is None:
                continue          # a required method: every impl supplies it and is checked above
            n_def += 1
            inst = '%s::%s (default body)' % (tr.rsplit('::', 1)[-1], it['name'])
            dim = TRAITS[tr]
            if it['name'] != 'xyzw'[:dim]:
                ctx.violation('R-COPY', cfg, inst, {'file': it['file'], 'line': it['line'],
                              'problem': 'only the identity swizzle can have a type-independent default body; %s has one' % it['name']})
                continue
            bad = None
            is_self = {1}
            seen_blocks, bi = set(), 0
            while bad is None:
                if bi in seen_blocks:
                    bad = 'loop in the body'
                    break
                seen_blocks.add(bi)
                blk = body['blocks'][bi]
                for st in blk['s']:
                    if st[0] != 'a':
                        continue
                    dst, rv = st[1], st[2]
                    if rv[0] == 'use' and rv[1][0] in ('c', 'm') and not rv[1][1][1] and rv[1][1][0] in is_self and not dst[1]:
                        is_self.add(dst[0])
                    else:
                        is_self.discard(dst[0])
                        if dst[0] == 0 or dst[1]:
                            bad = 'the result is computed by %s, not copied from self' % str(rv)[:120]
                            break
                t = blk['t']
                if bad:
                    break
                if t[0] == 'ret':
                    if 0 not in is_self:
                        bad = 'the returned value is not self'
                    break
                if t[0] == 'goto':
                    bi = t[1]
                    continue
                bad = 'the body has a %s terminator (a call or branch); the identity swizzle returns self directly' % t[0]
            if bad:
                ctx.violation('R-COPY', cfg, inst, {'file': it['file'], 'line': it['line'], 'problem': bad})
            else:
                ctx.holds('R-COPY', cfg, inst)
        ctx.floor('trait-provided identity swizzles analysed (%s)' % cfg, n_def, 3)
        ctx.floor('swizzle methods analysed (%s)' % cfg, n, FLOOR)
        ctx.floor('types implementing a swizzle trait (%s)' % cfg, len(impl_types), 34)
        ctx.count('swizzle_fns:' + cfg, n)
    ctx.extra['exhaustive'] = True
    ctx.extra['rule_text'] = 'instances = every fn of every impl of Vec2Swizzles/Vec3Swizzles/Vec4Swizzles; HOLDS when each visible result lane is the identical input atom spelled by the name'
