"""C20 - glam outputs satisfy glam preconditions; assertions never change results.

Decided clauses: (R-SIB exact) for every reachable function the returned value and every value written through &mut arguments are the identical
canonical terms with and without glam-assert (SSE2 and scalar-math), so enabling assertions can only add panics and their conditions are effect-free;
(R-PRECOND) every function whose rustdoc promises a panic "when glam_assert is enabled" gains at least one panic site in the assert build whose
condition depends on the function's own operands, and functions without such a promise gain none that is undocumented; (R-GUARD) is_normalized is
|len^2 - 1| <= tau with one common tau per scalar width on every vector and quaternion type.
Not decided: that values produced by glam numerically pass the tolerances along chains of operations (accumulated rounding)."""
import os
import re
import terms as tm
import nf
from spec import Spec
from common import api_roots, vec_info, tydef, TRUSTED_COMMON
from lift import ArgView, strip_ref
from runner import norm_def_path, REPO
from C07 import root_outputs

LEVEL = 'other'
TECHNIQUE = 'cross-configuration term comparison (with / without glam-assert) + panic-site differencing against rustdoc promises + guard normal forms, over rustc MIR'
EXPLANATION = ('Decides for all inputs that enabling glam-assert never changes a returned or written value (identical canonical terms), that each documented precondition is '
               'actually asserted over the function\'s operands, and that is_normalized uses one tolerance everywhere.  Whether glam\'s own outputs numerically satisfy the '
               '2e-4 tolerance along operation chains depends on accumulated rounding and is not decided.')
LEVEL_NOTE = 'Decides "assertions never change results" and the presence/operands of documented assertions; not numeric satisfaction of tolerances. Trusted: rustc MIR, intrinsic table.'

PAIRS_QUICK = [('sse2', 'assert')]
PAIRS_THOROUGH = [('sse2', 'assert'), ('scalar', 'scalar-assert')]


def doc_promises():
    """(file, fn name, line of the fn) for every fn whose doc comment promises a glam_assert panic"""
    out = []
    for root, dirs, files in os.walk(os.path.join(REPO, 'src')):
        for f in files:
            if not f.endswith('.rs'):
                continue
            p = os.path.join(root, f)
            rel = os.path.relpath(p, REPO)
            lines = open(p, encoding='utf8', errors='replace').read().split('\n')
            promise = False
            for i, ln in enumerate(lines):
                st = ln.strip()
                if st.startswith('///'):
                    if 'glam_assert' in st and ('panic' in st.lower()):
                        promise = True
                    continue
                if st.startswith('#[') or st == '':
                    continue
                m = re.match(r'^(pub(?:\([a-z]+\))?\s+)?(const\s+)?(unsafe\s+)?fn\s+([A-Za-z0-9_]+)', st)
                if m and promise:
                    out.append((rel, m.group(4), i + 1))
                promise = False
    return out


def run(ctx):
    pairs = PAIRS_QUICK if ctx.tier == 'quick' else PAIRS_THOROUGH
    cfgs = ctx.need(sorted({c for p in pairs for c in p}))
    ctx.trusted = TRUSTED_COMMON
    promises = doc_promises()
    ctx.floor('functions documenting a glam_assert panic', len(promises), 300)
    prom_idx = {}
    for (f, n, l) in promises:
        prom_idx.setdefault((f, n), []).append(l)
    for (base, asrt) in pairs:
        if base not in cfgs or asrt not in cfgs:
            continue
        Fa, Fb = ctx.facts(base), ctx.facts(asrt)
        Ha, Hb = ctx.harness(base), ctx.harness(asrt)
        pair = '%s|%s' % (base, asrt)
        n = n_gain = n_doc_ok = 0
        for name, it in api_roots(Fa):
            itb = Fb.items.get(name)
            if itb is None:
                ctx.unverifiable('R-SIB-EXACT', pair, name, 'function missing in the glam-assert build')
                continue
            tr = (it.get('trait') or '').rsplit('::', 1)[-1]
            if tr in ('Debug', 'Display', 'Hash'):
                continue
            ra, rb = Ha.run(it['key']), Hb.run(itb['key'])
            n += 1
            if ra.abort or rb.abort:
                ctx.undecided('R-SIB-EXACT', pair, name, ra.abort or rb.abort)
                continue
            if rb.diverged and not ra.diverged:
                ctx.violation('R-SIB-EXACT', pair, name, {'file': it['file'], 'line': it['line'], 'problem': 'with glam-assert the function always panics'})
                continue
            oa, ob = root_outputs(Fa, ra, Fa.body(it['key'])), root_outputs(Fb, rb, Fb.body(itb['key']))
            if len(oa) != len(ob) or any(x is not y for x, y in zip(oa, ob)):
                diff = [(tm.show(x, 0, 5)[:160], tm.show(y, 0, 5)[:160]) for x, y in zip(oa, ob) if x is not y][:2]
                ctx.violation('R-SIB-EXACT', pair, name, {'file': it['file'], 'line': it['line'], 'problem': 'enabling glam-assert changes a returned / written value', 'without_vs_with': diff})
                continue
            ctx.holds('R-SIB-EXACT', pair, name)
            # panic-site differencing
            ka = {(p.kind, p.fn) for p in ra.panics}
            gained = [p for p in rb.panics if (p.kind, p.fn) not in ka or len([q for q in rb.panics if (q.kind, q.fn) == (p.kind, p.fn)]) > len([q for q in ra.panics if (q.kind, q.fn) == (p.kind, p.fn)])]
            rel = it['file']
            lines_ = prom_idx.get((rel, it.get('name')), [])
            documented = any(0 <= it['line'] - l <= 6 or 0 <= l - it['line'] <= 6 for l in lines_)
            if gained:
                n_gain += 1
            if documented:
                own_atoms = set(ra.atoms) | set(rb.atoms)
                good = [p for p in gained if (p.cond.deps & set(rb.atoms))]
                if good:
                    n_doc_ok += 1
                    ctx.holds('R-PRECOND', pair, name)
                else:
                    ctx.violation('R-PRECOND', pair, name, {'file': it['file'], 'line': it['line'], 'problem': 'rustdoc promises a glam_assert panic but the assert build adds no assertion over the operands of this function'})
        ctx.floor('functions compared with/without glam-assert (%s)' % pair, n, 13000)
        ctx.floor('documented preconditions found asserted (%s)' % pair, n_doc_ok, 200)
        ctx.count('functions_gaining_panic_sites:' + pair, n_gain)
    # is_normalized: |len^2 - 1| <= tau, one tau per scalar width
    for cfg in [p[0] for p in pairs if p[0] in cfgs]:
        F = ctx.facts(cfg)
        H = ctx.harness(cfg)
        taus = {}
        for name, it in api_roots(F):
            if it.get('name') != 'is_normalized' or it.get('trait'):
                continue
            r = H.run(it['key'])
            if r.abort:
                ctx.unverifiable('R-GUARD', cfg, name, r.abort)
                continue
            body = F.body(it['key'])
            v = ArgView(F, r, 0, body['locals'][1])
            g = r.ret
            alg = nf.Algebra()
            S = Spec(alg)
            ok = isinstance(g, tm.T) and g.op == 'fle' and tm.is_const(g.args[1]) and g.args[0].op == 'fabs'
            if ok and v.lanes:
                a = [alg.nf(x) for x in v.lanes]
                ok = S.eq(alg.nf(g.args[0].args[0]), S.sub(S.dot(a, a), S.c(1)))
            if not ok:
                ctx.violation('R-GUARD', cfg, name, {'file': it['file'], 'line': it['line'], 'problem': 'is_normalized is not |len^2 - 1| <= tau: %s' % (tm.show(g, 0, 4)[:200] if isinstance(g, tm.T) else g)})
                continue
            w = tm.csize(g.args[1])
            taus.setdefault(w, set()).add(tm.f_of(g.args[1]))
            ctx.holds('R-GUARD', cfg, name, {'tau': tm.f_of(g.args[1])})
        for w, ts in taus.items():
            if len(ts) != 1:
                ctx.violation('R-GUARD', cfg, 'is_normalized tolerance (f%d)' % (8 * w), {'problem': 'different tolerances across types: %s' % sorted(ts)})
            else:
                ctx.holds('R-GUARD', cfg, 'is_normalized tolerance (f%d)' % (8 * w), {'tau': sorted(ts)[0]})
        ctx.floor('is_normalized implementations (%s)' % cfg, sum(1 for o in ctx.obligations if o[0] == 'R-GUARD' and o[1] == cfg), 9)
    ctx.extra['exhaustive'] = True
