"""C20 - glam outputs satisfy glam preconditions; assertions never change results.

Decided clauses: (R-SIB exact) for every reachable function the returned value and every value written through &mut arguments are the identical
canonical terms with and without glam-assert (SSE2, debug-glam-assert, scalar-math, core-simd, NEON, wasm32), so enabling assertions can only add panics and their conditions are effect-free;
(R-PRECOND) every function whose rustdoc promises a panic "when glam_assert is enabled" gains at least one panic site in the assert build whose
condition depends on the function's own operands, and functions without such a promise gain none that is undocumented; (R-PRECOND-DOC) every parameter
the panic sentence names in backticks is tested by an assertion, and the boundary the sentence draws ("is negative", "less than or equal to zero",
"greater than", "all elements ... are zero") is the one asserted - decided by substituting the boundary point into the asserted condition; (R-PRECOND-SIB)
sibling types and the same function in other backends assert conditions of the same shape; (R-GUARD) is_normalized is
|len^2 - 1| <= tau with one common tau per scalar width on every vector and quaternion type; (R-PRECOND-INT) every value glam computes itself and hands
to a function with a normalisation precondition (axis of rotate_towards, rotation of to_scale_rotation_translation, ...) satisfies |len|^2 = 1 as a
real identity (sqrt(p)^2 = p, sin^2 + cos^2 = 1, sign^2 = 1), branch by branch; (R-POST, rules/post.py) every rotation producer - quaternion
constructors, unit-quaternion products, inverse, conjugate, lerp, from_rotation_arc*, and the matrix / affine from_axis_angle, from_rotation_*,
from_quat, from_euler x 24, from_rotation_translation, look_to_*, look_at_* - returns a unit quaternion / unit rotation columns as a real identity for
arguments meeting the documented preconditions, and every affine Mat4 constructor has bottom row exactly (0,0,0,1).
Not decided: that values produced by glam numerically pass the tolerances along chains of operations (accumulated rounding)."""
import os
import re
import terms as tm
import nf
from spec import Spec
from common import api_roots, vec_info, tydef, TRUSTED_COMMON, rustdoc_of, fn_params, panic_promises
from lift import ArgView, strip_ref
from runner import norm_def_path, REPO
from C07 import root_outputs

LEVEL = 'other'
TECHNIQUE = 'cross-configuration term comparison (with / without glam-assert) + panic-site differencing against rustdoc promises + guard normal forms, over rustc MIR'
EXPLANATION = ('Decides for all inputs that enabling glam-assert never changes a returned or written value (identical canonical terms), that each documented precondition is '
               'actually asserted over the function\'s operands, that is_normalized uses one tolerance everywhere, and that rotation producers and internally computed axes meet the '
               'normalisation preconditions of their consumers exactly in real arithmetic.  Whether glam\'s own outputs numerically satisfy the '
               '2e-4 tolerance along operation chains depends on accumulated rounding and is not decided.')
LEVEL_NOTE = 'Decides "assertions never change results", the presence/operands of documented assertions and that producers / internal callers meet the preconditions exactly in real arithmetic; not rounding accumulation against the tolerances. Trusted: rustc MIR, intrinsic table.'

PAIRS_QUICK = [('sse2', 'assert'), ('sse2-dbg', 'dbg-glam-assert'), ('scalar', 'scalar-assert'), ('coresimd', 'coresimd-assert'), ('neon', 'neon-assert'), ('wasm32', 'wasm32-assert')]
POST_QUICK = ['sse2', 'scalar', 'coresimd', 'neon', 'wasm32']
POST_THOROUGH = ['sse2', 'scalar', 'coresimd', 'neon', 'wasm32']
PAIRS_THOROUGH = [('sse2', 'assert'), ('sse2-dbg', 'dbg-glam-assert'), ('scalar', 'scalar-assert'), ('coresimd', 'coresimd-assert'), ('neon', 'neon-assert'), ('wasm32', 'wasm32-assert')]


def doc_promises():
    """(file, fn name, line of the fn) for every fn whose doc comment promises a glam_assert panic (the sentence may wrap over several lines)"""
    out = []
    for root, dirs, files in os.walk(os.path.join(REPO, 'src')):
        for f in files:
            if not f.endswith('.rs'):
                continue
            p = os.path.join(root, f)
            rel = os.path.relpath(p, REPO)
            lines = open(p, encoding='utf8', errors='replace').read().split('\n')
            doc = []
            for i, ln in enumerate(lines):
                st = ln.strip()
                if st.startswith('///'):
                    doc.append(st[3:].strip())
                    continue
                if st.startswith('#[') or st == '':
                    if st == '':
                        doc = []
                    continue
                m = re.match(r'^(pub(?:\([a-z]+\))?\s+)?(const\s+)?(unsafe\s+)?fn\s+([A-Za-z0-9_]+)', st)
                if m and doc:
                    text = ' '.join(doc)
                    if 'glam_assert' in text and 'panic' in text.lower():
                        out.append((rel, m.group(4), i + 1))
                doc = []
    return out


def check_documented_operands(ctx, pair, name, it, rb, gained, prom, body):
    """R-PRECOND-DOC.  (a) every parameter the panic sentence names in backticks is tested by some assertion of the assert build (an assertion on
    the wrong operand, or a dropped conjunct, leaves a documented violation unreported).  (b) the boundary the sentence draws is the one asserted,
    decided by substituting the boundary point into the asserted condition: "`x` is negative" - x = 0 must pass; "less than or equal to zero" -
    x = 0 must fail; "`min` is greater than `max`" - min = max must pass; "all elements of `scale` are zero" - (1, 0, ..) must pass and 0 fail.
    -> (operands checked, boundary cases evaluated)"""
    params = fn_params(REPO, it)
    if not params:
        return 0, 0
    text = ' '.join(prom)
    named = [w for w in re.findall(r'`([A-Za-z_][A-Za-z0-9_]*)`', text) if w in params]
    atoms_of_arg = {}
    for a, info in rb.atoms.items():
        atoms_of_arg.setdefault(info.arg, set()).add(a)
    n_arg = n_b = 0
    where = {'file': it['file'], 'line': it['line']}
    # a function that asserts anything itself is expected to assert all its documented operands itself (an assertion met only on some path
    # through a callee - slerp's lerp fallback - does not make the documented panic happen); a pure delegator is judged by its callees' assertions
    own_ = [p for p in gained if p.fn == it['d']]
    conds = [p.cond for p in (own_ or gained)]
    for w in dict.fromkeys(named):
        ai = params.index(w)
        ats = atoms_of_arg.get(ai, set())
        if not ats:
            continue
        n_arg += 1
        inst = '%s [`%s`]' % (name, w)
        if any(c.deps & ats for c in conds):
            ctx.holds('R-PRECOND-DOC', pair, inst)
        else:
            ctx.violation('R-PRECOND-DOC', pair, inst, dict(where, problem='the documentation says a bad `%s` panics with glam-assert, but no assertion of the assert build tests `%s`' % (w, w)))
    # boundary points

    def at(cond, mapping):
        return tm.subst(cond, mapping)

    def lanes_of(w):
        ai = params.index(w)
        return sorted(atoms_of_arg.get(ai, set()), key=lambda a: (rb.atoms[a].off, a.id))

    def zero_like(a):
        return tm.fconst(0.0, rb.atoms[a].size) if rb.atoms[a].size in (4, 8) else None
    cases = []          # (description, mapping, expected truth of the conjunction of the assertions that mention the operands)
    for m in re.finditer(r'`(\w+)`(?:\s+or\s+`(\w+)`)?\s+(?:is|are)\s+negative', text):
        for w in [g for g in m.groups() if g and g in params]:
            ls = lanes_of(w)
            if ls and all(zero_like(a) is not None for a in ls):
                cases.append(('`%s` = 0 is not negative and must be accepted' % w, {a: zero_like(a) for a in ls}, set(ls), True))
    for m in re.finditer(r'`(\w+)`(?:\s+or\s+`(\w+)`)?\s+(?:is|are)\s+less than or equal to zero', text):
        for w in [g for g in m.groups() if g and g in params]:
            ls = lanes_of(w)
            if ls and all(zero_like(a) is not None for a in ls):
                cases.append(('`%s` = 0 is documented to panic' % w, {a: zero_like(a) for a in ls}, set(ls), False))
    for m in re.finditer(r'`(\w+)` is greater than `(\w+)`', text):
        lo, hi = m.group(1), m.group(2)
        if lo in params and hi in params:
            l1, l2 = lanes_of(lo), lanes_of(hi)
            if l1 and len(l1) == len(l2):
                cases.append(('`%s` = `%s` is not "greater" and must be accepted' % (lo, hi), {a: b for a, b in zip(l1, l2)}, set(l1) | set(l2), True))
    for m in re.finditer(r'all elements of `(\w+)` are zero', text):
        w = m.group(1)
        if w in params:
            ls = lanes_of(w)
            if len(ls) >= 2 and all(zero_like(a) is not None for a in ls):
                one = tm.fconst(1.0, rb.atoms[ls[0]].size)
                cases.append(('`%s` = (1, 0, ..) has a zero element but is not all zero and must be accepted' % w,
                              {a: (one if i == 0 else zero_like(a)) for i, a in enumerate(ls)}, set(ls), True))
                cases.append(('`%s` = 0 is documented to panic' % w, {a: zero_like(a) for a in ls}, set(ls), False))
    for (desc, mapping, ats, expect) in cases:
        rel_ = [c for c in conds if c.deps & ats]
        if not rel_:
            continue
        vals = [at(c, mapping) for c in rel_]
        inst = '%s [%s]' % (name, desc)
        if expect:
            # no assertion may be violated at the boundary point (conditions are the PANIC conditions: they must fold to false)
            if any(v is tm.TRUE for v in vals):
                n_b += 1
                ctx.violation('R-PRECOND-DOC', pair, inst, dict(where, problem='an assertion rejects a value the documentation allows: ' + desc))
            elif all(v is tm.FALSE for v in vals):
                n_b += 1
                ctx.holds('R-PRECOND-DOC', pair, inst)
        else:
            if all(v is tm.FALSE for v in vals):
                n_b += 1
                ctx.violation('R-PRECOND-DOC', pair, inst, dict(where, problem='no assertion fires on a value the documentation says panics: ' + desc))
            elif any(v is tm.TRUE for v in vals):
                n_b += 1
                ctx.holds('R-PRECOND-DOC', pair, inst)
    return n_arg, n_b


def cond_shape(t, atoms, memo=None):
    """dimension-independent shape of an assertion condition: atoms -> their argument index, lane-wise repetitions collapsed"""
    if memo is None:
        memo = {}
    r = memo.get(t.id)
    if r is not None:
        return r
    if t.op == 'atom':
        info = atoms.get(t)
        r = 'A%s' % (info.arg if info is not None else '?')
    elif t.op == 'c':
        try:
            r = '%.3g' % tm.f_of(t) if tm.csize(t) in (4, 8) else '#%d' % tm.cbits(t)
        except Exception:
            r = '#c'
    elif t.op.split(':')[0] not in ('and', 'or', 'not', 'flt', 'fle', 'feq', 'fne', 'fabs', 'lt', 'le', 'eq', 'ne', 'ite', 'm8', 'm16', 'm32', 'm64'):
        # an arithmetic sub-expression: only which operands it involves matters for the shape of the precondition
        args_ = sorted(set(str(atoms[a].arg) for a in t.deps if a.op == 'atom' and a in atoms))
        r = 'E[%s]' % ','.join(args_)
    else:
        kids = [cond_shape(a, atoms, memo) if isinstance(a, tm.T) else str(a) for a in t.args]
        op = t.op.split(':')[0]
        if op in ('and', 'or', 'fadd', 'fmul', 'fmin~', 'fmax~'):
            flat = []
            for k in kids:
                if k.startswith(op + '('):
                    flat.extend(_split_top(k[len(op) + 1:-1]))
                else:
                    flat.append(k)
            n_before = len(flat)
            kids = sorted(set(flat))
            if len(kids) == 1 and op in ('and', 'or') and n_before == 1:
                r = kids[0]
        if r is None:
            r = '%s(%s)' % (op, ','.join(kids))
    memo[t.id] = r
    return r


def _split_top(s):
    out, depth, cur = [], 0, ''
    for ch in s:
        if ch == ',' and depth == 0:
            out.append(cur)
            cur = ''
            continue
        depth += {'(': 1, ')': -1}.get(ch, 0)
        cur += ch
    if cur:
        out.append(cur)
    return out


def find_tolerance_guards(t, out, seen):
    if t.id in seen:
        return
    seen.add(t.id)
    if t.op == 'fle' and t.args[0].op == 'fabs' and tm.is_const(t.args[1]):
        out.append(t)
        return
    for a in t.args:
        if isinstance(a, tm.T):
            find_tolerance_guards(a, out, seen)


MAX_SPLIT = 8


def collect_ite_conds(t, out, seen):
    if t.id in seen:
        return
    seen.add(t.id)
    if t.op == 'ite' and t.args[0] not in out:
        out.append(t.args[0])
    for a in t.args:
        if isinstance(a, tm.T):
            collect_ite_conds(a, out, seen)


FAMILIES = [('fvec', ('Vec2', 'Vec3', 'Vec3A', 'Vec4', 'DVec2', 'DVec3', 'DVec4')), ('quat', ('Quat', 'DQuat')),
            ('mat', ('Mat2', 'Mat3', 'Mat3A', 'Mat4', 'DMat2', 'DMat3', 'DMat4')), ('affine', ('Affine2', 'Affine3A', 'DAffine2', 'DAffine3'))]


def family_of(tn):
    for fam, names in FAMILIES:
        if tn in names:
            return fam
    return None


def check_internal(ctx, pair, name, it, r, gained):
    """R-PRECOND-INT: a value that glam itself computes and hands to a function with a tolerance precondition (|len^2 - 1| <= tau)
    satisfies it as a real-arithmetic identity (sqrt(p)^2 = p, sin^2 + cos^2 = 1, sign^2 = 1).  Arguments that are the caller's own
    inputs passed through unchanged are the caller's responsibility and are skipped."""
    for p in gained:
        if p.fn == it['d']:
            continue
        guards = []
        find_tolerance_guards(p.cond, guards, set())
        for g in guards:
            X = g.args[0].args[0]
            conds = []
            collect_ite_conds(X, conds, set())
            # real-arithmetic reading: inputs are numbers, so NaN tests (x != x) are false
            nan_tests = [c for c in conds if c.op == 'fne' and c.args[0] is c.args[1]]
            for c in nan_tests:
                X = tm.subst(X, {c: tm.FALSE})
            conds = []
            collect_ite_conds(X, conds, set())
            if len(conds) > MAX_SPLIT:
                ctx.undecided('R-PRECOND-INT', pair, name, '%d selections in the guarded quantity' % len(conds))
                continue
            num = None
            try:
                for case in range(1 << len(conds)):
                    Xc = X
                    # substitute one condition at a time: deciding one may remove others
                    for j, c in enumerate(conds):
                        Xc = tm.subst(Xc, {c: tm.TRUE if (case >> j) & 1 else tm.FALSE})
                    alg = nf.Algebra()
                    alg.nf(Xc)
                    for v_, info in list(alg.var_info.items()):
                        if info[0] == 'fn' and info[1] in ('copysign', 'signum'):
                            alg.rel[v_] = nf.Poly.const(1)
                    alg.memo.clear()
                    x = alg.nf(Xc)
                    num = alg.reduce(x[0])
                    if not num.is_zero():
                        break
            except Exception as e:
                ctx.undecided('R-PRECOND-INT', pair, name, 'not analysable: %r' % (e,))
                continue
            inst = '%s -> %s' % (name, p.fn.rsplit('::', 2)[-2] + '::' + p.fn.rsplit('::', 1)[-1])
            if num.is_zero():
                ctx.holds('R-PRECOND-INT', pair, inst)
                continue
            # user value passed through unchanged?  every variable of the guarded quantity is an input atom of degree <= 2 with unit coefficients
            vars_ = num.variables()
            passthrough = all(alg.var_info.get(v_, ('?',))[0] == 'atom' for v_ in vars_)
            if passthrough and num.degree() <= 2:
                ctx.count('internal_assertions_on_caller_inputs:' + pair)
                continue
            ctx.violation('R-PRECOND-INT', pair, inst, {'file': it['file'], 'line': it['line'],
                          'problem': 'glam passes a value it computed itself to %s whose precondition |len^2 - 1| <= %g is not an identity for that value (it can panic with glam-assert on valid inputs)' % (p.fn, tm.f_of(g.args[1])),
                          'residual': num.show(alg.name, 6)})


def run(ctx):
    pairs = PAIRS_QUICK if ctx.tier == 'quick' else PAIRS_THOROUGH
    cfgs = ctx.need(sorted({c for p in pairs for c in p}))
    ctx.trusted = TRUSTED_COMMON
    cross = {}
    for (base, asrt) in pairs:
        if base not in cfgs or asrt not in cfgs:
            continue
        Fa, Fb = ctx.facts(base), ctx.facts(asrt)
        Ha, Hb = ctx.harness(base), ctx.harness(asrt)
        pair = '%s|%s' % (base, asrt)
        n = n_gain = n_doc_ok = n_documented = n_docarg = n_boundary = 0
        shapes = {}
        for name, it in api_roots(Fa):
            itb = Fb.items.get(name)
            if itb is None:
                ctx.unverifiable('R-SIB-EXACT', pair, name, 'function missing in the glam-assert build')
                continue
            tr = (it.get('trait') or '').rsplit('::', 1)[-1]
            if tr in ('Debug', 'Display', 'Hash'):
                continue
            ra, rb = Ha.run(it['key']), Hb.run(itb['key'])
            n += 1
            if ra.abort or rb.abort:
                ctx.undecided('R-SIB-EXACT', pair, name, ra.abort or rb.abort)
                continue
            if rb.diverged and not ra.diverged:
                ctx.violation('R-SIB-EXACT', pair, name, {'file': it['file'], 'line': it['line'], 'problem': 'with glam-assert the function always panics'})
                continue
            oa, ob = root_outputs(Fa, ra, Fa.body(it['key'])), root_outputs(Fb, rb, Fb.body(itb['key']))
            if len(oa) != len(ob) or any(x is not y for x, y in zip(oa, ob)):
                diff = [(tm.show(x, 0, 5)[:160], tm.show(y, 0, 5)[:160]) for x, y in zip(oa, ob) if x is not y][:2]
                ctx.violation('R-SIB-EXACT', pair, name, {'file': it['file'], 'line': it['line'], 'problem': 'enabling glam-assert changes a returned / written value', 'without_vs_with': diff})
                continue
            ctx.holds('R-SIB-EXACT', pair, name)
            # panic-site differencing
            ka = {(p.kind, p.fn) for p in ra.panics}
            gained = [p for p in rb.panics if (p.kind, p.fn) not in ka or len([q for q in rb.panics if (q.kind, q.fn) == (p.kind, p.fn)]) > len([q for q in ra.panics if (q.kind, q.fn) == (p.kind, p.fn)])]
            prom = panic_promises(rustdoc_of(REPO, it)) if (it.get('vis') == 'pub' and not it.get('trait')) or gained else []
            documented = bool(prom)
            if documented:
                n_documented += 1
            if gained:
                n_gain += 1
            own = [p for p in gained if p.fn == it['d']]
            if gained and not documented:
                check_internal(ctx, pair, name, it, rb, gained)
                if own:
                    ctx.violation('R-PRECOND', pair, name, {'file': it['file'], 'line': it['line'],
                                  'problem': 'the function asserts a precondition (%d glam_assert site(s), first: %s) that its documentation does not state: valid documented use can panic with glam-assert' % (len(own), tm.show(own[0].cond, 0, 4)[:200])})
            if own:
                st_ = (it.get('self_ty') or '').lstrip('&').rsplit('::', 1)[-1]
                fam = family_of(st_)
                if fam:
                    shapes.setdefault((fam, it.get('name'), Fa.body(it['key'])['argc']), []).append((name, it, tuple(sorted(cond_shape(p.cond, rb.atoms) for p in own))))
            if documented:
                own_atoms = set(ra.atoms) | set(rb.atoms)
                good = [p for p in gained if (p.cond.deps & set(rb.atoms))]
                if good:
                    n_doc_ok += 1
                    ctx.holds('R-PRECOND', pair, name)
                    a_, b_ = check_documented_operands(ctx, pair, name, it, rb, gained, prom, Fb.body(itb['key']))
                    n_docarg += a_
                    n_boundary += b_
                else:
                    ctx.violation('R-PRECOND', pair, name, {'file': it['file'], 'line': it['line'], 'problem': 'rustdoc promises a glam_assert panic but the assert build adds no assertion over the operands of this function'})
        # the same function in another backend asserts the same precondition whenever the condition tests the operands directly
        for (fam, mname_, argc_), lst in shapes.items():
            for (nm_, it_, sh_) in lst:
                if not any('E[' in x for x in sh_):
                    tn_ = (it_.get('self_ty') or '').lstrip('&').rsplit('::', 1)[-1]
                    cross.setdefault((tn_, mname_, argc_), []).append((pair, nm_, it_, sh_))
        # R-PRECOND-SIB: the same-named operation asserts the same precondition on every sibling type (shape of the condition, lanes collapsed)
        n_sib = 0
        for (fam, mname_, argc_), lst in sorted(shapes.items()):
            if len(lst) == 2:
                # two siblings only (Quat / DQuat, Mat4 / DMat4 projections): they must agree, unless one is a hand-scheduled SIMD implementation
                (n0, i0, s0), (n1, i1, s1) = lst
                simd_ = [(base != 'scalar') and i_['file'].split('/')[2:3] and i_['file'].split('/')[2] in ('sse2', 'neon', 'wasm32', 'coresimd') for i_ in (i0, i1)]
                for (nm_, it_, sh_) in lst:
                    n_sib += 1
                    if s0 != s1 and not any(simd_):
                        ctx.violation('R-PRECOND-SIB', pair, nm_, {'file': it_['file'], 'line': it_['line'],
                                      'problem': 'the two sibling types assert different preconditions for %s' % mname_, 'one': list(s0)[:3], 'other': list(s1)[:3]})
                    else:
                        ctx.holds('R-PRECOND-SIB', pair, nm_)
                continue
            if len(lst) < 3:
                continue
            from collections import Counter
            cnt = Counter(sh for (_n, _i, sh) in lst)
            major, mc = cnt.most_common(1)[0]
            for (nm_, it_, sh) in lst:
                n_sib += 1
                simd_backed = (base != 'scalar') and it_['file'].split('/')[2:3] and it_['file'].split('/')[2] in ('sse2', 'neon', 'wasm32', 'coresimd')
                # hand-scheduled SIMD implementations may legitimately test an equivalent quantity (1/det finite instead of det != 0)
                if sh != major and mc >= max(2, len(lst) - 2) and mc > cnt[sh] and not simd_backed:
                    ctx.violation('R-PRECOND-SIB', pair, nm_, {'file': it_['file'], 'line': it_['line'],
                                  'problem': 'the asserted precondition differs from the one %d of %d sibling types assert for %s' % (mc, len(lst), mname_), 'here': list(sh)[:3], 'siblings': list(major)[:3]})
                else:
                    ctx.holds('R-PRECOND-SIB', pair, nm_)
        ctx.floor('sibling assertion shapes compared (%s)' % pair, n_sib, 100)
        ctx.floor('functions compared with/without glam-assert (%s)' % pair, n, 13000)
        ctx.floor('documented preconditions found asserted (%s)' % pair, n_doc_ok, 200)
        ctx.floor('functions documenting a glam_assert panic (%s)' % pair, n_documented, 220)
        ctx.floor('documented operands checked against the assertions (%s)' % pair, n_docarg, 270)
        ctx.floor('documented boundary cases evaluated (%s)' % pair, n_boundary, 60)
        ctx.count('functions_gaining_panic_sites:' + pair, n_gain)
        ctx.floor('internally established normalisation preconditions (%s)' % pair,
                  sum(1 for o in ctx.obligations if o[0] == 'R-PRECOND-INT' and o[1] == pair), 9)      # measured 12; inlining a helper removes instances legitimately
    for (tn_, mname_, argc_), lst in sorted(cross.items()):
        if len(lst) < 2:
            continue
        from collections import Counter
        cnt = Counter(sh for (_p, _n, _i, sh) in lst)
        major, mc = cnt.most_common(1)[0]
        for (pair_, nm_, it_, sh) in lst:
            if sh != major and mc > cnt[sh]:
                ctx.violation('R-PRECOND-SIB', pair_, nm_, {'file': it_['file'], 'line': it_['line'],
                              'problem': 'this backend asserts a different precondition for %s::%s than %d of the %d builds' % (tn_, mname_, mc, len(lst)), 'here': list(sh)[:3], 'elsewhere': list(major)[:3]})
            else:
                ctx.holds('R-PRECOND-SIB', pair_, nm_ + ' (across backends)')
    # is_normalized: |len^2 - 1| <= tau, one tau per scalar width
    for cfg in [p[0] for p in pairs if p[0] in cfgs]:
        F = ctx.facts(cfg)
        H = ctx.harness(cfg)
        taus = {}
        for name, it in api_roots(F):
            if it.get('name') != 'is_normalized' or it.get('trait'):
                continue
            r = H.run(it['key'])
            if r.abort:
                ctx.unverifiable('R-GUARD', cfg, name, r.abort)
                continue
            body = F.body(it['key'])
            v = ArgView(F, r, 0, body['locals'][1])
            g = r.ret
            alg = nf.Algebra()
            S = Spec(alg)
            ok = isinstance(g, tm.T) and g.op == 'fle' and tm.is_const(g.args[1]) and g.args[0].op == 'fabs'
            if ok and v.lanes:
                a = [alg.nf(x) for x in v.lanes]
                ok = S.eq(alg.nf(g.args[0].args[0]), S.sub(S.dot(a, a), S.c(1)))
            if not ok:
                ctx.violation('R-GUARD', cfg, name, {'file': it['file'], 'line': it['line'], 'problem': 'is_normalized is not |len^2 - 1| <= tau: %s' % (tm.show(g, 0, 4)[:200] if isinstance(g, tm.T) else g)})
                continue
            w = tm.csize(g.args[1])
            taus.setdefault(w, set()).add(tm.f_of(g.args[1]))
            ctx.holds('R-GUARD', cfg, name, {'tau': tm.f_of(g.args[1])})
        for w, ts in taus.items():
            if len(ts) != 1:
                ctx.violation('R-GUARD', cfg, 'is_normalized tolerance (f%d)' % (8 * w), {'problem': 'different tolerances across types: %s' % sorted(ts)})
            else:
                ctx.holds('R-GUARD', cfg, 'is_normalized tolerance (f%d)' % (8 * w), {'tau': sorted(ts)[0]})
        ctx.floor('is_normalized implementations (%s)' % cfg, sum(1 for o in ctx.obligations if o[0] == 'R-GUARD' and o[1] == cfg), 9)
    # rotation producers establish the consumers' preconditions (real identities)
    import post
    for cfg in ctx.need(POST_QUICK if ctx.tier == 'quick' else POST_THOROUGH):
        post.run_producers(ctx, cfg, ctx.facts(cfg), ctx.harness(cfg), 270)
    ctx.extra['exhaustive'] = True
