"""C19 - serialisation and interop round-trip every value, identically across backends.

R-EFFSEQ (generic bodies interpreted with opaque serializer types): Serialize emits serialize_tuple_struct(type name, N), then N serialize_field calls whose
arguments are elements 0..N-1 of the value in lane / column-major order, then end; Deserialize::visit_seq makes exactly N next_element calls, element k flows to
element k of the constructed value unchanged (it is the element read, of the documented element type - bool for masks -, not a function of it), a missing
element k is reported as invalid_length(k) (closure or match form); both sequences are identical in all four interop builds.
R-LAYOUT: Pod only for padding-free types whose byte image is the element order; every other bytemuck marker trait is reviewed (AnyBitPattern never on masks, NoUninit
never with padding); R-COPY: rkyv resolve/deserialize copy *self and exist only for types made of plain numbers; mint conversions copy lanes and cannot panic
(column matrices by column, row matrices transposed).  Not decided: rejection of over-long sequences (done by the format crate)."""
import re
import terms as tm
from matmodel import MatModel, DIMS
from lift import strip_ref
from common import api_roots, vec_info, tydef, atom_at, cell_term, leaves_plain, hidden_offsets, TRUSTED_COMMON
from runner import norm_def_path

LEVEL = 'other'
TECHNIQUE = 'effect-sequence analysis of generic serde bodies (abstract interpretation with opaque serializer types), layout facts from rustc, provenance analysis of conversions'
EXPLANATION = ('Decides for every value and every Serializer/Deserializer that glam emits and consumes exactly N elements in lane / column-major order with the right '
               'error indices and names, identically across backends; that Pod is only implemented for padding-free types with element-ordered byte images; that rkyv and '
               'mint conversions are copies (row-major mint matrices transposed).  Rejection of over-long sequences is performed by the format crate and is not decided here.')
LEVEL_NOTE = 'Decides the glam side of the round trip; the format crates are outside the claim. Trusted: rustc MIR/layout, serde trait contracts.'

CONFIGS_QUICK = ['interop', 'interop-scalar', 'interop-coresimd', 'interop-cuda']
CONFIGS_THOROUGH = ['interop', 'interop-scalar', 'interop-coresimd', 'interop-cuda']
SER_RE = re.compile(r"^features::impl_serde::.*<impl serde::Serialize for (.+)>::serialize$")
VIS_RE = re.compile(r"^<features::impl_serde::.*<impl serde::Deserialize<'de> for (.+)>::deserialize::(\w+) as serde::de::Visitor<'de>>::visit_seq$")
DES_RE = re.compile(r"^features::impl_serde::.*<impl serde::Deserialize<'de> for (.+)>::deserialize$")


def visible_leaves(F, tyid):
    hid = set(hidden_offsets(F, tyid))
    return [(o, s, lt) for (o, s, lt) in leaves_plain(F, tyid) if o not in hid]


def lane_offsets(F, tyid):
    """element order of a glam value: vectors/quats by lane; matrices/affines column-major"""
    return [o for (o, s, lt) in visible_leaves(F, tyid)]


_EL = {'D': 'f64', 'I8': 'i8', 'U8': 'u8', 'I16': 'i16', 'U16': 'u16', 'I64': 'i64', 'U64': 'u64', 'USize': 'usize', 'ISize': 'isize',
       'I': 'i32', 'U': 'u32', 'B': 'bool', '': 'f32'}


def element_type_name(short):
    m = re.match(r'^(D|I8|U8|I16|U16|I64|U64|USize|ISize|I|U|B|)(Vec[234]A?|Mat[234]A?|Quat|Affine[23]A?)$', short)
    return _EL[m.group(1)] if m else None


def find_type(F, name):
    for i, t in F.types.items():
        if t['n'] == name:
            return i
    return None


def run(ctx):
    configs = ctx.need(CONFIGS_QUICK if ctx.tier == 'quick' else CONFIGS_THOROUGH)
    ctx.trusted = TRUSTED_COMMON + ['serde trait contracts: a tuple struct is emitted by serialize_tuple_struct / serialize_field* / end and read through SeqAccess::next_element']
    ser_seq = {}
    for cfg in configs:
        F = ctx.facts(cfg)
        H = ctx.harness(cfg, {'log_opaque_effects': True})
        M = MatModel(F, ctx.harness(cfg + '#plain') if False else H)
        counts = {}

        def done(rule, name, bad, it):
            counts[rule] = counts.get(rule, 0) + 1
            if bad:
                ctx.violation(rule, cfg, name, {'file': it['file'], 'line': it['line'], 'problem': bad})
            else:
                ctx.holds(rule, cfg, name)

        for name, it in F.items.items():
            m = SER_RE.match(name)
            if m and it['generic']:
                tn = m.group(1)
                if tn.endswith('EulerRot'):
                    continue
                tyid = find_type(F, tn)
                short = tn.rsplit('::', 1)[-1]
                r = H.run(it['key'])
                bad = r.abort
                if not bad and tyid is None:
                    bad = 'type %s not found' % tn
                if not bad:
                    offs = lane_offsets(F, tyid)
                    N = len(offs)
                    eff = [e for e in r.effects if e[0].rsplit('::', 1)[-1] in ('serialize_tuple_struct', 'serialize_field', 'end')]
                    seq = []
                    if not eff or eff[0][0].rsplit('::', 1)[-1] != 'serialize_tuple_struct':
                        bad = 'does not start with serialize_tuple_struct'
                    else:
                        d0 = eff[0][1]
                        nm = [a for a in d0 if a[0] == 'lit']
                        ln = [a for a in d0 if a[0] == 'val' and re.match(r'^0x[0-9a-f]+_8$', str(a[2]))]
                        if not nm or nm[0][2] != short:
                            bad = 'tuple struct name is %r, expected %r' % (nm[0][2] if nm else None, short)
                        elif not ln or int(str(ln[0][2]).split('_')[0], 16) != N:
                            bad = 'declared length %s, the value has %d elements' % (ln[0][2] if ln else None, N)
                    fields = [e for e in eff if e[0].rsplit('::', 1)[-1] == 'serialize_field']
                    if not bad and len(fields) != N:
                        bad = 'emits %d elements, the value has %d' % (len(fields), N)
                    if not bad:
                        want_el = element_type_name(short)
                        for k, e in enumerate(fields):
                            arg = e[1][1]
                            if want_el is None or arg[1] != want_el:
                                bad = 'element %d is written as %s; the documented element type of %s is %s' % (k, arg[1], short, want_el)
                                break
                            ats = re.findall(r'a0\*@(\d+)', str(arg[2]))
                            if len(set(ats)) != 1 or int(ats[0]) != offs[k]:
                                bad = 'element %d emitted is %s, expected the element at byte offset %d (element order)' % (k, str(arg[2])[:120], offs[k])
                                break
                            seq.append(offs.index(int(ats[0])))
                    if not bad and eff[-1][0].rsplit('::', 1)[-1] != 'end':
                        bad = 'does not finish with end()'
                    if not bad:
                        # every serialize_field is on the success path of all previous calls (nested path conditions)
                        depth = [len(e[2]) for e in eff]
                        if depth != sorted(depth):
                            bad = 'calls are not sequenced on one success path'
                    ser_seq.setdefault(short, {})[cfg] = (N, seq, element_type_name(short))
                done('R-SER', name, bad, it)
                continue
            m = VIS_RE.match(name)
            if m and it['generic']:
                tn = m.group(1)
                tyid = find_type(F, tn)
                r = H.run(it['key'])
                bad = r.abort
                if not bad and tyid is None:
                    bad = 'type %s not found' % tn
                if not bad:
                    offs = lane_offsets(F, tyid)
                    N = len(offs)
                    nexts = [e for e in r.effects if e[0].rsplit('::', 1)[-1] == 'next_element']
                    oks = [e for e in r.effects if e[0].rsplit('::', 1)[-1] == 'ok_or_else']
                    if len(nexts) != N:
                        bad = 'makes %d next_element calls, the value has %d elements' % (len(nexts), N)
                    # the element type requested from the format is the documented element type (a DQuat read through f32 loses 29 bits)
                    want_el = element_type_name(tn.rsplit('::', 1)[-1])
                    for e_ in r.effects:
                        if e_[0].endswith('Try>::branch') and e_[1] and 'call:serde::de::SeqAccess::next_element' in str(e_[1][0][2]):
                            mo = re.search(r'Option<([^<>]+)>', str(e_[1][0][1]))
                            if not bad and (mo is None or want_el is None or mo.group(1).rsplit('::', 1)[-1] != want_el):
                                bad = 'reads its elements as %s; the documented element type of %s is %s' % (mo.group(1) if mo else '?', tn.rsplit('::', 1)[-1], want_el)
                    # the Ok leaf
                    t = r.ret
                    leaf = None
                    guard = 0
                    while isinstance(t, tm.T) and guard < 200:
                        guard += 1
                        if t.op == 'agg':
                            leaf = t
                            break
                        if t.op == 'ite':
                            a, b = t.args[1], t.args[2]
                            t = a if _has_agg(a) else b
                        else:
                            break
                    if not bad and (leaf is None or leaf.args[1] != 0 or 'Result' not in leaf.args[0]):
                        bad = 'no Ok(..) result found on the success path'
                    if not bad:
                        payload = list(leaf.args[2:])
                        toks = [e[4] for e in nexts]
                        if len(payload) < N:
                            bad = 'Ok payload has %d cells' % len(payload)
                        else:
                            # payload cells are in offset order of the value; map to element order
                            cells_by_off = sorted(o for (o, s, lt) in leaves_plain(F, tyid))
                            hid = set(hidden_offsets(F, tyid))
                            vis = [o for o in cells_by_off if o not in hid]
                            # the aggregate lists every cell (including hidden ones) in offset order
                            allc = cells_by_off if len(payload) == len(cells_by_off) else vis
                            for k, o in enumerate(offs):
                                term = payload[allc.index(o)]
                                has = [j for j, tk in enumerate(toks) if tk in term.deps]
                                # the sequence-access state threads through every call, so element k may also depend on the
                                # earlier calls; it must be produced by call k itself: the latest call it depends on is k
                                if not has or max(has) != k:
                                    bad = 'element %d of the value is built from sequence element(s) %s' % (k, has)
                                    break
                                # ... and is that element itself, not a function of it (a mask lane is the canonical mask of the bool read)
                                core_ = term
                                while core_.op in ('m8', 'm16', 'm32', 'm64', 'extract') or (core_.op == 'mask' and core_.args and isinstance(core_.args[0], tm.T)):
                                    core_ = core_.args[0]
                                if core_.op not in ('field_of', 'top'):
                                    bad = 'element %d of the value is %s: computed from the element read, not the element itself' % (k, tm.show(term, 0, 3)[:120])
                                    break
                    if not bad:
                        inv = [e for e in r.effects if e[0].rsplit('::', 1)[-1] == 'invalid_length']
                        if len(oks) != N and len(inv) == N and not oks:
                            # the same handling written as a match: invalid_length(k, ..) is called directly on the None arm of element k
                            toks_ = [e_[4] for e_ in nexts]
                            seen_idx = []
                            for e in inv:
                                a0 = e[1][0] if e[1] else None
                                mo = re.match(r'^(?:0x([0-9a-f]+)_\d+|d#(\d+))$', str(a0[2])) if a0 is not None else None
                                val_ = None if mo is None else (int(mo.group(1), 16) if mo.group(1) is not None else int(mo.group(2)))
                                # which element was found missing on the path to this call: the latest next_element its path condition depends on
                                deps_ = set()
                                for c_ in e[2]:
                                    if isinstance(c_, tm.T):
                                        deps_ |= set(c_.deps)
                                has_ = [j for j, tk in enumerate(toks_) if tk in deps_]
                                k_ = max(has_) if has_ else None
                                seen_idx.append(k_)
                                if val_ is None or k_ is None or val_ != k_:
                                    bad = 'missing element %s is reported as invalid_length(%s)' % (k_, a0[2] if a0 is not None else '?')
                                    break
                            if not bad and sorted(x for x in seen_idx if x is not None) != list(range(N)):
                                bad = 'missing-element reports cover elements %s, expected each of 0..%d once' % (sorted(seen_idx, key=str), N - 1)
                        elif len(oks) != N:
                            bad = '%d missing-element handlers for %d elements' % (len(oks), N)
                        else:
                            for k, e in enumerate(oks):
                                bad = check_invalid_length(F, it, e, k)
                                if bad:
                                    break
                done('R-DESER', name, bad, it)
                continue
            m = DES_RE.match(name)
            if m and it['generic']:
                tn = m.group(1)
                if tn.endswith('EulerRot'):
                    continue
                tyid = find_type(F, tn)
                short = tn.rsplit('::', 1)[-1]
                r = H.run(it['key'])
                bad = r.abort
                if not bad:
                    N = len(lane_offsets(F, tyid))
                    e = [x for x in r.effects if x[0].rsplit('::', 1)[-1] == 'deserialize_tuple_struct']
                    if len(e) != 1:
                        bad = 'does not call deserialize_tuple_struct exactly once'
                    else:
                        ln = [a for a in e[0][1] if a[0] == 'val' and re.match(r'^0x[0-9a-f]+_8$', str(a[2]))]
                        nm = [a for a in e[0][1] if a[0] == 'lit']
                        if not ln or int(str(ln[0][2]).split('_')[0], 16) != N:
                            bad = 'requests %s elements, the value has %d' % (ln[0][2] if ln else None, N)
                        elif not nm or nm[0][2] != short:
                            bad = 'asks the format for a tuple struct named %r, Serialize writes %r: formats that carry the name cannot read the value back' % (nm[0][2] if nm else None, short)
                done('R-DESER', name, bad, it)
        # ---- bytemuck: Pod only on padding-free element-ordered types
        pods = [m for m in F.impls if m['trait'].endswith('Pod') and 'bytemuck' in m['trait']]
        for m in pods:
            tyid = m['self_ty']
            name = 'impl Pod for ' + m['self']
            if tyid is None or tyid < 0:
                ctx.unverifiable('R-LAYOUT', cfg, name, 'generic Pod impl')
                continue
            t = F.types[tyid]
            lv = leaves_plain(F, tyid)
            bad = None
            if m['self'].rsplit('::', 1)[-1].startswith('BVec'):
                bad = 'Pod implemented for a mask type: casting arbitrary bytes would create lanes that are neither all-ones nor zero (or bytes that are not valid bools)'
            elif hidden_offsets(F, tyid):
                bad = 'Pod implemented for a type with a hidden lane'
            elif sum(s for (o, s, lt) in lv) != t['sz']:
                bad = 'Pod implemented for a type with padding: size %d, elements cover %d bytes' % (t['sz'], sum(s for (o, s, lt) in lv))
            else:
                pos = 0
                for (o, s, lt) in sorted(lv):
                    if o != pos or F.types[lt].get('k') not in ('int', 'float'):
                        bad = 'byte image is not the contiguous sequence of numeric elements (offset %d)' % o
                        break
                    pos += s
            counts['R-LAYOUT'] = counts.get('R-LAYOUT', 0) + 1
            if bad:
                ctx.violation('R-LAYOUT', cfg, name, {'problem': bad})
            else:
                ctx.holds('R-LAYOUT', cfg, name)
        # the other bytemuck marker traits: anything that lets safe code build the value from bytes (AnyBitPattern, CheckedBitPattern excepted
        # because it validates) or view it as bytes (NoUninit) must not be offered for masks, whose lanes are all-ones / zero or bools
        for m in F.impls:
            if 'bytemuck' not in m['trait'] or m['trait'].endswith('Pod'):
                continue
            trn = m['trait'].rsplit('::', 1)[-1]
            name = 'impl %s for %s' % (trn, m['self'])
            tyid = m['self_ty']
            counts['R-LAYOUT'] = counts.get('R-LAYOUT', 0) + 1
            if tyid is None or tyid < 0:
                ctx.unverifiable('R-LAYOUT', cfg, name, 'generic bytemuck impl')
                continue
            lv = leaves_plain(F, tyid)
            is_mask = m['self'].rsplit('::', 1)[-1].startswith('BVec')
            nonnum = [o for (o, s_, lt) in lv if F.types[lt].get('k') not in ('int', 'float')]
            bad = None
            if trn == 'Zeroable':
                pass                      # the all-zero pattern is the all-false mask and the zero vector
            elif trn == 'AnyBitPattern':
                if is_mask or nonnum:
                    bad = 'AnyBitPattern on a type whose lanes are not plain numbers: arbitrary bytes would create an invalid mask / bool'
            elif trn == 'NoUninit':
                if sum(s_ for (o, s_, lt) in lv) != F.types[tyid]['sz']:
                    bad = 'NoUninit on a type with padding bytes'
            elif trn in ('CheckedBitPattern',):
                pass
            else:
                bad = 'unreviewed bytemuck marker trait %s' % trn
            if bad:
                ctx.violation('R-LAYOUT', cfg, name, {'problem': bad})
            else:
                ctx.holds('R-LAYOUT', cfg, name)
        for padded in ('Vec3A', 'Mat3A', 'Affine3A'):
            if cfg == 'interop' and any(m['self'].rsplit('::', 1)[-1] == padded for m in pods):
                ctx.violation('R-LAYOUT', cfg, 'impl Pod for ' + padded, {'problem': 'Pod on a padded SIMD type'})
        # ---- mint conversions (non-generic From impls)
        for name, it in api_roots(F):
            tr = (it.get('trait') or '').rsplit('::', 1)[-1]
            if tr != 'From':
                continue
            body = F.body(it['key'])
            if body is None or body['argc'] != 1:
                continue
            aty, rty = body['locals'][1], body['locals'][0]
            an, rn = F.types[aty]['n'], F.types[rty]['n']
            if not (an.startswith('mint::') or rn.startswith('mint::')):
                continue
            r = H.run(it['key'])
            bad = r.abort
            live = [p_ for p_ in (r.panics or []) if p_.cond is not tm.FALSE] if not bad else []
            if live:
                bad = 'the conversion can panic (%s in %s): it is not a total function of the value' % (live[0].kind, live[0].fn)
            if not bad:
                src_ty, dst_ty = aty, rty
                rowmajor = 'RowMatrix' in an or 'RowMatrix' in rn

                def order(tyid):
                    tn_ = F.types[tyid]['n']
                    lv = [(o, s) for (o, s, lt) in visible_leaves(F, tyid)]
                    if 'RowMatrix' in tn_:
                        n_ = int(round(len(lv) ** 0.5))
                        # row-major storage: element (r, c) at index r*n + c  ->  reorder to column-major (c, r)
                        return [lv[r_ * n_ + c_] for c_ in range(n_) for r_ in range(n_)]
                    return lv
                so, do = order(src_ty), order(dst_ty)
                if len(so) != len(do):
                    bad = 'element counts differ: %d -> %d' % (len(so), len(do))
                else:
                    for k, ((o1, s1), (o2, s2)) in enumerate(zip(so, do)):
                        if cell_term(r.ret, o2, s2) is not atom_at(r, 0, o1):
                            bad = 'element %d (column-major order) is not copied from the corresponding source element' % k
                            break
            done('R-MINT', name, bad, it)
        # ---- rkyv: resolve / deserialize copy *self
        for name, it in F.items.items():
            if 'impl_rkyv' not in name or not it['generic']:
                continue
            mname = it.get('name')
            if mname not in ('resolve', 'deserialize'):
                continue
            r = H.run(it['key'])
            bad = r.abort
            if not bad:
                body = F.body(it['key'])
                sty, _ = strip_ref(F, body['locals'][1])
                offs = lane_offsets(F, sty)
                stn = F.types[sty]['n'].rsplit('::', 1)[-1]
                if stn.startswith('BVec') or any(F.types[lt].get('k') not in ('int', 'float') for (o, s_, lt) in leaves_plain(F, sty)):
                    bad = 'rkyv archives %s as its own bytes and accepts every bit pattern back (CheckBytes is a no-op); that is only sound for types made of plain numbers' % stn
                elif mname == 'resolve':
                    e = [x for x in r.effects if x[0].rsplit('::', 1)[-1] == 'write']
                    if len(e) != 1:
                        bad = 'resolve does not perform exactly one Place::write'
                    else:
                        ats = [int(x) for x in re.findall(r'a0\*@(\d+)', str(e[0][1][-1][2]))]
                        if [a for a in ats if a in offs] != offs:
                            bad = 'archived value is not a copy of *self: %s' % ats[:8]
                else:
                    t = r.ret
                    ok = isinstance(t, tm.T) and t.op == 'agg' and t.args[1] == 0
                    if ok:
                        ats = [x.args[0] for x in t.args[2:] if x.op == 'atom']
                        exp = ['a0*@%d' % o for o in offs]
                        ok = [a for a in ats if a in exp] == exp
                    if not ok:
                        bad = 'deserialize does not return Ok(*self)'
            done('R-RKYV', name, bad, it)
        ctx.floor('serde Serialize impls (%s)' % cfg, counts.get('R-SER', 0), 50)
        ctx.floor('serde Deserialize impls (%s)' % cfg, counts.get('R-DESER', 0), 100)
        ctx.floor('bytemuck impls (%s)' % cfg, counts.get('R-LAYOUT', 0), 84)
        ctx.floor('mint conversions (%s)' % cfg, counts.get('R-MINT', 0), 80)
        ctx.floor('rkyv impls (%s)' % cfg, counts.get('R-RKYV', 0), 44)
        for k, v in sorted(counts.items()):
            ctx.count('%s:%s' % (k, cfg), v)
    # cross-backend: identical emission order
    for short, per in sorted(ser_seq.items()):
        if len(per) < 2:
            continue
        vals = sorted(per.items())
        ref_cfg, ref = vals[0]
        diff = [(c, v) for (c, v) in vals[1:] if v != ref]
        inst = '|'.join(c for c, _ in vals)
        if not diff:
            ctx.holds('R-SIB', inst, short)
        else:
            ctx.violation('R-SIB', inst, short, {'problem': 'serialisation order differs between builds', ref_cfg: ref, diff[0][0]: diff[0][1]})
    if ctx.tier == 'thorough':
        from runner import run_witness
        run_witness(ctx, ['C19'])
    ctx.extra['exhaustive'] = True


def _has_agg(t, depth=0):
    if not isinstance(t, tm.T) or depth > 400:
        return False
    if t.op == 'agg' and t.args[1] == 0 and 'Result' in str(t.args[0]):
        return True
    if t.op == 'ite':
        return _has_agg(t.args[1], depth + 1) or _has_agg(t.args[2], depth + 1)
    return False


def check_invalid_length(F, it, eff, k):
    """the closure handed to the k-th ok_or_else reports invalid_length(k, ..)"""
    clo = eff[1][1]
    tyname = str(clo[1])
    # find the closure body: closures of this visit_seq in definition order
    base = it['key']
    keys = sorted([key for key in F.body_keys() if key.startswith(base + '::{closure#')], key=lambda s_: int(re.search(r'closure#(\d+)', s_).group(1)))
    if not keys:
        return 'closure bodies not found'
    if len(keys) == 1:
        body = F.body(keys[0])
    elif k < len(keys):
        body = F.body(keys[k])
    else:
        return 'no closure for element %d' % k
    for bb in body['blocks']:
        if bb is None:
            continue
        t = bb['t']
        if t[0] == 'call' and 'd' in t[1] and t[1]['d'].endswith('invalid_length'):
            a0 = t[2][0]
            if a0[0] == 'k' and a0[1][0] == 'int':
                return None if int(a0[1][1]) == k else 'missing element %d is reported as invalid_length(%d)' % (k, int(a0[1][1]))
            # captured loop index: the environment cell must hold the constant k at the k-th call
            m = re.search(r'->const\((\d+)\)', str(clo[2]))
            if m:
                return None if int(m.group(1)) == k else 'missing element %d is reported with index %s' % (k, m.group(1))
            return 'invalid_length index is neither a constant nor the captured loop index'
    return 'missing-element closure does not call invalid_length'
