"""C14 - conversions between vector types match the primitive conversions lane by lane.

R-LIFT for as_* / From / TryFrom between numeric vector types (lane i = the primitive conversion of lane i,
destination type spelled by the method name, From only for lossless scalar pairs); R-COPY for
array / tuple / (vector, scalar) / Vec3<->Vec3A / Quat<->Vec4 / extend / truncate conversions
(each visible output element is the bare input element, in order)."""
import re
import terms as tm
from terms import mk, ite, const
from lift import ArgView, value_lanes, result_of, check_uniform, scalar_name, strip_ref
from common import api_roots, vec_info, tydef, leaves_plain, hidden_offsets, atom_at, cell_term, TRUSTED_COMMON
from runner import norm_def_path

LEVEL = 'proof'
TECHNIQUE = 'lane-uniformity + cast-kind agreement + provenance (bit-copy) analysis over rustc MIR; exhaustive over resolved impls'
EXPLANATION = ('Every as_*, From, TryFrom impl and every array/tuple/extend/truncate conversion of every vector type is interpreted on '
               'symbolic lanes.  Numeric conversions must be lane-uniform with lane 0 = the MIR cast between exactly the source and '
               'destination element types (Rust `as` semantics by language definition); From must be a lossless pair; TryFrom must be '
               'Ok exactly when every lane fits; structural conversions must copy elements bit-for-bit in order.')

CONFIGS_QUICK = ['sse2', 'sse2-fma', 'sse41', 'scalar', 'coresimd', 'neon', 'wasm32']
CONFIGS_THOROUGH = ['sse2', 'sse2-fma', 'sse41', 'scalar', 'coresimd', 'neon', 'wasm32']
FLOOR = {'as': 350, 'from_num': 110, 'tryfrom': 150, 'copy': 300}


def cast_kind(src, dst):
    s, d = src[0], dst[0]
    if src == 'bool':
        return 'IntToInt' if d in 'iu' else None
    if s == 'f' and d == 'f':
        return 'FloatToFloat'
    if s == 'f':
        return 'FloatToInt'
    if d == 'f':
        return 'IntToFloat'
    return 'IntToInt'


def lossless(src, dst):
    if src == dst:
        return True
    if src == 'bool':
        return True
    sb, db = int(src[1:]), int(dst[1:])
    if src[0] == 'f':
        return dst[0] == 'f' and db >= sb
    if dst[0] == 'f':
        mant = 24 if db == 32 else 53
        return sb <= mant
    if src[0] == 'u' and dst[0] == 'u':
        return db >= sb
    if src[0] == 'i' and dst[0] == 'i':
        return db >= sb
    if src[0] == 'u' and dst[0] == 'i':
        return db > sb
    return False


def ordered_visible_leaves(F, tyid):
    hid = set(hidden_offsets(F, tyid))
    return [(o, s, lt) for (o, s, lt) in leaves_plain(F, tyid) if o not in hid]


def is_vecish(F, tyid):
    b, _ = strip_ref(F, tyid)
    n = tydef(F, b) or ''
    return vec_info(F, b) is not None


def run(ctx):
    configs = ctx.need(CONFIGS_QUICK if ctx.tier == 'quick' else CONFIGS_THOROUGH)
    ctx.trusted = TRUSTED_COMMON + ['Rust `as` cast semantics (saturating float->int, NaN->0, wrapping int narrowing, round-to-nearest f64->f32) are the language definition of the MIR cast kinds']
    for cfg in configs:
        F = ctx.facts(cfg)
        H = ctx.harness(cfg)
        cnt = {'as': 0, 'from_num': 0, 'tryfrom': 0, 'copy': 0}
        for name, it in api_roots(F):
            mname = it.get('name') or ''
            tr = (it.get('trait') or '').rsplit('::', 1)[-1]
            body = F.body(it['key'])
            if body is None:
                continue
            argtys = body['locals'][1:1 + body['argc']]
            rty = body['locals'][0]
            kind = None
            if mname.startswith('as_') and body['argc'] == 1 and vec_info(F, strip_ref(F, argtys[0])[0]) is not None and not tr:
                kind = 'as'
            elif tr == 'From' and body['argc'] == 1:
                a0 = strip_ref(F, argtys[0])[0]
                va, vr = vec_info(F, a0), vec_info(F, rty)
                is_mask = lambda v: v is not None and v['name'].startswith('BVec')
                if is_mask(vr) or (is_mask(va) and vr is None):
                    kind = None       # mask construction / mask -> array: C15
                elif va is not None and vr is not None and va['dim'] == vr['dim'] and (is_mask(va) or va['elem'] != vr['elem']):
                    kind = 'from_num'
                elif (va is not None or vr is not None) and not ('m128' in F.types[a0]['n'] or 'm128' in F.types[rty]['n'] or 'Simd<' in F.types[a0]['n'] or 'Simd<' in F.types[rty]['n'] or 'x4_t' in F.types[a0]['n'] or 'x4_t' in F.types[rty]['n'] or 'v128' in F.types[a0]['n'] or 'v128' in F.types[rty]['n']):
                    kind = 'copy'
            elif tr == 'TryFrom' and body['argc'] == 1 and vec_info(F, strip_ref(F, argtys[0])[0]) is not None:
                kind = 'tryfrom'
            elif not tr and mname in ('extend', 'truncate', 'from_array', 'to_array', 'from_vec4', 'to_vec3', 'to_vec3a', 'from_xyzw') and \
                    (vec_info(F, rty) is not None or (body['argc'] >= 1 and vec_info(F, strip_ref(F, argtys[0])[0]) is not None)):
                kind = 'copy'
                if (tydef(F, rty) or '').startswith('BVec') or (body['argc'] >= 1 and (tydef(F, strip_ref(F, argtys[0])[0]) or '').startswith('BVec')):
                    kind = None
            if kind is None:
                continue
            cnt[kind] += 1
            r = H.run(it['key'])
            if r.abort or r.ret is None:
                ctx.unverifiable('R-CONV', cfg, name, 'not analysable: %s' % r.abort)
                continue
            if r.panics:
                ctx.violation('R-CONV', cfg, name, {'file': it['file'], 'line': it['line'], 'problem': 'conversion can panic: %r' % (r.panics[0],)})
                continue
            views = [ArgView(F, r, i, argtys[i]) for i in range(body['argc'])]
            where = {'file': it['file'], 'line': it['line']}
            if kind in ('as', 'from_num'):
                lanes = value_lanes(F, r.ret, rty)
                vr = vec_info(F, rty)
                if lanes is None or vr is None or vr['dim'] != views[0].dim:
                    ctx.violation('R-CONV', cfg, name, dict(where, problem='result is not a vector of the same dimension'))
                    continue
                if kind == 'as':
                    suffix = mname[3:]
                    if vr['name'].lower() != suffix:
                        ctx.violation('R-CONV', cfg, name, dict(where, problem='as_%s returns %s' % (suffix, vr['name'])))
                        continue
                ok, msg = check_uniform(views, lanes)
                if not ok:
                    ctx.violation('R-CONV', cfg, name, dict(where, problem='not lane-uniform: ' + msg))
                    continue
                src = views[0].elem
                dst = vr['elem']
                if views[0].kind == 'mask':
                    src = 'bool'
                    x = views[0].lanes[0]
                    # SIMD masks present lanes as canonical masks over a boolean atom
                    exp = tm.cast('IntToInt', 'bool', dst, x) if dst[0] in 'iu' else None
                    if exp is None:
                        # bool -> float goes through an integer (u8/u32) or `if b {1.0} else {0.0}`
                        exp_alt = [tm.cast('IntToFloat', w, dst, tm.cast('IntToInt', 'bool', w, x)) for w in ('u8', 'u32', 'i32', 'u64')]
                        one = tm.fconst(1.0, int(dst[1:]) // 8)
                        zero = tm.fconst(0.0, int(dst[1:]) // 8)
                        exp_alt.append(ite(x, one, zero))
                        def bits_select(t_):
                            # a bit pattern whose every bit is constant or the mask lane itself: (mask & 1.0) | (!mask & 0.0), i.e. select(mask, 1.0, 0.0)
                            if t_.op != 'bits' or len(t_.args) != 8 * tm.csize(one):
                                return False
                            v1 = 0
                            for i_, b_ in enumerate(t_.args):
                                if b_ is x or b_ is tm.TRUE:
                                    v1 |= 1 << i_
                                elif b_ is not tm.FALSE:
                                    return False
                            v0 = sum(1 << i_ for i_, b_ in enumerate(t_.args) if b_ is tm.TRUE)
                            return v1 == tm.cbits(one) and v0 == tm.cbits(zero)
                        if not any(lanes[0] is e_ for e_ in exp_alt) and not bits_select(lanes[0]):
                            ctx.violation('R-CONV', cfg, name, dict(where, problem='mask lane converts to %s, expected 1.0 / 0.0' % tm.show(lanes[0], 0, 5)[:200]))
                            continue
                        ctx.holds('R-CONV', cfg, name)
                        continue
                else:
                    exp = tm.cast(cast_kind(src, dst), src, dst, views[0].lanes[0])
                if lanes[0] is not exp:
                    ctx.violation('R-CONV', cfg, name, dict(where, problem='lane conversion is %s, expected %s' % (tm.show(lanes[0], 0, 5)[:200], tm.show(exp, 0, 5)[:200])))
                    continue
                if kind == 'from_num' and not lossless(src, dst):
                    ctx.violation('R-CONV', cfg, name, dict(where, problem='From impl for a lossy scalar pair %s -> %s' % (src, dst)))
                    continue
                ctx.holds('R-CONV', cfg, name, '%s -> %s' % (src, dst))
                if cnt[kind] % 120 == 3:
                    ctx.sample({'config': cfg, 'fn': name, 'lane0': tm.show(lanes[0], 0, 5)})
            elif kind == 'tryfrom':
                res = r.ret
                t = F.types[rty]
                okv = [v for v in t['variants']['vs'] if v['name'] == 'Ok'][0]
                errv = [v for v in t['variants']['vs'] if v['name'] == 'Err'][0]
                (poff, pty, _n) = okv['fields'][0]
                vr = vec_info(F, pty)
                d = res.discr.get((0, rty)) if not isinstance(res, tm.T) else None
                if vr is None or d is None or vr['dim'] != views[0].dim:
                    ctx.unverifiable('R-CONV', cfg, name, 'TryFrom result shape')
                    continue
                src, dst = views[0].elem, vr['elem']
                srn, drn = F.types[views[0].vi['elem_ty']]['n'], F.types[vr['elem_ty']]['n']
                errs = [mk('tryfrom_err', srn, drn, x) for x in views[0].lanes]
                exp_d = const(int(okv['discr']), 16)
                for e_ in reversed(errs):
                    exp_d = ite(e_, const(int(errv['discr']), 16), exp_d)
                if d is not exp_d:
                    ctx.violation('R-CONV', cfg, name, dict(where, problem='Ok/Err decision %s is not "Err iff some lane does not fit" %s' % (tm.show(d, 0, 6)[:240], tm.show(exp_d, 0, 6)[:240])))
                    continue
                bad = None
                for j, (off, sz) in enumerate(vr['lanes']):
                    c = res.cells.get(poff + off)
                    g = c[1] if c else None
                    errset = set(errs)
                    while g is not None and g.op == 'ite':
                        if g.args[0] in errset:
                            g = g.args[2]          # the value only matters on the all-lanes-fit path
                        elif g.args[1] is tm.UNINIT:
                            g = g.args[2]
                        elif g.args[2] is tm.UNINIT:
                            g = g.args[1]
                        else:
                            break
                    exp = tm.cast('IntToInt', src, dst, views[0].lanes[j])
                    if g is not exp:
                        bad = 'Ok payload lane %d is %s, expected %s' % (j, tm.show(g, 0, 5)[:160] if g is not None else None, tm.show(exp, 0, 5))
                        break
                if bad:
                    ctx.violation('R-CONV', cfg, name, dict(where, problem=bad))
                else:
                    ctx.holds('R-CONV', cfg, name, 'try_from %s -> %s all lanes' % (src, dst))
            else:
                # order-preserving bit copy
                src_atoms = []
                for i, aty in enumerate(argtys):
                    base, by_ref = strip_ref(F, aty)
                    for (o, s, lt) in ordered_visible_leaves(F, base):
                        src_atoms.append(atom_at(r, i, o, by_ref))
                dst = []
                for (o, s, lt) in ordered_visible_leaves(F, rty):
                    dst.append(cell_term(r.ret, o, s))
                prefix_ok = mname in ('truncate', 'from_vec4', 'to_vec3', 'to_vec3a') or (tr == 'From' and len(dst) < len(src_atoms))
                bad = None
                if len(dst) > len(src_atoms) or (len(dst) < len(src_atoms) and not prefix_ok) or not dst:
                    bad = 'element count: %d inputs, %d outputs' % (len(src_atoms), len(dst))
                else:
                    for j, g in enumerate(dst):
                        if g is None or src_atoms[j] is None or g is not src_atoms[j]:
                            bad = 'output element %d is %s, expected the bare input element %s' % (j, tm.show(g, 0, 4)[:160] if g is not None else None, tm.show(src_atoms[j]) if src_atoms[j] is not None else None)
                            break
                if bad:
                    ctx.violation('R-COPY', cfg, name, dict(where, problem=bad))
                else:
                    ctx.holds('R-COPY', cfg, name)
        for k, v in cnt.items():
            ctx.floor('%s conversions (%s)' % (k, cfg), v, FLOOR[k])
    ctx.extra['exhaustive'] = True
