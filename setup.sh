#!/bin/bash
# Builds the glam-facts rustc_private driver (zero dependencies, nightly toolchain, offline).
set -e
cd "$(dirname "$0")/engine/driver"
CARGO_NET_OFFLINE=true cargo +nightly build --offline --release 2>&1 | tail -3
test -x target/release/glam-facts
cp -f /repo/Cargo.lock "$(dirname "$0")/../../witness/Cargo.lock" 2>/dev/null || true
echo "setup ok"
