#!/usr/bin/env python3
"""Regenerates MANIFEST.json from the rule modules present in rules/ (single source of truth)."""
import importlib, json, os, sys
HERE = os.path.dirname(os.path.abspath(__file__))
sys.path.insert(0, os.path.join(HERE, 'engine', 'lane'))
sys.path.insert(0, os.path.join(HERE, 'rules'))
props = [json.loads(l) for l in open(os.path.join(HERE, 'properties.jsonl'))]
checks = []
na = []
NA_REASONS = {}
if os.path.exists(os.path.join(HERE, 'not_applicable.json')):
    NA_REASONS = json.load(open(os.path.join(HERE, 'not_applicable.json')))
for p in props:
    pid = p['id']
    if os.path.exists(os.path.join(HERE, 'rules', pid + '.py')):
        m = importlib.import_module(pid)
        checks.append({
            'property_id': pid,
            'quick_cmd': './check %s --tier quick' % pid,
            'thorough_cmd': './check %s --tier thorough' % pid,
            'evidence_file': 'evidence/%s.json' % pid,
            'replay_cmd_template': './check %s --replay {path}' % pid,
            'engine': 'glam-facts + lane',
            'level_claimed': {'category': m.LEVEL, 'text': m.EXPLANATION, 'design_ref': 'DESIGN.md section 4/%s (plan) and section 8 (as built)' % pid},
            'level_note': getattr(m, 'LEVEL_NOTE', 'Trusted: rustc front end/MIR/layout/const-eval; the intrinsic semantics table; the IEEE-exact rewrite set; see DESIGN 1.2.'),
            'technique': m.TECHNIQUE,
        })
    else:
        na.append({'property_id': pid, 'reason': NA_REASONS.get(pid, 'check not built yet in this round (static-analysis rule module pending); no claim is made')})
man = {
    'version': 1,
    'setup_cmd': './setup.sh',
    'hooks': {'guard': 'none', 'enable': 'no hooks: the analysis reads the unmodified source through a rustc_private driver (RUSTC_WORKSPACE_WRAPPER)',
              'baseline_off_cmd': 'cd /repo && cargo test --workspace --no-fail-fast --offline', 'source_commits': [], 'add_only': True},
    'engines': [
        {'name': 'glam-facts', 'path': 'engine/driver', 'serves_properties': [c['property_id'] for c in checks], 'kind_free_text': 'rustc_private driver: serialises resolved MIR, layouts, evaluated constants, resolved callees, impl table per cfg configuration'},
        {'name': 'lane', 'path': 'engine/lane', 'serves_properties': [c['property_id'] for c in checks], 'kind_free_text': 'abstract interpreter over MIR (cell memory, hash-consed terms, gated merges, leaf tables) + normal forms + rule runner'},
    ],
    'checks': checks,
    'not_applicable': na,
    'notes': 'Static analysis only: no glam function is executed, concretely or symbolically with a solver. VERIF_SEED is accepted and ignored.',
}
json.dump(man, open(os.path.join(HERE, 'MANIFEST.json'), 'w'), indent=1)
print('checks:', [c['property_id'] for c in checks], 'n/a:', [n['property_id'] for n in na])
