// glam-facts: rustc_private driver that serialises compiler facts (resolved MIR,
// layouts, evaluated constants, resolved callees, impl table) of the crate under
// analysis.  It contains no rule logic.  Used as RUSTC_WORKSPACE_WRAPPER.
#![feature(rustc_private)]
#![allow(rustc::internal)]

extern crate rustc_abi;
extern crate rustc_driver;
extern crate rustc_hir;
extern crate rustc_interface;
extern crate rustc_middle;
extern crate rustc_session;
extern crate rustc_span;

use std::collections::{HashMap, HashSet, VecDeque};
use std::fmt::Write as _;

use rustc_abi::{FieldsShape, TagEncoding, Variants, BackendRepr};
use rustc_driver::Compilation;
use rustc_hir::def::DefKind;
use rustc_hir::def_id::{DefId, LOCAL_CRATE};
use rustc_middle::mir::interpret::{GlobalAlloc, Scalar, AllocId};
use rustc_middle::mir::{
    self, AggregateKind, BinOp, Body, CastKind, ConstValue, NonDivergingIntrinsic, Operand, Place,
    ProjectionElem, Rvalue, StatementKind, TerminatorKind, UnOp,
};
use rustc_middle::ty::layout::{LayoutCx, TyAndLayout};
use rustc_middle::ty::print::with_no_trimmed_paths;
use rustc_middle::ty::{self, EarlyBinder, Instance, InstanceKind, Ty, TyCtxt, TypingEnv, TypeVisitableExt};

fn esc(s: &str) -> String {
    let mut o = String::with_capacity(s.len() + 2);
    o.push('"');
    for c in s.chars() {
        match c {
            '"' => o.push_str("\\\""),
            '\\' => o.push_str("\\\\"),
            '\n' => o.push_str("\\n"),
            '\t' => o.push_str("\\t"),
            '\r' => o.push_str("\\r"),
            c if (c as u32) < 0x20 => {
                let _ = write!(o, "\\u{:04x}", c as u32);
            }
            c => o.push(c),
        }
    }
    o.push('"');
    o
}

struct Cx<'tcx> {
    tcx: TyCtxt<'tcx>,
    types: HashMap<Ty<'tcx>, usize>,
    type_lines: Vec<String>,
    allocs: HashSet<AllocId>,
    alloc_lines: Vec<String>,
    bodies: Vec<String>,
    seen: HashMap<Instance<'tcx>, String>,
    queue: VecDeque<(Instance<'tcx>, usize)>,
    keys_used: HashMap<String, usize>,
    max_depth: usize,
}

fn crate_of(tcx: TyCtxt<'_>, d: DefId) -> String {
    tcx.crate_name(d.krate).to_string()
}

// Foreign callees we descend into (their MIR is dumped, instantiated).  Everything else
// foreign is a leaf or opaque for the analysis; the analysis' own tables decide.
fn descend_foreign(path: &str) -> bool {
    const ALLOW: &[&str] = &[
        "core::f32::", "core::f64::", "std::f32::", "std::f64::", "core::num::", "core::option::",
        "core::result::", "core::ptr::", "core::mem::", "core::convert::", "core::ops::",
        "core::cmp::", "core::array::", "core::slice::", "core::clone::", "core::default::",
        "core::core_simd::", "core::iter::", "core::bool::", "core::intrinsics::", "core::hint::",
        "core::ub_checks::", "core::marker::", "core::tuple::", "core::char::",
        "std::option::", "std::result::", "std::ptr::", "std::mem::", "std::convert::",
        "std::ops::", "std::cmp::", "std::array::", "std::slice::", "std::clone::",
        "std::default::", "std::simd::", "std::iter::", "std::intrinsics::", "std::hint::",
        "core::simd::", "std::num::", "std::marker::", "std::bool::",
    ];
    ALLOW.iter().any(|p| path.starts_with(p))
        || path.starts_with("<") // trait-impl paths like <f32 as core::ops::Add>::add
}

impl<'tcx> Cx<'tcx> {
    fn inst_key(&mut self, inst: Instance<'tcx>) -> String {
        if let Some(k) = self.seen.get(&inst) {
            return k.clone();
        }
        let tcx = self.tcx;
        let base = with_no_trimmed_paths!(tcx.def_path_str_with_args(inst.def_id(), inst.args));
        let tag = match inst.def {
            InstanceKind::Item(_) => "",
            InstanceKind::Intrinsic(_) => "intrinsic:",
            InstanceKind::ClosureOnceShim { .. } => "closure_once_shim:",
            InstanceKind::FnPtrShim(..) => "fnptr_shim:",
            InstanceKind::ReifyShim(..) => "reify_shim:",
            InstanceKind::Virtual(..) => "virtual:",
            InstanceKind::DropGlue(..) => "drop_glue:",
            InstanceKind::CloneShim(..) => "clone_shim:",
            _ => "shim:",
        };
        let mut key = format!("{}{}", tag, base);
        let n = self.keys_used.entry(key.clone()).or_insert(0);
        *n += 1;
        if *n > 1 {
            key = format!("{}#{}", key, n);
        }
        self.seen.insert(inst, key.clone());
        key
    }

    fn ty_id(&mut self, ty: Ty<'tcx>, env: TypingEnv<'tcx>) -> usize {
        if let Some(&i) = self.types.get(&ty) {
            return i;
        }
        let id = self.type_lines.len();
        self.types.insert(ty, id);
        self.type_lines.push(String::new());
        let line = self.describe_ty(ty, env);
        self.type_lines[id] = line;
        id
    }

    fn fields_json(&mut self, l: TyAndLayout<'tcx>, env: TypingEnv<'tcx>, names: Option<Vec<String>>) -> String {
        let cx = LayoutCx::new(self.tcx, env);
        let mut o = String::from("[");
        match &l.fields {
            FieldsShape::Arbitrary { .. } | FieldsShape::Union(_) => {
                let n = l.fields.count();
                for i in 0..n {
                    let f = l.field(&cx, i);
                    let off = l.fields.offset(i).bytes();
                    let fid = self.ty_id(f.ty, env);
                    if i > 0 {
                        o.push(',');
                    }
                    let nm = names.as_ref().and_then(|v| v.get(i)).cloned().unwrap_or_else(|| i.to_string());
                    let _ = write!(o, "[{},{},{}]", off, fid, esc(&nm));
                }
            }
            _ => {}
        }
        o.push(']');
        o
    }

    fn describe_ty(&mut self, ty: Ty<'tcx>, env: TypingEnv<'tcx>) -> String {
        let tcx = self.tcx;
        let name = with_no_trimmed_paths!(format!("{}", ty));
        let layout = tcx.layout_of(env.as_query_input(ty)).ok();
        let (sz, al) = match &layout {
            Some(l) if l.is_sized() => (l.size.bytes().to_string(), l.align.abi.bytes().to_string()),
            Some(l) => ("null".to_string(), l.align.abi.bytes().to_string()),
            None => ("null".to_string(), "null".to_string()),
        };
        let mut o = format!("{{\"n\":{},\"sz\":{},\"al\":{}", esc(&name), sz, al);
        if let Some(l) = &layout {
            if let BackendRepr::SimdVector { element, count } = l.backend_repr {
                let _ = write!(o, ",\"simd\":[{},{}]", element.size(&tcx).bytes(), count);
            }
        }
        match ty.kind() {
            ty::Int(_) | ty::Uint(_) => {
                let signed = matches!(ty.kind(), ty::Int(_));
                let _ = write!(o, ",\"k\":\"int\",\"signed\":{}", signed);
            }
            ty::Float(_) => o.push_str(",\"k\":\"float\""),
            ty::Bool => o.push_str(",\"k\":\"bool\""),
            ty::Char => o.push_str(",\"k\":\"char\""),
            ty::Never => o.push_str(",\"k\":\"never\""),
            ty::Str => o.push_str(",\"k\":\"str\""),
            ty::RawPtr(p, m) | ty::Ref(_, p, m) => {
                let pid = self.ty_id(*p, env);
                let fat = match p.kind() {
                    ty::Slice(_) => "\"slice\"",
                    ty::Str => "\"str\"",
                    ty::Dynamic(..) => "\"dyn\"",
                    _ => {
                        if layout.as_ref().map(|l| l.size.bytes() > tcx.data_layout.pointer_size().bytes()).unwrap_or(false) {
                            "\"other\""
                        } else {
                            "null"
                        }
                    }
                };
                let isref = matches!(ty.kind(), ty::Ref(..));
                let _ = write!(o, ",\"k\":\"ptr\",\"to\":{},\"fat\":{},\"mut\":{},\"ref\":{}", pid, fat, m.is_mut(), isref);
            }
            ty::FnPtr(..) => o.push_str(",\"k\":\"fnptr\""),
            ty::FnDef(d, a) => {
                let p = with_no_trimmed_paths!(tcx.def_path_str_with_args(*d, a));
                let _ = write!(o, ",\"k\":\"fndef\",\"fn\":{}", esc(&p));
            }
            ty::Array(e, _) => {
                let eid = self.ty_id(*e, env);
                let (stride, count) = match layout.as_ref().map(|l| &l.fields) {
                    Some(FieldsShape::Array { stride, count }) => (stride.bytes() as i64, *count as i64),
                    _ => (-1, -1),
                };
                let _ = write!(o, ",\"k\":\"array\",\"elem\":{},\"stride\":{},\"count\":{}", eid, stride, count);
            }
            ty::Slice(e) => {
                let eid = self.ty_id(*e, env);
                let stride = tcx.layout_of(env.as_query_input(*e)).map(|l| l.size.bytes() as i64).unwrap_or(-1);
                let _ = write!(o, ",\"k\":\"slice\",\"elem\":{},\"stride\":{}", eid, stride);
            }
            ty::Tuple(_) => {
                o.push_str(",\"k\":\"tuple\"");
                if let Some(l) = layout {
                    let f = self.fields_json(l, env, None);
                    let _ = write!(o, ",\"fields\":{}", f);
                }
            }
            ty::Closure(d, _) => {
                let p = with_no_trimmed_paths!(tcx.def_path_str(*d));
                let _ = write!(o, ",\"k\":\"closure\",\"def\":{}", esc(&p));
                if let Some(l) = layout {
                    let f = self.fields_json(l, env, None);
                    let _ = write!(o, ",\"fields\":{}", f);
                }
            }
            ty::Adt(def, _) => {
                let p = with_no_trimmed_paths!(tcx.def_path_str(def.did()));
                let kind = if def.is_union() { "union" } else if def.is_enum() { "enum" } else { "struct" };
                let r = def.repr();
                let _ = write!(
                    o,
                    ",\"k\":\"adt\",\"adt\":{},\"def\":{},\"crate\":{},\"repr\":{{\"c\":{},\"simd\":{},\"transparent\":{},\"packed\":{},\"align\":{}}}",
                    esc(kind),
                    esc(&p),
                    esc(&crate_of(tcx, def.did())),
                    r.c(),
                    r.simd(),
                    r.transparent(),
                    r.packed(),
                    r.align.map(|a| a.bytes()).unwrap_or(0)
                );
                if let Some(l) = layout {
                    let cx = LayoutCx::new(tcx, env);
                    if def.is_enum() {
                        o.push_str(",\"variants\":{");
                        match &l.variants {
                            Variants::Multiple { tag, tag_encoding, tag_field, .. } => {
                                let toff = l.fields.offset(tag_field.as_usize()).bytes();
                                let tsz = tag.size(&tcx).bytes();
                                let _ = write!(o, "\"tag\":[{},{}],", toff, tsz);
                                match tag_encoding {
                                    TagEncoding::Direct => o.push_str("\"enc\":\"direct\","),
                                    TagEncoding::Niche { untagged_variant, niche_variants, niche_start } => {
                                        let _ = write!(
                                            o,
                                            "\"enc\":\"niche\",\"untagged\":{},\"niche_variants\":[{},{}],\"niche_start\":\"{}\",",
                                            untagged_variant.as_usize(),
                                            niche_variants.start().as_usize(),
                                            niche_variants.end().as_usize(),
                                            niche_start
                                        );
                                    }
                                }
                            }
                            Variants::Single { index } => {
                                let _ = write!(o, "\"single\":{},", index.as_usize());
                            }
                            Variants::Empty => o.push_str("\"empty\":true,"),
                        }
                        o.push_str("\"vs\":[");
                        for (i, v) in def.variants().iter_enumerated() {
                            if i.as_usize() > 0 {
                                o.push(',');
                            }
                            let discr = ty.discriminant_for_variant(tcx, i).map(|d| d.val.to_string()).unwrap_or_else(|| i.as_usize().to_string());
                            let names: Vec<String> = v.fields.iter().map(|f| f.name.to_string()).collect();
                            let uninhabited = matches!(&l.variants, Variants::Single { index } if *index != i) || matches!(&l.variants, Variants::Empty);
                            let fj = if uninhabited {
                                "[]".to_string()
                            } else {
                                let vl = l.for_variant(&cx, i);
                                self.fields_json(vl, env, Some(names))
                            };
                            let _ = write!(o, "{{\"name\":{},\"discr\":\"{}\",\"fields\":{}}}", esc(v.name.as_str()), discr, fj);
                        }
                        o.push_str("]}");
                    } else {
                        let names: Vec<String> = def.non_enum_variant().fields.iter().map(|f| f.name.to_string()).collect();
                        let f = self.fields_json(l, env, Some(names));
                        let _ = write!(o, ",\"fields\":{}", f);
                        let vis: Vec<String> = def.non_enum_variant().fields.iter().map(|f| if f.vis.is_public() { "\"pub\"".to_string() } else { "\"restricted\"".to_string() }).collect();
                        let _ = write!(o, ",\"fvis\":[{}]", vis.join(","));
                    }
                }
            }
            ty::Param(_) => o.push_str(",\"k\":\"param\""),
            ty::Dynamic(..) => o.push_str(",\"k\":\"dyn\""),
            _ => o.push_str(",\"k\":\"other\""),
        }
        o.push('}');
        o
    }

    fn const_val(&mut self, cv: ConstValue, ty: Ty<'tcx>, env: TypingEnv<'tcx>, depth: usize) -> String {
        let tcx = self.tcx;
        let tid = self.ty_id(ty, env);
        match cv {
            ConstValue::Scalar(Scalar::Int(i)) => {
                format!("[\"int\",\"{}\",{},{}]", i.to_bits_unchecked(), i.size().bytes(), tid)
            }
            ConstValue::Scalar(Scalar::Ptr(p, _)) => {
                let (prov, off) = p.prov_and_relative_offset();
                let aid = prov.alloc_id();
                self.alloc(aid);
                format!("[\"ptr\",{},{},{}]", aid.0, off.bytes(), tid)
            }
            ConstValue::ZeroSized => {
                if let ty::FnDef(d, a) = ty.kind() {
                    let r = Instance::try_resolve(tcx, env, *d, a);
                    match r {
                        Ok(Some(inst)) => {
                            let c = self.callee_json(inst, depth);
                            format!("[\"fn\",{},{}]", c, tid)
                        }
                        _ => {
                            let p = with_no_trimmed_paths!(tcx.def_path_str_with_args(*d, a));
                            format!("[\"fn\",{{\"k\":{},\"d\":{},\"kind\":\"unresolved\",\"cg\":[],\"tg\":[],\"local\":false,\"body\":false}},{}]", esc(&p), esc(&with_no_trimmed_paths!(tcx.def_path_str(*d))), tid)
                        }
                    }
                } else {
                    format!("[\"zst\",{}]", tid)
                }
            }
            ConstValue::Slice { alloc_id, meta } => {
                self.alloc(alloc_id);
                format!("[\"slice\",{},{},{}]", alloc_id.0, meta, tid)
            }
            ConstValue::Indirect { alloc_id, offset } => {
                self.alloc(alloc_id);
                format!("[\"mem\",{},{},{}]", alloc_id.0, offset.bytes(), tid)
            }
        }
    }


    fn alloc(&mut self, id: AllocId) {
        if !self.allocs.insert(id) {
            return;
        }
        let tcx = self.tcx;
        let line = match tcx.try_get_global_alloc(id) {
            Some(GlobalAlloc::Memory(a)) => {
                let a = a.inner();
                let n = a.len();
                let bytes = a.inspect_with_uninit_and_ptr_outside_interpreter(0..n);
                let mut hex = String::with_capacity(2 * n);
                for b in bytes {
                    let _ = write!(hex, "{:02x}", b);
                }
                let mut rel = String::from("[");
                let mut first = true;
                let ptrs: Vec<(u64, AllocId)> = a.provenance().ptrs().iter().map(|(o, p)| (o.bytes(), p.alloc_id())).collect();
                for (off, aid) in &ptrs {
                    if !first {
                        rel.push(',');
                    }
                    first = false;
                    let _ = write!(rel, "[{},{}]", off, aid.0);
                }
                rel.push(']');
                let s = format!("{{\"k\":\"mem\",\"bytes\":\"{}\",\"rel\":{},\"align\":{}}}", hex, rel, a.align.bytes());
                for (_, aid) in ptrs {
                    self.alloc(aid);
                }
                s
            }
            Some(GlobalAlloc::Function { instance }) => {
                let k = self.callee_json(instance, 0);
                format!("{{\"k\":\"fn\",\"fn\":{}}}", k)
            }
            Some(GlobalAlloc::Static(d)) => {
                let p = with_no_trimmed_paths!(tcx.def_path_str(d));
                format!("{{\"k\":\"static\",\"def\":{}}}", esc(&p))
            }
            _ => "{\"k\":\"other\"}".to_string(),
        };
        self.alloc_lines.push(format!("A\t{}\t{}", id.0, line));
    }

    fn callee_json(&mut self, inst: Instance<'tcx>, depth: usize) -> String {
        let tcx = self.tcx;
        let did = inst.def_id();
        let key = self.inst_key(inst);
        let d = with_no_trimmed_paths!(tcx.def_path_str(did));
        let kind = match inst.def {
            InstanceKind::Item(_) => "item",
            InstanceKind::Intrinsic(_) => "intrinsic",
            InstanceKind::Virtual(..) => "virtual",
            InstanceKind::ClosureOnceShim { .. } => "closure_once_shim",
            InstanceKind::FnPtrShim(..) => "fnptr_shim",
            InstanceKind::ReifyShim(..) => "reify_shim",
            InstanceKind::DropGlue(..) => "drop_glue",
            InstanceKind::CloneShim(..) => "clone_shim",
            _ => "shim",
        };
        let local = did.krate == LOCAL_CRATE;
        // generic args: consts evaluated, types named
        let mut cg = String::from("[");
        let mut tg = String::from("[");
        let (mut fc, mut ft) = (true, true);
        for a in inst.args.iter() {
            if let Some(c) = a.as_const() {
                if !fc {
                    cg.push(',');
                }
                fc = false;
                match c.try_to_leaf() {
                    Some(si) => {
                        let _ = write!(cg, "\"{}\"", si.to_bits_unchecked());
                    }
                    None => {
                        // array / valtree consts (e.g. swizzle index arrays)
                        let s = with_no_trimmed_paths!(format!("{}", c));
                        cg.push_str(&esc(&s));
                    }
                }
            } else if let Some(t) = a.as_type() {
                if !ft {
                    tg.push(',');
                }
                ft = false;
                let s = with_no_trimmed_paths!(format!("{}", t));
                tg.push_str(&esc(&s));
            }
        }
        cg.push(']');
        tg.push(']');
        let is_item = matches!(inst.def, InstanceKind::Item(_) | InstanceKind::ClosureOnceShim { .. } | InstanceKind::FnPtrShim(..) | InstanceKind::CloneShim(..) | InstanceKind::ReifyShim(..));
        let has_mir = match inst.def {
            InstanceKind::Item(d) => tcx.is_mir_available(d) && !tcx.is_foreign_item(d),
            InstanceKind::Intrinsic(_) | InstanceKind::Virtual(..) => false,
            _ => true,
        };
        let want = is_item && has_mir && (local || (descend_foreign(&d) && depth < self.max_depth));
        let mono = !inst.args.iter().any(|a| a.as_type().map(|t| t.has_non_region_param()).unwrap_or(false) || a.as_const().map(|c| c.has_non_region_param()).unwrap_or(false));
        let mut dumped = false;
        if want && mono {
            dumped = true;
            self.queue.push_back((inst, if local { 0 } else { depth + 1 }));
        }
        // trait / impl info for the callee
        let mut extra = String::new();
        if let Some(assoc) = tcx.opt_associated_item(did) {
            if let Some(tr) = assoc.trait_container(tcx) {
                let _ = write!(extra, ",\"trait\":{}", esc(&with_no_trimmed_paths!(tcx.def_path_str(tr))));
            } else if let Some(imp) = assoc.impl_container(tcx) {
                if let Some(trf) = tcx.impl_opt_trait_ref(imp) {
                    let trf = trf.instantiate_identity().skip_norm_wip();
                    let _ = write!(extra, ",\"trait\":{}", esc(&with_no_trimmed_paths!(tcx.def_path_str(trf.def_id))));
                }
            }
        }
        format!(
            "{{\"k\":{},\"d\":{},\"kind\":\"{}\",\"cg\":{},\"tg\":{},\"local\":{},\"body\":{},\"crate\":{}{}}}",
            esc(&key), esc(&d), kind, cg, tg, local, dumped, esc(&crate_of(tcx, did)), extra
        )
    }
}

struct BodyCx<'a, 'tcx> {
    cx: &'a mut Cx<'tcx>,
    inst: Instance<'tcx>,
    env: TypingEnv<'tcx>,
    body: &'tcx Body<'tcx>,
    depth: usize,
    generic: bool,
}

impl<'a, 'tcx> BodyCx<'a, 'tcx> {
    fn mono<T: ty::TypeFoldable<TyCtxt<'tcx>> + Copy>(&self, v: T) -> Option<T> {
        self.inst.try_instantiate_mir_and_normalize_erasing_regions(self.cx.tcx, self.env, EarlyBinder::bind(v)).ok()
    }
    fn tid(&mut self, t: Ty<'tcx>) -> usize {
        let t = self.mono(t).unwrap_or(t);
        self.cx.ty_id(t, self.env)
    }
    fn layout(&self, t: Ty<'tcx>) -> Option<TyAndLayout<'tcx>> {
        self.cx.tcx.layout_of(self.env.as_query_input(t)).ok()
    }
    fn size_of(&self, t: Ty<'tcx>) -> i64 {
        match self.layout(t) {
            Some(l) if l.is_sized() => l.size.bytes() as i64,
            _ => -1,
        }
    }

    fn place(&mut self, p: &Place<'tcx>) -> String {
        let tcx = self.cx.tcx;
        let mut o = format!("[{},[", p.local.as_usize());
        let lt = self.body.local_decls[p.local].ty;
        let lt = self.mono(lt).unwrap_or(lt);
        let mut pty = mir::PlaceTy::from_ty(lt);
        let mut first = true;
        for elem in p.projection.iter() {
            if !first {
                o.push(',');
            }
            first = false;
            let elem_m = self.mono(elem).unwrap_or(elem);
            match elem_m {
                ProjectionElem::Deref => o.push_str("[\"d\"]"),
                ProjectionElem::Field(f, fty) => {
                    let off = match self.layout(pty.ty) {
                        Some(l) => {
                            let cxl = LayoutCx::new(tcx, self.env);
                            let l = match pty.variant_index {
                                Some(v) => l.for_variant(&cxl, v),
                                None => l,
                            };
                            if f.as_usize() < l.fields.count() { l.fields.offset(f.as_usize()).bytes() as i64 } else { -1 }
                        }
                        None => -1,
                    };
                    let fid = self.tid(fty);
                    let _ = write!(o, "[\"f\",{},{},{}]", off, fid, f.as_usize());
                }
                ProjectionElem::Index(l) => {
                    let et = pty.ty.builtin_index();
                    let stride = et.map(|t| self.size_of(t)).unwrap_or(-1);
                    let _ = write!(o, "[\"i\",{},{}]", l.as_usize(), stride);
                }
                ProjectionElem::ConstantIndex { offset, min_length, from_end } => {
                    let et = pty.ty.builtin_index();
                    let stride = et.map(|t| self.size_of(t)).unwrap_or(-1);
                    let _ = write!(o, "[\"ci\",{},{},{},{}]", offset, min_length, from_end, stride);
                }
                ProjectionElem::Subslice { from, to, from_end } => {
                    let et = pty.ty.builtin_index();
                    let stride = et.map(|t| self.size_of(t)).unwrap_or(-1);
                    let _ = write!(o, "[\"sub\",{},{},{},{}]", from, to, from_end, stride);
                }
                ProjectionElem::Downcast(_, v) => {
                    let _ = write!(o, "[\"dc\",{}]", v.as_usize());
                }
                ProjectionElem::OpaqueCast(_) | ProjectionElem::UnwrapUnsafeBinder(_) => o.push_str("[\"unk\"]"),
            }
            pty = pty.projection_ty(tcx, elem_m);
        }
        let tid = self.cx.ty_id(pty.ty, self.env);
        let _ = write!(o, "],{}]", tid);
        o
    }

    fn const_val(&mut self, cv: ConstValue, ty: Ty<'tcx>) -> String {
        let (env, depth) = (self.env, self.depth);
        self.cx.const_val(cv, ty, env, depth)
    }

    fn operand(&mut self, op: &Operand<'tcx>) -> String {
        match op {
            Operand::Copy(p) => format!("[\"c\",{}]", self.place(p)),
            Operand::Move(p) => format!("[\"m\",{}]", self.place(p)),
            Operand::Constant(c) => {
                let k = match self.mono(c.const_) {
                    Some(k) => k,
                    None => return format!("[\"k\",[\"err\",\"normalize\"]]"),
                };
                let ty = k.ty();
                match k.eval(self.cx.tcx, self.env, c.span) {
                    Ok(v) => format!("[\"k\",{}]", self.const_val(v, ty)),
                    Err(_) => {
                        let tid = self.cx.ty_id(ty, self.env);
                        let s = with_no_trimmed_paths!(format!("{}", k));
                        format!("[\"k\",[\"err\",{},{}]]", esc(&s), tid)
                    }
                }
            }
            Operand::RuntimeChecks(rc) => {
                let v = rc.value(self.cx.tcx.sess);
                format!("[\"k\",[\"int\",\"{}\",1,{}]]", v as u8, self.cx.ty_id(self.cx.tcx.types.bool, self.env))
            }
        }
    }

    fn rvalue(&mut self, rv: &Rvalue<'tcx>) -> String {
        let tcx = self.cx.tcx;
        match rv {
            Rvalue::Use(op, _) => format!("[\"use\",{}]", self.operand(op)),
            Rvalue::Repeat(op, n) => {
                let n = self.mono(*n).and_then(|c| c.try_to_target_usize(tcx)).map(|v| v as i64).unwrap_or(-1);
                format!("[\"rep\",{},{}]", self.operand(op), n)
            }
            Rvalue::Ref(_, bk, p) => format!("[\"ref\",{},{}]", self.place(p), matches!(bk, mir::BorrowKind::Mut { .. })),
            Rvalue::RawPtr(k, p) => format!("[\"ref\",{},{}]", self.place(p), matches!(k, mir::RawPtrKind::Mut)),
            Rvalue::Cast(kind, op, ty) => {
                let k = match kind {
                    CastKind::IntToInt => "IntToInt".to_string(),
                    CastKind::FloatToInt => "FloatToInt".to_string(),
                    CastKind::FloatToFloat => "FloatToFloat".to_string(),
                    CastKind::IntToFloat => "IntToFloat".to_string(),
                    CastKind::PtrToPtr => "PtrToPtr".to_string(),
                    CastKind::FnPtrToPtr => "FnPtrToPtr".to_string(),
                    CastKind::Transmute => "Transmute".to_string(),
                    CastKind::Subtype => "Subtype".to_string(),
                    CastKind::PointerExposeProvenance => "PtrExpose".to_string(),
                    CastKind::PointerWithExposedProvenance => "PtrFromExposed".to_string(),
                    CastKind::PointerCoercion(pc, _) => format!("Coerce:{:?}", pc),
                };
                let from = op.ty(self.body, tcx);
                let fid = self.tid(from);
                let tid = self.tid(*ty);
                format!("[\"cast\",{},{},{},{}]", esc(&k), self.operand(op), tid, fid)
            }
            Rvalue::BinaryOp(op, ab) => {
                let name = match op {
                    BinOp::Add => "Add", BinOp::AddUnchecked => "AddUnchecked", BinOp::AddWithOverflow => "AddWithOverflow",
                    BinOp::Sub => "Sub", BinOp::SubUnchecked => "SubUnchecked", BinOp::SubWithOverflow => "SubWithOverflow",
                    BinOp::Mul => "Mul", BinOp::MulUnchecked => "MulUnchecked", BinOp::MulWithOverflow => "MulWithOverflow",
                    BinOp::Div => "Div", BinOp::Rem => "Rem", BinOp::BitXor => "BitXor", BinOp::BitAnd => "BitAnd",
                    BinOp::BitOr => "BitOr", BinOp::Shl => "Shl", BinOp::ShlUnchecked => "ShlUnchecked",
                    BinOp::Shr => "Shr", BinOp::ShrUnchecked => "ShrUnchecked", BinOp::Eq => "Eq", BinOp::Lt => "Lt",
                    BinOp::Le => "Le", BinOp::Ne => "Ne", BinOp::Ge => "Ge", BinOp::Gt => "Gt", BinOp::Cmp => "Cmp",
                    BinOp::Offset => "Offset",
                };
                let aty = ab.0.ty(self.body, tcx);
                let bty = ab.1.ty(self.body, tcx);
                let (a_id, b_id) = (self.tid(aty), self.tid(bty));
                format!("[\"bin\",\"{}\",{},{},{},{}]", name, self.operand(&ab.0), self.operand(&ab.1), a_id, b_id)
            }
            Rvalue::UnaryOp(op, a) => {
                let name = match op {
                    UnOp::Not => "Not",
                    UnOp::Neg => "Neg",
                    UnOp::PtrMetadata => "PtrMetadata",
                };
                let aty = a.ty(self.body, tcx);
                let a_id = self.tid(aty);
                format!("[\"un\",\"{}\",{},{}]", name, self.operand(a), a_id)
            }
            Rvalue::Discriminant(p) => format!("[\"disc\",{}]", self.place(p)),
            Rvalue::Aggregate(kind, ops) => {
                let rty = rv.ty(self.body, tcx);
                let tid = self.tid(rty);
                let (k, variant, active) = match &**kind {
                    AggregateKind::Array(_) => ("array", 0usize, -1i64),
                    AggregateKind::Tuple => ("tuple", 0, -1),
                    AggregateKind::Adt(_, v, _, _, af) => ("adt", v.as_usize(), af.map(|f| f.as_usize() as i64).unwrap_or(-1)),
                    AggregateKind::Closure(..) => ("closure", 0, -1),
                    AggregateKind::RawPtr(..) => ("rawptr", 0, -1),
                    _ => ("other", 0, -1),
                };
                let mut o = format!("[\"agg\",\"{}\",{},{},{},[", k, tid, variant, active);
                for (i, op) in ops.iter().enumerate() {
                    if i > 0 {
                        o.push(',');
                    }
                    o.push_str(&self.operand(op));
                }
                o.push_str("]]");
                o
            }
            Rvalue::CopyForDeref(p) => format!("[\"use\",[\"c\",{}]]", self.place(p)),
            _ => format!("[\"unk\",{}]", esc(&format!("{:?}", rv))),
        }
    }

    fn line_of(&self, span: rustc_span::Span) -> (String, usize) {
        let sm = self.cx.tcx.sess.source_map();
        let lo = sm.lookup_char_pos(span.lo());
        let f = match &lo.file.name {
            rustc_span::FileName::Real(r) => r.local_path().map(|p| p.display().to_string()).unwrap_or_else(|| format!("{:?}", lo.file.name)),
            n => format!("{:?}", n),
        };
        (f, lo.line)
    }

    fn run(&mut self, key: &str) -> String {
        let tcx = self.cx.tcx;
        let body = self.body;
        let did = self.inst.def_id();
        let (file, line) = self.line_of(body.span);
        let d = with_no_trimmed_paths!(tcx.def_path_str(did));
        let mut o = format!(
            "{{\"key\":{},\"d\":{},\"crate\":{},\"file\":{},\"line\":{},\"argc\":{},\"generic\":{},\"locals\":[",
            esc(key), esc(&d), esc(&crate_of(tcx, did)), esc(&file), line, body.arg_count, self.generic
        );
        for (i, l) in body.local_decls.iter().enumerate() {
            if i > 0 {
                o.push(',');
            }
            let t = self.tid(l.ty);
            let _ = write!(o, "{}", t);
        }
        o.push_str("],\"spread\":");
        match body.spread_arg {
            Some(l) => {
                let _ = write!(o, "{}", l.as_usize());
            }
            None => o.push_str("null"),
        }
        o.push_str(",\"blocks\":[");
        for (bi, bb) in body.basic_blocks.iter_enumerated() {
            if bi.as_usize() > 0 {
                o.push(',');
            }
            if bb.is_cleanup {
                o.push_str("null");
                continue;
            }
            o.push_str("{\"s\":[");
            let mut first = true;
            for st in &bb.statements {
                let s = match &st.kind {
                    StatementKind::Assign(b) => {
                        let (p, rv) = &**b;
                        let (_, ln) = self.line_of(st.source_info.span);
                        Some(format!("[\"a\",{},{},{}]", self.place(p), self.rvalue(rv), ln))
                    }
                    StatementKind::SetDiscriminant { place, variant_index } => Some(format!("[\"sd\",{},{}]", self.place(place), variant_index.as_usize())),
                    StatementKind::Intrinsic(i) => match &**i {
                        NonDivergingIntrinsic::Assume(op) => Some(format!("[\"assume\",{}]", self.operand(op))),
                        NonDivergingIntrinsic::CopyNonOverlapping(c) => {
                            let pt = c.src.ty(body, tcx).builtin_deref(true);
                            let esz = pt.map(|t| self.mono(t).unwrap_or(t)).map(|t| self.size_of(t)).unwrap_or(-1);
                            Some(format!("[\"cp\",{},{},{},{}]", self.operand(&c.src), self.operand(&c.dst), self.operand(&c.count), esz))
                        }
                    },
                    _ => None,
                };
                if let Some(s) = s {
                    if !first {
                        o.push(',');
                    }
                    first = false;
                    o.push_str(&s);
                }
            }
            o.push_str("],\"t\":");
            let term = bb.terminator();
            let (_, tline) = self.line_of(term.source_info.span);
            let t = match &term.kind {
                TerminatorKind::Goto { target } => format!("[\"goto\",{}]", target.as_usize()),
                TerminatorKind::SwitchInt { discr, targets } => {
                    let dty = discr.ty(body, tcx);
                    let tid = self.tid(dty);
                    let mut s = format!("[\"sw\",{},[", self.operand(discr));
                    for (i, (v, t)) in targets.iter().enumerate() {
                        if i > 0 {
                            s.push(',');
                        }
                        let _ = write!(s, "[\"{}\",{}]", v, t.as_usize());
                    }
                    let _ = write!(s, "],{},{}]", targets.otherwise().as_usize(), tid);
                    s
                }
                TerminatorKind::Return => "[\"ret\"]".to_string(),
                TerminatorKind::Unreachable => "[\"unr\"]".to_string(),
                TerminatorKind::Drop { target, .. } => format!("[\"goto\",{}]", target.as_usize()),
                TerminatorKind::FalseEdge { real_target, .. } => format!("[\"goto\",{}]", real_target.as_usize()),
                TerminatorKind::FalseUnwind { real_target, .. } => format!("[\"goto\",{}]", real_target.as_usize()),
                TerminatorKind::Assert { cond, expected, msg, target, .. } => {
                    let kind = match &**msg {
                        mir::AssertKind::BoundsCheck { .. } => "bounds",
                        mir::AssertKind::Overflow(..) => "overflow",
                        mir::AssertKind::OverflowNeg(_) => "overflow_neg",
                        mir::AssertKind::DivisionByZero(_) => "div_zero",
                        mir::AssertKind::RemainderByZero(_) => "rem_zero",
                        mir::AssertKind::MisalignedPointerDereference { .. } => "misaligned",
                        mir::AssertKind::NullPointerDereference => "null_deref",
                        _ => "other",
                    };
                    let detail = match &**msg {
                        mir::AssertKind::Overflow(op, _, _) => format!("{:?}", op),
                        mir::AssertKind::BoundsCheck { len, index } => format!("[{},{}]", self.operand(len), self.operand(index)),
                        _ => String::new(),
                    };
                    let dj = if detail.starts_with('[') { detail } else { esc(&detail) };
                    format!("[\"assert\",{},{},\"{}\",{},{},{}]", self.operand(cond), expected, kind, target.as_usize(), dj, tline)
                }
                TerminatorKind::Call { func, args, destination, target, .. } => {
                    let fty = func.ty(body, tcx);
                    let fty = self.mono(fty).unwrap_or(fty);
                    let callee = match fty.kind() {
                        ty::FnDef(d, a) => match Instance::try_resolve(tcx, self.env, *d, a) {
                            Ok(Some(inst)) => self.cx.callee_json(inst, self.depth),
                            _ => {
                                let p = with_no_trimmed_paths!(tcx.def_path_str_with_args(*d, a));
                                let dd = with_no_trimmed_paths!(tcx.def_path_str(*d));
                                let mut extra = String::new();
                                if let Some(assoc) = tcx.opt_associated_item(*d) {
                                    if let Some(tr) = assoc.trait_container(tcx) {
                                        let _ = write!(extra, ",\"trait\":{}", esc(&with_no_trimmed_paths!(tcx.def_path_str(tr))));
                                    }
                                }
                                format!("{{\"k\":{},\"d\":{},\"kind\":\"unresolved\",\"cg\":[],\"tg\":[],\"local\":false,\"body\":false{}}}", esc(&p), esc(&dd), extra)
                            }
                        },
                        _ => format!("{{\"ptr\":{}}}", self.operand(func)),
                    };
                    let mut s = format!("[\"call\",{},[", callee);
                    for (i, a) in args.iter().enumerate() {
                        if i > 0 {
                            s.push(',');
                        }
                        s.push_str(&self.operand(&a.node));
                    }
                    let tgt = target.map(|t| t.as_usize().to_string()).unwrap_or_else(|| "null".to_string());
                    let _ = write!(s, "],{},{},{}]", self.place(destination), tgt, tline);
                    s
                }
                other => format!("[\"unk\",{}]", esc(&format!("{:?}", other))),
            };
            o.push_str(&t);
            o.push('}');
        }
        o.push_str("]}");
        o
    }
}

fn collect<'tcx>(tcx: TyCtxt<'tcx>, out_path: &str) {
    let max_depth: usize = std::env::var("GLAM_FACTS_DEPTH").ok().and_then(|s| s.parse().ok()).unwrap_or(8);
    let mut cx = Cx {
        tcx,
        types: HashMap::new(),
        type_lines: Vec::new(),
        allocs: HashSet::new(),
        alloc_lines: Vec::new(),
        bodies: Vec::new(),
        seen: HashMap::new(),
        queue: VecDeque::new(),
        keys_used: HashMap::new(),
        max_depth,
    };
    let mut items: Vec<String> = Vec::new();
    let mut generic_roots: Vec<DefId> = Vec::new();
    let mut closure_roots: Vec<DefId> = Vec::new();
    let mono_env = TypingEnv::fully_monomorphized();

    for ldid in tcx.mir_keys(()).iter() {
        let did = ldid.to_def_id();
        let kind = tcx.def_kind(did);
        if matches!(kind, DefKind::Closure) {
            // closures of generic functions are never reached through a monomorphic instance: dump them generically
            let root = tcx.typeck_root_def_id(did);
            if tcx.generics_of(root).requires_monomorphization(tcx) {
                closure_roots.push(did);
            }
            continue;
        }
        if !matches!(kind, DefKind::Fn | DefKind::AssocFn) {
            continue;
        }
        let generic = tcx.generics_of(did).requires_monomorphization(tcx);
        let path = with_no_trimmed_paths!(tcx.def_path_str(did));
        let vis = tcx.visibility(did);
        let vis_s = if vis.is_public() { "pub" } else { "restricted" };
        // effective visibility (reachable from outside the crate)
        let eff = tcx.effective_visibilities(()).is_reachable(*ldid);
        let sm = tcx.sess.source_map();
        let sp = tcx.def_span(did);
        let lo = sm.lookup_char_pos(sp.lo());
        let file = match &lo.file.name {
            rustc_span::FileName::Real(r) => r.local_path().map(|p| p.display().to_string()).unwrap_or_default(),
            n => format!("{:?}", n),
        };
        let mut o = format!(
            "{{\"d\":{},\"vis\":\"{}\",\"reachable\":{},\"generic\":{},\"file\":{},\"line\":{},\"kind\":\"{:?}\"",
            esc(&path), vis_s, eff, generic, esc(&file), lo.line, kind
        );
        // impl info
        if let Some(assoc) = tcx.opt_associated_item(did) {
            let _ = write!(o, ",\"name\":{}", esc(assoc.name().as_str()));
            if let Some(imp) = assoc.impl_container(tcx) {
                let self_ty = tcx.type_of(imp).instantiate_identity().skip_norm_wip();
                let _ = write!(o, ",\"self_ty\":{}", esc(&with_no_trimmed_paths!(format!("{}", self_ty))));
                if let Some(trf) = tcx.impl_opt_trait_ref(imp) {
                    let trf = trf.instantiate_identity().skip_norm_wip();
                    let _ = write!(
                        o,
                        ",\"trait\":{},\"trait_ref\":{}",
                        esc(&with_no_trimmed_paths!(tcx.def_path_str(trf.def_id))),
                        esc(&with_no_trimmed_paths!(format!("{}", trf)))
                    );
                }
            } else if let Some(tr) = assoc.trait_container(tcx) {
                let _ = write!(o, ",\"in_trait\":{}", esc(&with_no_trimmed_paths!(tcx.def_path_str(tr))));
            }
        } else {
            let _ = write!(o, ",\"name\":{}", esc(tcx.item_name(did).as_str()));
        }
        // signature
        let sig = tcx.fn_sig(did).instantiate_identity().skip_norm_wip();
        let sig = tcx.instantiate_bound_regions_with_erased(sig);
        let env = if generic { TypingEnv::post_analysis(tcx, did) } else { mono_env };
        o.push_str(",\"inputs\":[");
        for (i, t) in sig.inputs().iter().enumerate() {
            if i > 0 {
                o.push(',');
            }
            let t = tcx.try_normalize_erasing_regions(env, rustc_middle::ty::Unnormalized::new_wip(*t)).unwrap_or(*t);
            let _ = write!(o, "{}", cx.ty_id(t, env));
        }
        let ot = sig.output();
        let ot = tcx.try_normalize_erasing_regions(env, rustc_middle::ty::Unnormalized::new_wip(ot)).unwrap_or(ot);
        let _ = write!(o, "],\"output\":{}", cx.ty_id(ot, env));
        let is_const = tcx.is_const_fn(did);
        let _ = write!(o, ",\"const\":{},\"unsafe\":{}", is_const, sig.safety().is_unsafe());
        if !generic {
            let inst = Instance::mono(tcx, did);
            let key = cx.inst_key(inst);
            let _ = write!(o, ",\"key\":{}", esc(&key));
            cx.queue.push_back((inst, 0));
        } else {
            generic_roots.push(did);
            let _ = write!(o, ",\"key\":{}", esc(&format!("generic:{}", path)));
        }
        o.push('}');
        items.push(format!("I\t{}\t{}", path, o));
    }

    // associated constants of local inherent impls (ZERO, ONE, X, AXES, IDENTITY, ...)
    let mut konsts: Vec<String> = Vec::new();
    for ldid in tcx.hir_crate_items(()).definitions() {
        let did = ldid.to_def_id();
        if !matches!(tcx.def_kind(did), DefKind::AssocConst { .. }) {
            continue;
        }
        if tcx.generics_of(did).requires_monomorphization(tcx) {
            continue;
        }
        let Some(assoc) = tcx.opt_associated_item(did) else { continue };
        let Some(imp) = assoc.impl_container(tcx) else { continue };
        if tcx.impl_opt_trait_ref(imp).is_some() {
            continue;
        }
        let self_ty = tcx.type_of(imp).instantiate_identity().skip_norm_wip();
        let ty = tcx.type_of(did).instantiate_identity().skip_norm_wip();
        if let Ok(cv) = tcx.const_eval_poly(did) {
            let v = cx.const_val(cv, ty, mono_env, 0);
            let path = with_no_trimmed_paths!(tcx.def_path_str(did));
            konsts.push(format!(
                "K\t{}\t{{\"name\":{},\"self_ty\":{},\"v\":{}}}",
                path,
                esc(assoc.name().as_str()),
                esc(&with_no_trimmed_paths!(format!("{}", self_ty))),
                v
            ));
        }
    }

    let mut done: HashSet<Instance<'tcx>> = HashSet::new();
    while let Some((inst, depth)) = cx.queue.pop_front() {
        if !done.insert(inst) {
            continue;
        }
        let key = cx.inst_key(inst);
        let body = tcx.instance_mir(inst.def);
        let mut b = BodyCx { cx: &mut cx, inst, env: mono_env, body, depth, generic: false };
        let s = b.run(&key);
        cx.bodies.push(format!("B\t{}\t{}", key, s));
    }
    // generic roots: identity args, post-analysis env; callees resolved where possible
    generic_roots.extend(closure_roots.iter().copied());
    for did in generic_roots {
        let path = with_no_trimmed_paths!(tcx.def_path_str(did));
        let key = format!("generic:{}", path);
        let args = ty::GenericArgs::identity_for_item(tcx, did);
        let inst = Instance::new_raw(did, args);
        let env = TypingEnv::post_analysis(tcx, did);
        let body = tcx.optimized_mir(did);
        let mut b = BodyCx { cx: &mut cx, inst, env, body, depth: 0, generic: true };
        let s = b.run(&key);
        cx.bodies.push(format!("B\t{}\t{}", key, s));
        // instances discovered from the generic root
        while let Some((inst, depth)) = cx.queue.pop_front() {
            if !done.insert(inst) {
                continue;
            }
            let key = cx.inst_key(inst);
            let body = tcx.instance_mir(inst.def);
            let mut b = BodyCx { cx: &mut cx, inst, env: mono_env, body, depth, generic: false };
            let s = b.run(&key);
            cx.bodies.push(format!("B\t{}\t{}", key, s));
        }
    }

    // impl table (trait impls of the local crate)
    let mut impls: Vec<String> = Vec::new();
    for (tr, imps) in tcx.all_local_trait_impls(()).iter() {
        let trn = with_no_trimmed_paths!(tcx.def_path_str(*tr));
        for imp in imps {
            let did = imp.to_def_id();
            let self_ty = tcx.type_of(did).instantiate_identity().skip_norm_wip();
            let trf = tcx.impl_trait_ref(did).instantiate_identity().skip_norm_wip();
            let generic = tcx.generics_of(did).requires_monomorphization(tcx);
            let tid = if generic { -1i64 } else { cx.ty_id(self_ty, mono_env) as i64 };
            let unsafety = tcx.impl_trait_header(did).safety.is_unsafe();
            impls.push(format!(
                "M\t{}\t{{\"trait\":{},\"self\":{},\"self_ty\":{},\"trait_ref\":{},\"unsafe\":{}}}",
                trn,
                esc(&trn),
                esc(&with_no_trimmed_paths!(format!("{}", self_ty))),
                tid,
                esc(&with_no_trimmed_paths!(format!("{}", trf))),
                unsafety
            ));
        }
    }

    let mut out = String::new();
    let tgt = tcx.sess.opts.target_triple.tuple().to_string();
    let feats: Vec<String> = tcx.sess.config.iter().map(|(a, b)| format!("{}={}", a, b.map(|s| s.to_string()).unwrap_or_default())).collect();
    let _ = writeln!(
        out,
        "H\t\t{{\"crate\":{},\"target\":{},\"overflow_checks\":{},\"debug_assertions\":{},\"ptr_size\":{},\"cfg\":{}}}",
        esc(tcx.crate_name(LOCAL_CRATE).as_str()),
        esc(&tgt),
        tcx.sess.overflow_checks(),
        tcx.sess.opts.debug_assertions,
        tcx.data_layout.pointer_size().bytes(),
        esc(&feats.join(" "))
    );
    for (i, t) in cx.type_lines.iter().enumerate() {
        let _ = writeln!(out, "T\t{}\t{}", i, t);
    }
    for a in &cx.alloc_lines {
        out.push_str(a);
        out.push('\n');
    }
    for i in &items {
        out.push_str(i);
        out.push('\n');
    }
    for m in &impls {
        out.push_str(m);
        out.push('\n');
    }
    for k in &konsts {
        out.push_str(k);
        out.push('\n');
    }
    for b in &cx.bodies {
        out.push_str(b);
        out.push('\n');
    }
    std::fs::write(out_path, out).expect("write facts");
}

struct Cb {
    out: Option<String>,
    target_crate: String,
}

impl rustc_driver::Callbacks for Cb {
    fn after_analysis<'tcx>(&mut self, _c: &rustc_interface::interface::Compiler, tcx: TyCtxt<'tcx>) -> Compilation {
        if let Some(out) = &self.out {
            if tcx.crate_name(LOCAL_CRATE).as_str() == self.target_crate {
                collect(tcx, out);
            }
        }
        Compilation::Continue
    }
}

fn main() {
    let mut args: Vec<String> = std::env::args().collect();
    // RUSTC_WORKSPACE_WRAPPER: argv[1] is the real rustc path
    if args.len() > 1 && (args[1].ends_with("rustc") || args[1].contains("/rustc")) {
        args.remove(1);
    }
    let out = std::env::var("GLAM_FACTS_OUT").ok();
    let target_crate = std::env::var("GLAM_FACTS_CRATE").unwrap_or_else(|_| "glam".to_string());
    let mut cb = Cb { out, target_crate };
    rustc_driver::run_compiler(&args, &mut cb);
}
