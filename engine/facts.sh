#!/bin/bash
# usage: facts.sh <config-key> <out-file>
# Type-checks /repo's working tree under the given configuration with the glam-facts
# driver as RUSTC_WORKSPACE_WRAPPER and writes one fact file.  Scratch target dir is
# created under ${TMPDIR:-/tmp} and removed before returning.
set -u
CFG="$1"; OUT="$2"
HERE="$(cd "$(dirname "$0")" && pwd)"
DRV="$HERE/driver/target/release/glam-facts"
[ -x "$DRV" ] || { echo "facts.sh: driver not built (run ./setup.sh)" >&2; exit 2; }
SYS="$(rustc +nightly --print sysroot)"
TD="$(mktemp -d "${TMPDIR:-/tmp}/glamfacts.XXXXXX")"
trap 'rm -rf "$TD"' EXIT
BASE="-Zmir-opt-level=0 -Awarnings -Cdebug-assertions=off"
FEAT=""; TARGET=""; EXTRA=""; OVF="-Coverflow-checks=on"; ZSTD=""
case "$CFG" in
  sse2)      ;;
  sse2-rel)  OVF="-Coverflow-checks=off" ;;
  sse2-fma)  EXTRA="-Ctarget-feature=+fma,+avx,+avx2,+sse4.1,+sse4.2" ;;
  sse41)     EXTRA="-Ctarget-feature=+sse3,+ssse3,+sse4.1,+sse4.2" ;;
  sse2-dbg)  BASE="-Zmir-opt-level=0 -Awarnings -Cdebug-assertions=on" ;;
  fastmath)  FEAT="--features fast-math"; EXTRA="-Ctarget-feature=+fma,+avx,+avx2,+sse4.1,+sse4.2" ;;
  scalar)    FEAT="--features scalar-math" ;;
  coresimd)  FEAT="--features core-simd" ;;
  libm)      FEAT="--features libm" ;;
  assert)    FEAT="--features glam-assert" ;;
  dbg-glam-assert) FEAT="--features debug-glam-assert"; BASE="-Zmir-opt-level=0 -Awarnings -Cdebug-assertions=on" ;;
  scalar-assert) FEAT="--features scalar-math,glam-assert" ;;
  coresimd-assert) FEAT="--features core-simd,glam-assert" ;;
  neon-assert) TARGET="--target aarch64-unknown-linux-gnu"; ZSTD="-Zbuild-std=core"; FEAT="--no-default-features --features libm,glam-assert" ;;
  wasm32-assert) TARGET="--target wasm32-unknown-emscripten"; ZSTD="-Zbuild-std=core"; FEAT="--no-default-features --features libm,glam-assert"; EXTRA="-Ctarget-feature=+simd128" ;;
  interop)   FEAT="--features serde,bytemuck,mint,rkyv,approx,rand" ;;
  interop-scalar) FEAT="--features serde,bytemuck,mint,rkyv,approx,rand,scalar-math" ;;
  interop-coresimd) FEAT="--features serde,bytemuck,mint,rkyv,approx,rand,core-simd" ;;
  interop-cuda) FEAT="--features serde,bytemuck,mint,rkyv,approx,rand,cuda" ;;
  neon)      TARGET="--target aarch64-unknown-linux-gnu"; ZSTD="-Zbuild-std=core"; FEAT="--no-default-features --features libm" ;;
  wasm32)    TARGET="--target wasm32-unknown-emscripten"; ZSTD="-Zbuild-std=core"; FEAT="--no-default-features --features libm"; EXTRA="-Ctarget-feature=+simd128" ;;
  wasm32-scalar) TARGET="--target wasm32-unknown-emscripten"; ZSTD="-Zbuild-std=core"; FEAT="--no-default-features --features libm,scalar-math" ;;
  *) echo "facts.sh: unknown config $CFG" >&2; exit 2 ;;
esac
rm -f "$OUT"
( cd "${GLAM_REPO:-/repo}" && \
  CARGO_NET_OFFLINE=true \
  LD_LIBRARY_PATH="$SYS/lib" \
  RUSTFLAGS="$BASE $OVF $EXTRA" \
  RUSTC_WORKSPACE_WRAPPER="$DRV" \
  GLAM_FACTS_OUT="$OUT" GLAM_FACTS_CRATE=glam \
  CARGO_TARGET_DIR="$TD" \
  cargo +nightly check --offline --lib $ZSTD $TARGET $FEAT >"$TD/cargo.log" 2>&1 )
RC=$?
if [ $RC -ne 0 ] || [ ! -s "$OUT" ]; then
  echo "facts.sh: cargo check failed for config $CFG (rc=$RC)" >&2
  tail -40 "$TD/cargo.log" >&2
  exit 3
fi
exit 0
