"""Loader for glam-facts files (one per configuration).  Bodies are parsed lazily."""
import json


class Facts:
    def __init__(self, path, config=None):
        self.path = path
        self.config = config
        self.header = None
        self.types = {}
        self.allocs = {}
        self.items = {}
        self.impls = []
        self.konsts = {}
        self._body_raw = {}
        self._bodies = {}
        with open(path, 'r') as f:
            for line in f:
                k = line[0]
                _, name, rest = line.rstrip('\n').split('\t', 2)
                if k == 'B':
                    self._body_raw[name] = rest
                elif k == 'T':
                    self.types[int(name)] = json.loads(rest)
                elif k == 'A':
                    self.allocs[int(name)] = json.loads(rest)
                elif k == 'I':
                    self.items[name] = json.loads(rest)
                elif k == 'M':
                    self.impls.append(json.loads(rest))
                elif k == 'K':
                    self.konsts[name] = json.loads(rest)
                elif k == 'H':
                    self.header = json.loads(rest)
        for i, t in self.types.items():
            t['id'] = i
        self.ptr_size = self.header['ptr_size']
        self.cfg = set(self.header['cfg'].split(' '))

    def body(self, key):
        b = self._bodies.get(key)
        if b is None:
            raw = self._body_raw.get(key)
            if raw is None:
                return None
            b = json.loads(raw)
            self._bodies[key] = b
        return b

    def has_body(self, key):
        return key in self._body_raw

    def body_keys(self):
        return self._body_raw.keys()

    def ty(self, i):
        return self.types[i]

    def type_by_name(self, name):
        for t in self.types.values():
            if t['n'] == name:
                return t
        return None
