"""Check runner: fact generation + cache, obligations, verdicts, evidence, known findings."""
import hashlib
import json
import os
import subprocess
import sys
import time
import re

VERIF = os.path.dirname(os.path.dirname(os.path.dirname(os.path.abspath(__file__))))
REPO = os.environ.get('GLAM_REPO', '/repo')
OUT = os.environ.get('GLAM_VERIF_OUT', VERIF)     # side runs (seed matrix, selftest) redirect evidence/ and reports/ here
CACHE = os.path.join(VERIF, '.cache', 'facts')
DRIVER = os.path.join(VERIF, 'engine', 'driver', 'target', 'release', 'glam-facts')
FACTS_SH = os.path.join(VERIF, 'engine', 'facts.sh')

HOLDS, UNDECIDED, VIOLATION, UNVERIFIABLE = 'HOLDS', 'UNDECIDED', 'VIOLATION', 'UNVERIFIABLE'


def _sha_file(p):
    h = hashlib.sha256()
    with open(p, 'rb') as f:
        while True:
            b = f.read(1 << 20)
            if not b:
                break
            h.update(b)
    return h.hexdigest()


_TREE_HASH = [None]


def tree_hash():
    """content hash of everything rustc reads from the repository's working tree"""
    if _TREE_HASH[0] is None:
        h = hashlib.sha256()
        paths = []
        for root, dirs, files in os.walk(os.path.join(REPO, 'src')):
            dirs.sort()
            for f in sorted(files):
                paths.append(os.path.join(root, f))
        for f in ('Cargo.toml', 'Cargo.lock', 'build.rs'):
            p = os.path.join(REPO, f)
            if os.path.exists(p):
                paths.append(p)
        for p in paths:
            h.update(os.path.relpath(p, REPO).encode())
            h.update(b'\0')
            h.update(_sha_file(p).encode())
        h.update(_sha_file(DRIVER).encode() if os.path.exists(DRIVER) else b'nodriver')
        h.update(_sha_file(FACTS_SH).encode())
        _TREE_HASH[0] = h.hexdigest()[:24]
    return _TREE_HASH[0]


def facts_path(config):
    return os.path.join(CACHE, '%s-%s.facts' % (tree_hash(), config))


def ensure_facts(configs, log=sys.stderr):
    """generate (in parallel) the fact files of the given configs for /repo's current tree"""
    os.makedirs(CACHE, exist_ok=True)
    procs = []
    for c in configs:
        p = facts_path(c)
        if os.path.exists(p) and os.path.getsize(p) > 0:
            os.utime(p, None)
            continue
        tmp = p + '.tmp%d' % os.getpid()
        pr = subprocess.Popen([FACTS_SH, c, tmp], stdout=subprocess.PIPE, stderr=subprocess.STDOUT)
        procs.append((c, p, tmp, pr))
    failed = []
    for (c, p, tmp, pr) in procs:
        out, _ = pr.communicate()
        if pr.returncode != 0 or not os.path.exists(tmp) or os.path.getsize(tmp) == 0:
            failed.append((c, out.decode('utf8', 'replace')[-3000:]))
            if os.path.exists(tmp):
                os.remove(tmp)
        else:
            os.replace(tmp, p)
    _evict()
    return failed


def _evict(max_files=40):
    try:
        fs = [os.path.join(CACHE, f) for f in os.listdir(CACHE) if f.endswith('.facts')]
        fs.sort(key=lambda p: os.path.getmtime(p))
        cur = tree_hash()
        while len(fs) > max_files:
            p = fs.pop(0)
            if os.path.basename(p).startswith(cur):
                continue
            if time.time() - os.path.getmtime(p) < 1800:
                continue          # possibly in use by a concurrent check of another tree
            os.remove(p)
    except OSError:
        pass


class Ctx(object):
    def __init__(self, prop, tier, seed):
        self.prop = prop
        self.tier = tier
        self.seed = seed
        self.t0 = time.time()
        self._facts = {}
        self._harness = {}
        self.obligations = []    # (rule, config, instance, verdict, detail)
        self.counts = {}
        self.samples = []
        self.notes = []
        self.analysed = {}       # free-form counters printed + put in evidence
        self.floors = []         # (name, measured, minimum)
        self.controls = []       # (name, fired, detail)
        self.trusted = []
        self.assumptions = []
        self.extra = {}

    # facts -------------------------------------------------------------------
    def need(self, configs):
        failed = ensure_facts(configs)
        for (c, out) in failed:
            self.unverifiable('R-FACTS', c, 'cargo-check', 'fact extraction failed for config %s (the tree no longer type-checks in this configuration?)\n%s' % (c, out))
        return [c for c in configs if c not in [f[0] for f in failed]]

    def facts(self, config):
        f = self._facts.get(config)
        if f is None:
            sys.path.insert(0, os.path.join(VERIF, 'engine', 'lane'))
            from facts import Facts
            f = Facts(facts_path(config), config)
            self._facts[config] = f
        return f

    def harness(self, config, opts=None):
        h = self._harness.get(config)
        if h is None:
            from harness import Harness
            h = Harness(self.facts(config), opts)
            self._harness[config] = h
        return h

    # verdicts ----------------------------------------------------------------
    def ob(self, rule, config, instance, verdict, detail=None):
        self.obligations.append((rule, config, instance, verdict, detail))
        k = (rule, verdict)
        self.counts[k] = self.counts.get(k, 0) + 1

    def holds(self, rule, config, instance, detail=None):
        self.ob(rule, config, instance, HOLDS, detail)

    def undecided(self, rule, config, instance, detail=None):
        self.ob(rule, config, instance, UNDECIDED, detail)

    def violation(self, rule, config, instance, detail):
        self.ob(rule, config, instance, VIOLATION, detail)

    def unverifiable(self, rule, config, instance, detail):
        self.ob(rule, config, instance, UNVERIFIABLE, detail)

    def floor(self, name, measured, minimum):
        self.floors.append((name, measured, minimum))
        if measured < minimum:
            self.unverifiable('R-FLOOR', '-', name, 'instance count %d fell below the floor %d confirmed when the rule was armed: the rule would pass vacuously' % (measured, minimum))

    def control(self, name, fired, detail=''):
        self.controls.append((name, bool(fired), detail))
        if not fired:
            self.unverifiable('R-CONTROL', '-', name, 'positive control did not fire: %s' % detail)

    def sample(self, s, limit=12):
        if len(self.samples) < limit:
            self.samples.append(s)

    def count(self, name, n=1):
        self.analysed[name] = self.analysed.get(name, 0) + n


def norm_def_path(d):
    """strip the backend module segment so that sibling configs share keys"""
    return re.sub(r'::(sse2|scalar|coresimd|neon|wasm32)::', '::', d)


def vkey(prop, rule, config, instance):
    s = '%s|%s|%s|%s' % (prop, rule, config, norm_def_path(str(instance)))
    return s


def load_known():
    p = os.path.join(VERIF, 'known_findings.json')
    if not os.path.exists(p):
        return []
    with open(p) as f:
        return json.load(f).get('findings', [])


def finish(ctx, level, explanation, technique, checker_cmd):
    """print the summary, write evidence and reports, return the exit code"""
    prop = ctx.prop
    known = [k for k in load_known() if k.get('property') == prop and k.get('status', 'known') == 'known']
    known_keys = {k['key']: k for k in known}
    rep_dir = os.path.join(OUT, 'reports', prop)
    os.makedirs(rep_dir, exist_ok=True)
    for f in os.listdir(rep_dir):
        try:
            os.remove(os.path.join(rep_dir, f))
        except OSError:
            pass
    # Coverage is fail-closed: on the reference tree every enumerated instance is decided, so an instance the engine can no longer decide (a body
    # rewritten with recursion, a loop, an unknown intrinsic ...) is reported instead of silently passing.  Instances listed in
    # undecided_baseline.json (none at present) are the only exception.
    allow = set()
    try:
        with open(os.path.join(VERIF, 'undecided_baseline.json')) as f:
            allow = set(json.load(f).get(prop, []))
    except (OSError, ValueError):
        allow = set()
    obl = []
    for (rule, config, inst, verdict, detail) in ctx.obligations:
        if verdict == UNDECIDED and vkey(prop, rule, config, inst) not in allow:
            ctx.counts[(rule, UNDECIDED)] = ctx.counts.get((rule, UNDECIDED), 0) - 1
            if not ctx.counts[(rule, UNDECIDED)]:
                del ctx.counts[(rule, UNDECIDED)]
            ctx.counts[(rule, UNVERIFIABLE)] = ctx.counts.get((rule, UNVERIFIABLE), 0) + 1
            d = detail if isinstance(detail, str) else json.dumps(detail, default=str)
            obl.append((rule, config, inst, UNVERIFIABLE, 'not decidable by the engine (%s); every instance of this rule is decided on the reference tree, so the property is no longer covered here' % d[:400]))
        else:
            obl.append((rule, config, inst, verdict, detail))
    ctx.obligations = obl
    n_ob = len(ctx.obligations)
    by = {}
    for (rule, config, inst, verdict, detail) in ctx.obligations:
        by[verdict] = by.get(verdict, 0) + 1
    viol_lines = []
    known_lines = []
    seen_known = set()
    nviol = 0
    for (rule, config, inst, verdict, detail) in ctx.obligations:
        if verdict not in (VIOLATION, UNVERIFIABLE):
            continue
        key = vkey(prop, rule, config, inst)
        if verdict == VIOLATION and key in known_keys:
            if key not in seen_known:
                seen_known.add(key)
                known_lines.append('KNOWN-FINDING: property=%s %s [%s]' % (prop, known_keys[key].get('what', ''), key))
            continue
        nviol += 1
        fn = hashlib.sha1(key.encode()).hexdigest()[:16] + '.json'
        path = os.path.join(rep_dir, fn)
        with open(path, 'w') as f:
            json.dump({'property': prop, 'rule': rule, 'config': config, 'instance': str(inst), 'key': key,
                       'verdict': 'violation' if verdict == VIOLATION else 'unverifiable',
                       'detail': detail, 'tier': ctx.tier}, f, indent=1, default=str)
        viol_lines.append((path, rule, config, inst, verdict, detail))
    wall = time.time() - ctx.t0
    # summary
    print('== %s tier=%s  obligations=%d  %s  wall=%.1fs' % (prop, ctx.tier, n_ob, ' '.join('%s=%d' % kv for kv in sorted(by.items())), wall))
    for (rule, verdict), c in sorted(ctx.counts.items()):
        print('   %-10s %-12s %d' % (rule, verdict, c))
    for k, v in sorted(ctx.analysed.items()):
        print('   analysed %-40s %s' % (k, v))
    for (name, measured, minimum) in ctx.floors:
        print('   floor %-44s measured=%d minimum=%d' % (name, measured, minimum))
    for (name, fired, detail) in ctx.controls:
        print('   control %-42s %s %s' % (name, 'fired' if fired else 'DID NOT FIRE', detail[:100]))
    for l in known_lines:
        print(l)
    for (path, rule, config, inst, verdict, detail) in viol_lines[:200]:
        d = detail if isinstance(detail, str) else json.dumps(detail, default=str)
        print('  %s rule=%s config=%s instance=%s :: %s' % (verdict, rule, config, inst, d[:600].replace('\n', ' ')))
        print('VIOLATION property=%s replay=%s' % (prop, path))
    # evidence
    discharged = by.get(HOLDS, 0)
    nontrivial = ctx.analysed.get('nontrivial_instances', None)
    if nontrivial is None:
        nontrivial = len(set((r, c, str(i)) for (r, c, i, v, d) in ctx.obligations if v in (HOLDS, VIOLATION)))
    coverage = {
        'evaluations': n_ob,
        'distinct_nontrivial': int(nontrivial),
        'rule': ctx.extra.get('rule_text', 'one obligation per (rule, configuration, function/impl instance) enumerated from the facts rustc resolved for the current tree'),
        'samples': ctx.samples if ctx.samples else [{'note': 'no samples recorded'}],
        'obligations': by.get(HOLDS, 0) + by.get(VIOLATION, 0) + by.get(UNVERIFIABLE, 0),
        'discharged': discharged,
        'undecided': by.get(UNDECIDED, 0),
        'violations_or_unverifiable': by.get(VIOLATION, 0) + by.get(UNVERIFIABLE, 0),
        'known_findings_matched': len(seen_known),
        'checker_cmd': checker_cmd,
        'trusted_base': ctx.trusted,
        'explanation': explanation,
        'technique': technique,
        'per_rule': {'%s:%s' % k: v for k, v in sorted(ctx.counts.items())},
        'undecided_instances': [{'rule': r, 'config': c, 'instance': str(i), 'reason': (d if isinstance(d, str) else json.dumps(d, default=str))[:240]}
                                for (r, c, i, v, d) in ctx.obligations if v == UNDECIDED][:80],
        'analysed': ctx.analysed,
        'floors': [{'name': n, 'measured': m, 'minimum': mi} for (n, m, mi) in ctx.floors],
        'positive_controls': [{'name': n, 'fired': f, 'detail': d[:200]} for (n, f, d) in ctx.controls],
        'exhaustive': ctx.extra.get('exhaustive', False),
        'seed_note': 'VERIF_SEED is accepted and ignored: the analysis is deterministic and draws no random inputs',
        'tree_hash': tree_hash(),
    }
    for k, v in ctx.extra.items():
        if k not in coverage:
            coverage[k] = v
    ev = {
        'property_id': prop,
        'tier': ctx.tier,
        'seed': int(ctx.seed),
        'level': level,
        'coverage': coverage,
        'assumptions': ctx.assumptions + ctx.trusted,
        'wall_s': round(wall, 2),
        'violations': nviol,
    }
    os.makedirs(os.path.join(OUT, 'evidence'), exist_ok=True)
    with open(os.path.join(OUT, 'evidence', prop + '.json'), 'w') as f:
        json.dump(ev, f, indent=1, default=str)
    return 1 if nviol else 0


def run_witness(ctx, prefixes):
    """R-WITNESS: run the compile_fail doctests (with their compiling twins) of /verif/witness against /repo's current tree.
    `prefixes`: names of the witness items relevant to the calling property."""
    import shutil
    import tempfile
    wdir = os.path.join(VERIF, 'witness')
    td = tempfile.mkdtemp(prefix='glamwitness.')
    try:
        lock = os.path.join(REPO, 'Cargo.lock')
        if os.path.exists(lock) and not os.path.exists(os.path.join(wdir, 'Cargo.lock')):
            shutil.copy(lock, os.path.join(wdir, 'Cargo.lock'))
        env = dict(os.environ, CARGO_NET_OFFLINE='true', CARGO_TARGET_DIR=td)
        pr = subprocess.run(['cargo', '+nightly', 'test', '--doc', '--offline'], cwd=wdir, env=env, stdout=subprocess.PIPE, stderr=subprocess.STDOUT)
        out = pr.stdout.decode('utf8', 'replace')
    finally:
        shutil.rmtree(td, ignore_errors=True)
    seen = 0
    for m in re.finditer(r'^test src/lib\.rs - (\w+) \(line (\d+)\)( - compile fail)? \.\.\. (\w+)', out, re.M):
        name, line, cf, res = m.group(1), m.group(2), m.group(3), m.group(4)
        if not any(name.startswith(p) for p in prefixes):
            continue
        seen += 1
        inst = '%s:%s%s' % (name, line, ' (compile_fail)' if cf else ' (twin)')
        if res == 'ok':
            ctx.holds('R-WITNESS', 'witness', inst)
        else:
            ctx.violation('R-WITNESS', 'witness', inst, {'problem': 'witness doctest %s: %s' % (inst, 'the violating program now compiles' if cf else 'the compiling twin no longer compiles')})
    if seen == 0:
        ctx.unverifiable('R-WITNESS', 'witness', ','.join(prefixes), 'witness doctests did not run:\n' + out[-1500:])
    return seen
