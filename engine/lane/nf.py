"""Real-field / ring normal forms (DESIGN 3.4.2, 3.4.3).

Terms built from fadd/fmul/fneg/fma (and integer add/sub/mul/neg) are interpreted as ring
operations over Q[atoms]; fdiv as field division (values are fractions P/Q compared by
cross-multiplication); everything else becomes an opaque atom keyed by the canonical form of its
arguments.  Built-in relations: sqrt(p)^2 -> p, sin(p)^2 -> 1 - cos(p)^2, tan -> sin/cos,
sin(-p) -> -sin(p), cos(-p) -> cos(p); rule-supplied side relations atom^2 -> poly.
"""
from fractions import Fraction
import terms as tm
from terms import T


class Poly(object):
    """sparse multivariate polynomial: {monomial: coeff}; monomial = tuple of (var, exp) sorted"""
    __slots__ = ('t', '_key')

    def __init__(self, t=None):
        self.t = t if t is not None else {}
        self._key = None

    @staticmethod
    def const(c):
        c = Fraction(c)
        return Poly({(): c}) if c != 0 else Poly()

    @staticmethod
    def var(v):
        return Poly({((v, 1),): Fraction(1)})

    def is_zero(self):
        return not self.t

    def is_const(self):
        return all(m == () for m in self.t)

    def const_value(self):
        return self.t.get((), Fraction(0))

    def __add__(self, o):
        r = dict(self.t)
        for m, c in o.t.items():
            v = r.get(m, 0) + c
            if v == 0:
                r.pop(m, None)
            else:
                r[m] = v
        return Poly(r)

    def __neg__(self):
        return Poly({m: -c for m, c in self.t.items()})

    def __sub__(self, o):
        return self + (-o)

    def scale(self, k):
        k = Fraction(k)
        if k == 0:
            return Poly()
        return Poly({m: c * k for m, c in self.t.items()})

    def key(self):
        if self._key is None:
            self._key = tuple(sorted(self.t.items()))
        return self._key

    def __eq__(self, o):
        return self.t == o.t

    def __ne__(self, o):
        return self.t != o.t

    def __hash__(self):
        return hash(self.key())

    def nterms(self):
        return len(self.t)

    def degree(self):
        return max((sum(e for _, e in m) for m in self.t), default=0)

    def variables(self):
        s = set()
        for m in self.t:
            for v, _ in m:
                s.add(v)
        return s

    def abs_coeffs(self):
        return Poly({m: abs(c) for m, c in self.t.items()})

    def show(self, names=None, limit=12):
        if not self.t:
            return '0'
        parts = []
        for m, c in sorted(self.t.items(), key=lambda x: (len(x[0]), str(x[0])))[:limit]:
            ms = '*'.join(('%s' % (names(v) if names else v)) + ('^%d' % e if e > 1 else '') for v, e in m)
            if ms:
                parts.append(('%s*' % c if c != 1 else '') + ms if c != -1 else '-' + ms)
            else:
                parts.append(str(c))
        s = ' + '.join(parts)
        if len(self.t) > limit:
            s += ' + ... (%d terms)' % len(self.t)
        return s


def _mul_mono(a, b):
    if not a:
        return b
    if not b:
        return a
    d = dict(a)
    for v, e in b:
        d[v] = d.get(v, 0) + e
    return tuple(sorted(d.items()))


class Algebra(object):
    """normal-form context: opaque atoms, relations"""

    def __init__(self, relations=None, int_mod=None):
        self.opaque = {}      # key -> var id
        self.var_info = {}    # var id -> (kind, payload)
        self.next = 0
        self.rel = {}         # var id -> Poly replacing var^2   (one-square relations)
        self.memo = {}
        self.user_rel = relations or {}
        self.int_mod = int_mod
        self.maxdepth = 0
        self.names = {}
        self.expand_angles = False   # sin/cos of a sum of monomials are expanded by the angle-addition formulas
        self.acos_exact = False      # cos(acos_approx(c)) = c and sin(acos_approx(c)) = sqrt(1 - c^2) (the arccos read as exact)
        self.budget = None    # optional cap on monomial products per multiplication (raises ValueError)

    # variables ------------------------------------------------------------------------
    def var_for_atom(self, t):
        k = ('atom', t.id)
        v = self.opaque.get(k)
        if v is None:
            v = self._new(k, ('atom', t))
        return v

    def _new(self, k, info):
        v = self.next
        self.next += 1
        self.opaque[k] = v
        self.var_info[v] = info
        return v

    def name(self, v):
        info = self.var_info.get(v)
        if info is None:
            return 'v%d' % v
        if info[0] == 'atom':
            return tm.show(info[1])
        if info[0] == 'fn':
            return '%s(...)#%d' % (info[1], v)
        return '%s#%d' % (info[0], v)

    def opaque_fn(self, fname, argkeys, payload=None):
        k = ('fn', fname, argkeys)
        v = self.opaque.get(k)
        if v is None:
            v = self._new(k, ('fn', fname, payload))
        return v

    # polynomial multiplication with square relations --------------------------------------
    def mul(self, a, b):
        if a.is_zero() or b.is_zero():
            return Poly()
        if self.budget is not None and len(a.t) * len(b.t) > self.budget:
            raise ValueError('polynomial product exceeds the budget (%d x %d monomials)' % (len(a.t), len(b.t)))
        r = {}
        need_reduce = False
        for m1, c1 in a.t.items():
            for m2, c2 in b.t.items():
                m = _mul_mono(m1, m2)
                v = r.get(m, 0) + c1 * c2
                if v == 0:
                    r.pop(m, None)
                else:
                    r[m] = v
        p = Poly(r)
        if self.rel:
            p = self.reduce(p)
        return p

    def reduce(self, p):
        """apply var^2 -> rel[var] until no monomial has exponent >= 2 on a related var"""
        changed = True
        guard = 0
        while changed:
            changed = False
            guard += 1
            if guard > 200:
                raise ValueError('relation reduction does not terminate')
            out = Poly()
            for m, c in p.t.items():
                hit = None
                for (v, e) in m:
                    if e >= 2 and v in self.rel:
                        hit = (v, e)
                        break
                if hit is None:
                    out = out + Poly({m: c})
                    continue
                changed = True
                v, e = hit
                rest = tuple((x, y) for (x, y) in m if x != v)
                if e - 2 > 0:
                    rest = tuple(sorted(rest + ((v, e - 2),)))
                q = self._mul_raw(Poly({rest: c}), self.rel[v])
                out = out + q
            p = out
        return p

    def _mul_raw(self, a, b):
        r = {}
        for m1, c1 in a.t.items():
            for m2, c2 in b.t.items():
                m = _mul_mono(m1, m2)
                v = r.get(m, 0) + c1 * c2
                if v == 0:
                    r.pop(m, None)
                else:
                    r[m] = v
        return Poly(r)

    def substitute(self, p, mapping):
        """p with every variable v in `mapping` replaced by the polynomial mapping[v] (other variables kept); relations applied"""
        out = Poly()
        for m, c in p.t.items():
            term = Poly.const(c)
            for (v, e) in m:
                base = mapping.get(v)
                if base is None:
                    base = Poly.var(v)
                for _ in range(e):
                    term = self.mul(term, base)
            out = out + term
        return self.reduce(out) if self.rel else out

    def add_relation(self, var, poly):
        self.rel[var] = poly
        self.memo.clear()

    # rational functions: (num, den) ---------------------------------------------------
    def r_add(self, a, b):
        if a[1] == b[1]:
            return (a[0] + b[0], a[1])
        return (self.mul(a[0], b[1]) + self.mul(b[0], a[1]), self.mul(a[1], b[1]))

    def r_mul(self, a, b):
        return (self.mul(a[0], b[0]), self.mul(a[1], b[1]))

    def r_neg(self, a):
        return (-a[0], a[1])

    def r_div(self, a, b):
        return (self.mul(a[0], b[1]), self.mul(a[1], b[0]))

    def r_eq(self, a, b):
        if a[1] == b[1]:
            return a[0] == b[0]
        return self.mul(a[0], b[1]) == self.mul(b[0], a[1])

    def r_norm(self, a):
        """cheap canonicalisation: constant denominators folded; sign of denominator fixed"""
        n, d = a
        if n.is_zero():
            return (Poly(), ONE)
        if d.is_const():
            k = d.const_value()
            if k != 0:
                return (n.scale(1 / k), ONE)
        return (n, d)

    def r_key(self, a):
        a = self.r_norm(a)
        return (a[0].key(), a[1].key())

    # term -> rational function ----------------------------------------------------------
    def nf(self, t):
        r = self.memo.get(t.id)
        if r is None:
            r = self._nf(t)
            r = self.r_norm(r)
            self.memo[t.id] = r
        return r

    def const_of(self, t):
        b, s = t.args
        if self.int_mod is not None:
            return Fraction(tm.to_signed(b, s))
        if s in (4, 8):
            f = tm.f_of(t)
            if f != f or f in (float('inf'), float('-inf')):
                return None
            return Fraction(f)
        return Fraction(tm.to_signed(b, s))

    def _nf(self, t):
        op = t.op
        if op == 'atom':
            return (Poly.var(self.var_for_atom(t)), ONE)
        if op == 'c':
            c = self.const_of(t)
            if c is None:
                return (Poly.var(self.opaque_fn('const', (t.id,))), ONE)
            return (Poly.const(c), ONE)
        if op == 'fadd':
            return self.r_add(self.nf(t.args[0]), self.nf(t.args[1]))
        if op == 'fmul':
            return self.r_mul(self.nf(t.args[0]), self.nf(t.args[1]))
        if op == 'fneg':
            return self.r_neg(self.nf(t.args[0]))
        if op == 'fdiv':
            return self.r_div(self.nf(t.args[0]), self.nf(t.args[1]))
        if op == 'fma':
            return self.r_add(self.r_mul(self.nf(t.args[0]), self.nf(t.args[1])), self.nf(t.args[2]))
        if ':' in op:
            name, ty = op.rsplit(':', 1)
            if ty[:1] in 'iu' and ty[1:].isdigit():
                if name == 'add':
                    return self.r_add(self.nf(t.args[0]), self.nf(t.args[1]))
                if name == 'sub':
                    return self.r_add(self.nf(t.args[0]), self.r_neg(self.nf(t.args[1])))
                if name == 'mul':
                    return self.r_mul(self.nf(t.args[0]), self.nf(t.args[1]))
                if name == 'neg':
                    return self.r_neg(self.nf(t.args[0]))
        if op == 'sqrt':
            return self.sqrt_r(self.nf(t.args[0]))
        if op == 'sin':
            return self.sin_r(self.nf(t.args[0]))
        if op == 'cos':
            return self.cos_r(self.nf(t.args[0]))
        if op == 'tan':
            return self.tan_r(self.nf(t.args[0]))
        # opaque function of the normal forms of its term arguments
        keys = []
        for a in t.args:
            if isinstance(a, T):
                keys.append(self.r_key(self.nf(a)))
            else:
                keys.append(('r', a))
        v = self.opaque_fn(op, tuple(keys), t)
        return (Poly.var(v), ONE)

    # opaque functions on rational values (shared by the term translation and the spec library) ------
    def _nonneg(self, p):
        """manifestly non-negative polynomial: positive coefficients, even exponents (square roots are non-negative themselves)"""
        for v, q in self.rel.items():
            info = self.var_info.get(v, ('?',))
            if info[0] == 'fn' and info[1] == 'sqrt' and q == p:
                return True      # the radicand of a square root already taken
        for m, c in p.t.items():
            if c <= 0:
                return False
            for (v, e) in m:
                info = self.var_info.get(v, ('?',))
                if e % 2 and not (info[0] == 'fn' and info[1] == 'sqrt'):
                    return False
        return True

    def sqrt_r(self, a):
        a = self.r_norm(a)
        if a[1] == ONE and a[0].is_const():
            k = a[0].const_value()
            if k >= 0:
                import math as _m
                rn, rd = _m.isqrt(k.numerator), _m.isqrt(k.denominator)
                if rn * rn == k.numerator and rd * rd == k.denominator:
                    return (Poly.const(Fraction(rn, rd)), ONE)       # exact rational square root
        if a[1] != ONE and self.rel:
            try:
                if self.reduce(a[0]) == self.reduce(a[1]):
                    return (Poly.const(1), ONE)                          # the radicand is identically 1 modulo the declared relations
            except ValueError:
                pass
        if a[1] != ONE and self._nonneg(a[1]):
            # sqrt(n/d) = sqrt(n*d)/d for d > 0: keeps the relation polynomial
            inner = self.sqrt_r((self.mul(a[0], a[1]), ONE))
            return (inner[0], a[1])
        v = self.opaque_fn('sqrt', self.r_key(a), a)
        if v not in self.rel and a[1] == ONE:
            self.rel[v] = a[0]
        return (Poly.var(v), ONE)

    def _sincos_vars(self, a):
        a, sign = self._canon_sign(self.r_norm(a))
        k = self.r_key(a)
        vs = self.opaque_fn('sin', k, a)
        vc = self.opaque_fn('cos', k, a)
        if vs not in self.rel:
            self.rel[vs] = Poly.const(1) - Poly({((vc, 2),): Fraction(1)})   # sin^2 -> 1 - cos^2
        return vs, vc, sign

    def _split_angle(self, a):
        """a = m + rest for an argument that is a sum of at least two monomials (angle-addition expansion); None otherwise"""
        a = self.r_norm(a)
        n, d = a
        if d != ONE or len(n.t) < 2:
            return None
        ms = sorted(n.t.items(), key=lambda kv: (len(kv[0]), str(kv[0])))
        m0, c0 = ms[-1]
        first = (Poly({m0: c0}), ONE)
        rest = (Poly({m: c for m, c in ms[:-1]}), ONE)
        return first, rest

    def _acos_of(self, a):
        """when a is exactly the symbol acos_approx(c) / acos(c): the rational c"""
        a = self.r_norm(a)
        n, d = a
        if d != ONE or len(n.t) != 1:
            return None
        (m, c), = n.t.items()
        if c != 1 or len(m) != 1 or m[0][1] != 1:
            return None
        info = self.var_info.get(m[0][0], ('?',))
        if info[0] != 'fn' or info[1] not in ('acos_approx', 'acos'):
            return None
        pl = info[2]
        if isinstance(pl, tuple) and pl and pl[0] == 'rat':
            return pl[1][0]
        if isinstance(pl, T):
            return self.nf(pl.args[0])
        return None

    def sin_r(self, a):
        if self.acos_exact:
            c = self._acos_of(a)
            if c is not None:
                # sin(acos c) = sqrt(1 - c^2)
                return self.sqrt_r(self.r_add((Poly.const(1), ONE), self.r_neg(self.r_mul(c, c))))
        if self.expand_angles:
            sp = self._split_angle(a)
            if sp is not None:
                x, y = sp
                return self.r_add(self.r_mul(self.sin_r(x), self.cos_r(y)), self.r_mul(self.cos_r(x), self.sin_r(y)))
        vs, vc, sign = self._sincos_vars(a)
        p = Poly.var(vs)
        return (p if sign > 0 else -p, ONE)

    def cos_r(self, a):
        if self.acos_exact:
            c = self._acos_of(a)
            if c is not None:
                return c
        if self.expand_angles:
            sp = self._split_angle(a)
            if sp is not None:
                x, y = sp
                return self.r_add(self.r_mul(self.cos_r(x), self.cos_r(y)), self.r_neg(self.r_mul(self.sin_r(x), self.sin_r(y))))
        vs, vc, sign = self._sincos_vars(a)
        return (Poly.var(vc), ONE)

    def tan_r(self, a):
        vs, vc, sign = self._sincos_vars(a)
        p = Poly.var(vs)
        return (p if sign > 0 else -p, Poly.var(vc))

    def fn_r(self, op, args):
        """opaque function symbol applied to rational values"""
        keys = tuple(self.r_key(self.r_norm(a)) for a in args)
        return (Poly.var(self.opaque_fn(op, keys, ('rat', [self.r_norm(a) for a in args]))), ONE)

    def _opaque_key(self, a):
        # structural key of a non-arithmetic subterm, via nf of its own arguments
        r = self.nf(a)
        return self.r_key(r)

    def _is_arith(self, a):
        return True

    def _canon_sign(self, a):
        """normalise the sign of an argument of sin/cos: returns (a or -a, +1 or -1)"""
        n, d = a
        if n.is_zero():
            return a, 1
        lead = min(n.t.items(), key=lambda x: (len(x[0]), str(x[0])))
        if lead[1] < 0:
            return (-n, d), -1
        return a, 1


ONE = Poly.const(1)


def poly_mod(p, mod):
    r = {}
    for m, c in p.t.items():
        if c.denominator != 1:
            return None
        v = c.numerator % mod
        if v:
            r[m] = Fraction(v)
    return Poly(r)


# ---------------------------------------------------------------------------------------------
# rounding-depth certificate (DESIGN 3.4.3)

def rounding_depth(t, memo=None):
    """maximal number of rounding operations on a leaf-to-root path of a ring expression
    (fma counts once); None when the term contains non-ring operations"""
    if memo is None:
        memo = {}
    r = memo.get(t.id, -1)
    if r != -1:
        return r
    op = t.op
    if op in ('atom', 'c'):
        r = 0
    elif op == 'fneg':
        r = rounding_depth(t.args[0], memo)
    elif op in ('fadd', 'fmul', 'fdiv'):
        a, b = rounding_depth(t.args[0], memo), rounding_depth(t.args[1], memo)
        r = None if a is None or b is None else 1 + max(a, b)
    elif op == 'fma':
        ds = [rounding_depth(x, memo) for x in t.args]
        r = None if any(d is None for d in ds) else 1 + max(ds)
    elif op == 'sqrt':
        a = rounding_depth(t.args[0], memo)
        r = None if a is None else 1 + a
    else:
        r = None
    memo[t.id] = r
    return r


def abs_nf(alg, t, memo=None):
    """the 'absolute' normal form: same evaluation with every subtraction turned into addition and
    constants replaced by their magnitudes; for the no-cancellation factor K"""
    if memo is None:
        memo = {}
    r = memo.get(t.id)
    if r is not None:
        return r
    op = t.op
    if op == 'atom':
        r = Poly.var(alg.var_for_atom(t))
    elif op == 'c':
        c = alg.const_of(t)
        r = Poly.const(abs(c)) if c is not None else None
    elif op == 'fneg':
        r = abs_nf(alg, t.args[0], memo)
    elif op == 'fadd':
        a, b = abs_nf(alg, t.args[0], memo), abs_nf(alg, t.args[1], memo)
        r = None if a is None or b is None else a + b
    elif op == 'fmul':
        a, b = abs_nf(alg, t.args[0], memo), abs_nf(alg, t.args[1], memo)
        r = None if a is None or b is None else alg._mul_raw(a, b)
    elif op == 'fma':
        a, b, c = [abs_nf(alg, x, memo) for x in t.args]
        r = None if a is None or b is None or c is None else alg._mul_raw(a, b) + c
    else:
        r = None
    memo[t.id] = r
    return r
