"""Lane abstract interpreter over glam-facts MIR (DESIGN section 3).

Forward abstract interpretation: byte-addressed cell memory, hash-consed term values,
gated (ite) merges at immediate post-dominators, compositional inlining of resolved callees,
leaf-table semantics for intrinsics / std primitives.  No concrete execution, no solver.
"""
import terms as tm
from terms import T, mk, const, ite, UNINIT, TRUE, FALSE


import re
_STD_RE = re.compile(r'\bstd::')


class Abort(Exception):
    """construct outside the analysable fragment; the root becomes UNDECIDED / unverifiable"""
    pass


class Agg(object):
    """a bag of cells: byte offset -> (size, term); plus discriminant pseudo-cells"""
    __slots__ = ('cells', 'discr', 'lazy', 'name', 'id', 'size', 'kind')

    def __init__(self, size=None, name=None):
        self.cells = {}
        self.discr = {}
        self.lazy = None
        self.name = name
        self.id = None
        self.size = size
        self.kind = None

    def clone(self):
        a = Agg(self.size, self.name)
        a.cells = dict(self.cells)
        a.discr = dict(self.discr)
        a.lazy = self.lazy
        a.id = self.id
        a.kind = self.kind
        return a

    def deps(self):
        d = set()
        for (_, t) in self.cells.values():
            d |= t.deps
        for t in self.discr.values():
            d |= t.deps
        return d

    def __repr__(self):
        s = ', '.join('%d:%s' % (o, tm.show(t)) for o, (sz, t) in sorted(self.cells.items()))
        if self.discr:
            s += ' | ' + ', '.join('d%s=%s' % (k, tm.show(v)) for k, v in self.discr.items())
        return '{' + s + '}'


def agg_of_lanes(lanes, size):
    a = Agg(size * len(lanes))
    for i, l in enumerate(lanes):
        a.cells[i * size] = (size, l)
    return a


class PanicSite(object):
    __slots__ = ('kind', 'cond', 'fn', 'line', 'stack', 'detail', 'file', 'dirty')

    def __init__(self, kind, cond, fn, file, line, stack, detail, dirty=False):
        self.dirty = dirty      # some caller-visible object (pointee of an argument) may already have been written on the path to this site
        self.kind = kind
        self.cond = cond
        self.fn = fn
        self.file = file
        self.line = line
        self.stack = stack
        self.detail = detail

    def key(self):
        return (self.kind, self.fn, self.detail)

    def __repr__(self):
        return 'PanicSite(%s in %s:%s %s cond=%s)' % (self.kind, self.fn, self.line, self.detail, tm.show(self.cond))


class Frame(object):
    __slots__ = ('body', 'locals', 'key')

    def __init__(self, body, key):
        self.body = body
        self.key = key
        self.locals = []


SCALAR_KINDS = ('int', 'float', 'bool', 'char', 'fnptr')


class Interp(object):
    def __init__(self, facts, leaf_table, opts=None):
        self.F = facts
        self.leaf = leaf_table
        self.opts = opts or {}
        self.heap = {}
        self.next_obj = 1
        self.panics = []
        self.pathcond = []
        self.stack = []
        self.opaque_calls = []   # (callee d, deps set, caller key)
        self.marker = None       # object id of the argument-write marker (set by the harness once the symbolic arguments are built)
        self.effects = []        # effect log for R-EFFSEQ: (name, args...)
        self.unknown_callees = {}
        self.steps = 0
        self.max_steps = self.opts.get('max_steps', 200000)
        self.atom_info = {}
        self._pdom = {}
        self._const_objs = {}
        self._tyname = {}
        self.mem_events = []     # raw memory intrinsic events for R-BOUNDS
        self.obj_info = {}       # obj id -> (size, name, kind) (kept after the object is freed)
        self.obj_align = {}
        self.assume = []         # undo log of path assumptions [(term id, old ub)]
        tm.ASSUME_UB.clear()
        tm.ASSUME_LB.clear()
        self.trace_calls = None

    # ------------------------------------------------------------------ types
    def ty(self, i):
        return self.F.types[i]

    def tysize(self, i):
        s = self.F.types[i]['sz']
        if s is None:
            raise Abort('unsized type %s' % self.F.types[i]['n'])
        return s

    def sname(self, i):
        """scalar type name used in term ops"""
        r = self._tyname.get(i)
        if r is None:
            t = self.F.types[i]
            k = t.get('k')
            if k == 'int':
                r = ('i' if t['signed'] else 'u') + str(t['sz'] * 8)
            elif k == 'float':
                r = 'f' + str(t['sz'] * 8)
            elif k == 'bool':
                r = 'bool'
            elif k == 'char':
                r = 'u32'
            elif k == 'ptr':
                r = 'ptr'
            else:
                r = '?'
            self._tyname[i] = r
        return r

    def is_scalar(self, i):
        t = self.F.types[i]
        k = t.get('k')
        if k in SCALAR_KINDS:
            return True
        if k == 'ptr':
            return t.get('fat') is None
        return False

    def is_fat(self, i):
        t = self.F.types[i]
        return t.get('k') == 'ptr' and t.get('fat') is not None

    def leaves(self, i, base=0, out=None, depth=0):
        """scalar leaves of a type: list of (offset, size, tyid)"""
        if out is None:
            out = []
        t = self.F.types[i]
        k = t.get('k')
        if t['sz'] == 0:
            return out
        if self.is_scalar(i):
            out.append((base, t['sz'], i))
        elif k == 'ptr':
            ps = self.F.ptr_size
            out.append((base, ps, i))
            out.append((base + ps, ps, -1))
        elif k == 'array':
            for j in range(t['count']):
                self.leaves(t['elem'], base + j * t['stride'], out, depth + 1)
        elif 'fields' in t:
            if t.get('adt') == 'union':
                # choose the largest-granularity-safe view: first field
                if t['fields']:
                    self.leaves(t['fields'][0][1], base + t['fields'][0][0], out, depth + 1)
            else:
                for (off, fid, _n) in t['fields']:
                    self.leaves(fid, base + off, out, depth + 1)
        elif 'variants' in t:
            out.append((base, 0, ('discr', i)))
            vs = [v for v in t['variants']['vs'] if v['fields']]
            if len(vs) == 1:
                for (off, fid, _n) in vs[0]['fields']:
                    self.leaves(fid, base + off, out, depth + 1)
            elif len(vs) > 1:
                raise Abort('leaves of multi-payload enum %s' % t['n'])
        else:
            raise Abort('leaves of type %s' % t['n'])
        return out

    # ------------------------------------------------------------------ heap
    def new_obj(self, size=None, name=None, kind='local'):
        o = Agg(size, name)
        o.id = self.next_obj
        o.kind = kind
        self.obj_info[o.id] = (size, name, kind)
        self.next_obj += 1
        self.heap[o.id] = o
        return o

    def fork_heap(self):
        return {k: v.clone() for k, v in self.heap.items()}

    def merge_heaps(self, cond, h1, h2):
        """heap = ite(cond, h1, h2) cell-wise"""
        out = {}
        for k in set(h1) | set(h2):
            a, b = h1.get(k), h2.get(k)
            if a is None:
                out[k] = b
                continue
            if b is None:
                out[k] = a
                continue
            if a.cells == b.cells and a.discr == b.discr:
                out[k] = a
                continue
            m = a.clone()
            m.cells = {}
            offs = set(a.cells) | set(b.cells)
            bad = False
            for off in offs:
                ca, cb = a.cells.get(off), b.cells.get(off)
                if off == 'opq':
                    m.cells[off] = (0, ite(cond, ca[1] if ca else UNINIT, cb[1] if cb else UNINIT))
                    continue
                if ca is not None and cb is not None and ca[0] == cb[0]:
                    m.cells[off] = (ca[0], ite(cond, ca[1], cb[1]))
                elif ca is None and cb is not None and not self._overlaps(a, off, cb[0]):
                    m.cells[off] = (cb[0], ite(cond, UNINIT, cb[1]))
                elif cb is None and ca is not None and not self._overlaps(b, off, ca[0]):
                    m.cells[off] = (ca[0], ite(cond, ca[1], UNINIT))
                else:
                    bad = True
                    break
            if bad:
                # different cell partitions: fall back to byte-granular tops with sound deps
                m.cells = {}
                deps = a.deps() | b.deps() | cond.deps
                hi = 0
                for ag in (a, b):
                    for off, (sz, _) in ag.cells.items():
                        if off != 'opq':
                            hi = max(hi, off + sz)
                t = tm.top(deps, 'merge')
                m.cells[0] = (hi, t)
            m.discr = {}
            for dk in set(a.discr) | set(b.discr):
                da, db = a.discr.get(dk), b.discr.get(dk)
                if da is None or db is None:
                    m.discr[dk] = ite(cond, da if da is not None else UNINIT, db if db is not None else UNINIT)
                else:
                    m.discr[dk] = ite(cond, da, db)
            out[k] = m
        return out

    @staticmethod
    def _overlaps(ag, off, size):
        for o, (s, _) in ag.cells.items():
            if o == 'opq':
                return True
            if o < off + size and off < o + s:
                return True
        return False

    # -------------------------------------------------------------- raw memory
    def clear_range(self, obj, off, size):
        if size == 0:
            return
        cells = obj.cells
        cells.pop('opq', None)
        hit = [o for o, (s, _) in cells.items() if o < off + size and off < o + s]
        for o in hit:
            s, t = cells.pop(o)
            if o < off:
                cells[o] = (off - o, mk('extract', t, 0, off - o))
            if o + s > off + size:
                no = off + size
                cells[no] = (o + s - no, mk('extract', t, no - o, o + s - no))
        if obj.discr:
            for dk in [dk for dk in obj.discr if off <= dk[0] < off + size]:
                del obj.discr[dk]

    def write(self, obj, off, size, val):
        if size == 0:
            return
        if self.marker is not None and obj.id != self.marker and getattr(obj, 'kind', None) == 'arg':
            m = self.heap.get(self.marker)
            if m is not None:
                m.cells[0] = (1, const(1, 1))      # path-sensitive: the marker lives in the (forked / merged) heap
        if size is None or off is None:
            # value / place of a type whose layout is unknown (generic parameter): one opaque cell for the whole object
            old = obj.cells.get('opq')
            if off is None and old is not None:
                vd = val.deps if isinstance(val, T) else val.deps()
                val = tm.top(set(old[1].deps) | set(vd), 'opaque-field-write')
            if isinstance(val, T):
                obj.cells = {'opq': (0, val)}
            else:
                obj.cells = dict(val.cells)
            obj.discr = {} if isinstance(val, T) else dict(val.discr)
            return
        self.clear_range(obj, off, size)
        if isinstance(val, T):
            obj.cells[off] = (size, val)
        else:
            for o, c in val.cells.items():
                if o < size:
                    obj.cells[off + o] = c
            for (o, tid), d in val.discr.items():
                obj.discr[(off + o, tid)] = d

    def read(self, obj, off, size, tyid=None):
        """returns T for scalar types (or when a single exact cell matches), else Agg"""
        scalar = tyid is None or self.is_scalar(tyid)
        if size == 0:
            return Agg(0)
        oq = obj.cells.get('opq')
        if size is None or off is None or oq is not None:
            if oq is None:
                if obj.cells or obj.discr:
                    return tm.top(obj.deps(), 'opaque-read')
                return UNINIT
            if off is None or (size is not None and off not in (0, None)):
                return mk('field_of', oq[1], -1 if off is None else off)
            if size is None or off == 0:
                return oq[1] if (size is None or scalar) else mk('field_of', oq[1], 0)
        c = obj.cells.get(off)
        if c is not None and c[0] == size and scalar:
            return c[1]
        # lazily materialised atoms (symbolic slices / argument objects)
        if obj.lazy is not None and not self._overlaps(obj, off, size):
            return obj.lazy(self, obj, off, size, tyid)
        if scalar:
            parts = self._gather(obj, off, size)
            if not parts:
                return UNINIT
            if len(parts) == 1 and parts[0][0] == off and parts[0][1] == size:
                return parts[0][2]
            if len(parts) == 1:
                o, s, t = parts[0]
                if o <= off and off + size <= o + s:
                    if t is UNINIT:
                        return UNINIT
                    return mk('extract', t, off - o, size)
            return mk('concat', *[mk('part', t, o - off, s) for (o, s, t) in parts])
        out = Agg(size)
        for (o, s, t) in self._gather(obj, off, size):
            lo, hi = max(o, off), min(o + s, off + size)
            if lo == o and hi == o + s:
                out.cells[o - off] = (s, t)
            else:
                out.cells[lo - off] = (hi - lo, mk('extract', t, lo - o, hi - lo))
        for (o, tid), d in obj.discr.items():
            if off <= o < off + size:
                out.discr[(o - off, tid)] = d
        return out

    def _gather(self, obj, off, size):
        r = [(o, s, t) for o, (s, t) in obj.cells.items() if o != 'opq' and o < off + size and off < o + s]
        r.sort(key=lambda x: x[0])
        return r

    # ------------------------------------------------------------------ values
    def val_deps(self, v, follow_ptrs=True, seen=None):
        """over-approximate dependency set of a value incl. memory reachable through pointers"""
        if seen is None:
            seen = set()
        d = set()
        ts = [v] if isinstance(v, T) else [t for (_, t) in v.cells.values()] + list(v.discr.values())
        for t in ts:
            d |= t.deps
            if follow_ptrs:
                for (oid, _off) in self.ptr_targets(t):
                    if oid not in seen:
                        seen.add(oid)
                        o = self.heap.get(oid)
                        if o is not None:
                            d |= self.val_deps(o, True, seen)
                            if o.lazy is not None:
                                d |= o.lazy(self, o, None, None, 'deps')
        return d

    def ptr_targets(self, t):
        if t.op == 'ptr':
            return [(t.args[0], t.args[1])]
        if t.op == 'ite':
            return self.ptr_targets(t.args[1]) + self.ptr_targets(t.args[2])
        return []

    def top_value(self, tyid, deps, tag=''):
        """typed unknown value"""
        t = self.F.types[tyid]
        if t['sz'] == 0:
            return Agg(0)
        if self.is_scalar(tyid) or t['sz'] is None:
            return tm.top(deps, tag)
        out = Agg(t['sz'])
        try:
            lv = self.leaves(tyid)
        except Abort:
            out.cells[0] = (t['sz'], tm.top(deps, tag))
            return out
        for (off, sz, lt) in lv:
            if sz == 0 and isinstance(lt, tuple):
                out.discr[(off, lt[1])] = tm.top(deps, tag)
            else:
                out.cells[off] = (sz, tm.top(deps, tag))
        return out

    # ------------------------------------------------------------------ consts
    def const_obj(self, alloc_id):
        o = self._const_objs.get(alloc_id)
        if o is None or o.id not in self.heap:
            a = self.F.allocs[alloc_id]
            o = self.new_obj(None, 'const%d' % alloc_id, 'const')
            o.lazy = _const_lazy(alloc_id)
            self._const_objs[alloc_id] = o
        return o

    def decode_bytes(self, data, rel, base, tyid):
        """decode constant bytes [base, base+size) as a typed value"""
        t = self.F.types[tyid]
        sz = t['sz']
        k = t.get('k')
        if sz == 0:
            return Agg(0)
        if k == 'ptr':
            ps = self.F.ptr_size
            v = self._decode_ptr(data, rel, base)
            if t.get('fat') is None:
                return v
            out = Agg(sz)
            out.cells[0] = (ps, v)
            out.cells[ps] = (ps, const(int.from_bytes(data[base + ps:base + 2 * ps], 'little'), ps))
            return out
        if self.is_scalar(tyid):
            return const(int.from_bytes(data[base:base + sz], 'little'), sz)
        out = Agg(sz)
        if k == 'array':
            for j in range(t['count']):
                self._put(out, j * t['stride'], t['elem'], self.decode_bytes(data, rel, base + j * t['stride'], t['elem']))
        elif 'fields' in t:
            fields = t['fields'][:1] if t.get('adt') == 'union' else t['fields']
            for (off, fid, _n) in fields:
                self._put(out, off, fid, self.decode_bytes(data, rel, base + off, fid))
        elif 'variants' in t:
            v = self._decode_variant(t, data, base)
            vs = t['variants']['vs'][v]
            out.discr[(0, tyid)] = const(int(vs['discr']) & ((1 << 128) - 1), 16)
            for (off, fid, _n) in vs['fields']:
                self._put(out, off, fid, self.decode_bytes(data, rel, base + off, fid))
        else:
            raise Abort('decode const of type %s' % t['n'])
        return out

    def _put(self, out, off, tyid, v):
        sz = self.F.types[tyid]['sz']
        if sz == 0:
            return
        if isinstance(v, T):
            out.cells[off] = (sz, v)
        else:
            for o, c in v.cells.items():
                out.cells[off + o] = c
            for (o, tid), d in v.discr.items():
                out.discr[(off + o, tid)] = d

    def _decode_ptr(self, data, rel, base):
        ps = self.F.ptr_size
        addend = int.from_bytes(data[base:base + ps], 'little')
        for (o, aid) in rel:
            if o == base:
                a = self.F.allocs.get(aid)
                if a is not None and a['k'] == 'fn':
                    return mk('fn', a['fn']['k'])
                return tm.ptr(self.const_obj(aid).id, addend)
        return const(addend, ps)

    def _decode_variant(self, t, data, base):
        vinfo = t['variants']
        if 'single' in vinfo:
            return vinfo['single']
        toff, tsz = vinfo['tag']
        tag = int.from_bytes(data[base + toff:base + toff + tsz], 'little')
        if vinfo['enc'] == 'direct':
            for i, v in enumerate(vinfo['vs']):
                if (int(v['discr']) & ((1 << (8 * tsz)) - 1)) == tag:
                    return i
            raise Abort('bad enum tag')
        lo, hi = vinfo['niche_variants']
        ns = int(vinfo['niche_start'])
        rel = (tag - ns) & ((1 << (8 * tsz)) - 1)
        if rel <= hi - lo:
            return lo + rel
        return vinfo['untagged']

    def eval_const(self, k):
        kind = k[0]
        if kind == 'int':
            tyid = k[3]
            t = self.F.types[tyid]
            if self.is_scalar(tyid):
                return const(int(k[1]), k[2])
            data = int(k[1]).to_bytes(max(k[2], t['sz'] or 0), 'little')
            return self.decode_bytes(data, [], 0, tyid)
        if kind == 'zst':
            return Agg(0)
        if kind == 'fn':
            return Agg(0)
        if kind == 'mem':
            a = self.F.allocs[k[1]]
            data = bytes.fromhex(a['bytes'])
            return self.decode_bytes(data, a['rel'], k[2], k[3])
        if kind == 'ptr':
            a = self.F.allocs.get(k[1])
            if a is not None and a['k'] == 'fn':
                return mk('fn', a['fn']['k'])
            return tm.ptr(self.const_obj(k[1]).id, k[2])
        if kind == 'slice':
            ps = self.F.ptr_size
            out = Agg(2 * ps)
            out.cells[0] = (ps, tm.ptr(self.const_obj(k[1]).id, 0))
            out.cells[ps] = (ps, const(k[2], ps))
            return out
        raise Abort('const %s' % (k,))

    # ------------------------------------------------------------------ places
    def eval_place(self, fr, p):
        """-> list of alternatives [(cond or None, obj, off)], meta"""
        alts = [(None, self.heap[fr.locals[p[0]]], 0)]
        meta = None
        cur_ty = fr.body['locals'][p[0]]
        for e in p[1]:
            k = e[0]
            if k == 'f':
                if e[1] < 0:
                    alts = [(c, o, None) for (c, o, off) in alts]
                else:
                    alts = [(c, o, (off + e[1]) if off is not None else None) for (c, o, off) in alts]
                cur_ty = e[2]
            elif k == 'd':
                new = []
                t = self.F.types[cur_ty]
                fat = t.get('fat') is not None
                ps = self.F.ptr_size
                for (c, o, off) in alts:
                    if off is None:
                        raise Abort('deref through a field of unknown layout')
                    pv = self.read(o, off, ps, None)
                    if fat:
                        meta = self.read(o, off + ps, ps, None)
                    for (c2, oid, poff) in self._ptr_alts(pv):
                        cc = c2 if c is None else (c if c2 is None else tm.b_and(c, c2))
                        obj = self.heap.get(oid)
                        if obj is None:
                            raise Abort('dangling pointer deref')
                        new.append((cc, obj, poff))
                alts = new
                cur_ty = t.get('to')
            elif k == 'dc':
                pass
            elif k == 'i':
                idx = self.read(self.heap[fr.locals[e[1]]], 0, self.F.ptr_size, None)
                stride = e[2]
                if tm.is_const(idx):
                    alts = [(c, o, (off + tm.cbits(idx) * stride) if off is not None else None) for (c, o, off) in alts]
                else:
                    t = self.F.types[cur_ty]
                    n = t.get('count') if t.get('k') == 'array' else None
                    if n is None and meta is not None and tm.is_const(meta):
                        n = tm.cbits(meta)
                    if n is None or n > 64:
                        raise Abort('symbolic index into unsized/large sequence')
                    new = []
                    for (c, o, off) in alts:
                        for j in range(n):
                            cj = tm.iop('eq', 'u%d' % (8 * self.F.ptr_size), idx, const(j, self.F.ptr_size))
                            cc = cj if c is None else tm.b_and(c, cj)
                            if cc is FALSE:
                                continue
                            new.append((cc, o, off + j * stride))
                    if not new:
                        raise Abort('index provably out of range')
                    alts = new
                cur_ty = self.F.types[cur_ty].get('elem')
            elif k == 'ci':
                if e[3]:
                    raise Abort('from_end constant index')
                alts = [(c, o, (off + e[1] * e[4]) if off is not None else None) for (c, o, off) in alts]
                cur_ty = self.F.types[cur_ty].get('elem')
            else:
                raise Abort('projection %s' % k)
        return alts, meta

    def _ptr_alts(self, pv):
        if not isinstance(pv, T):
            raise Abort('non-scalar pointer value')
        if pv.op == 'ptr':
            return [(None, pv.args[0], pv.args[1])]
        if pv.op == 'ite':
            c = pv.args[0]
            out = []
            for (c2, o, off) in self._ptr_alts(pv.args[1]):
                out.append((c if c2 is None else tm.b_and(c, c2), o, off))
            nc = tm.b_not(c)
            for (c2, o, off) in self._ptr_alts(pv.args[2]):
                out.append((nc if c2 is None else tm.b_and(nc, c2), o, off))
            return out
        raise Abort('deref of non-pointer value %s' % tm.show(pv, 0, 3))

    def _log_access(self, fr, p, alts, size, kind):
        if not any(e[0] == 'd' for e in p[1]):
            return
        for (c, o, off) in alts:
            if o.kind == 'arg' or o.kind == 'const':
                self.mem_events.append(('access', fr.body['d'], None, o.id, off, size, 1, dict(tm.ASSUME_LB), kind))

    def read_place(self, fr, p):
        alts, meta = self.eval_place(fr, p)
        tyid = p[2]
        size = self.F.types[tyid]['sz']
        if size is None and self.F.types[tyid].get('k') in ('slice', 'str', 'dyn'):
            raise Abort('read of unsized place')
        if size is not None:
            self._log_access(fr, p, alts, size, 'read')
        if len(alts) == 1:
            return self.read(alts[0][1], alts[0][2], size, tyid)
        # gated read
        res = None
        for (c, o, off) in reversed(alts):
            v = self.read(o, off, size, tyid)
            res = v if res is None else self.ite_val(c, v, res)
        return res

    def ite_val(self, c, a, b):
        if isinstance(a, T) and isinstance(b, T):
            return ite(c, a, b)
        if isinstance(a, T) or isinstance(b, T):
            raise Abort('ite of scalar and aggregate')
        out = Agg(a.size)
        for off in set(a.cells) | set(b.cells):
            ca, cb = a.cells.get(off), b.cells.get(off)
            if ca is None or cb is None or ca[0] != cb[0]:
                x = ca or cb
                out.cells[off] = (x[0], ite(c, ca[1] if ca else UNINIT, cb[1] if cb else UNINIT))
            else:
                out.cells[off] = (ca[0], ite(c, ca[1], cb[1]))
        for dk in set(a.discr) | set(b.discr):
            da, db = a.discr.get(dk, UNINIT), b.discr.get(dk, UNINIT)
            out.discr[dk] = ite(c, da, db)
        return out

    def write_place(self, fr, p, val):
        alts, _ = self.eval_place(fr, p)
        tyid = p[2]
        size = self.F.types[tyid]['sz']
        if size is None and self.F.types[tyid].get('k') in ('slice', 'str', 'dyn'):
            raise Abort('write of unsized place')
        if size is not None:
            self._log_access(fr, p, alts, size, 'write')
        if len(alts) == 1:
            self.write(alts[0][1], alts[0][2], size, val)
            return
        for (c, o, off) in alts:
            old = self.read(o, off, size, tyid)
            self.write(o, off, size, self.ite_val(c, val, old))

    # ---------------------------------------------------------------- operands
    def operand(self, fr, op):
        k = op[0]
        if k == 'c' or k == 'm':
            return self.read_place(fr, op[1])
        return self.eval_const(op[1])

    def op_ty(self, fr, op):
        if op[0] in 'cm':
            return op[1][2]
        k = op[1]
        return k[-1] if isinstance(k[-1], int) else None

    # ---------------------------------------------------------------- rvalues
    def rvalue(self, fr, rv, dest_ty):
        k = rv[0]
        if k == 'use':
            return self.operand(fr, rv[1])
        if k == 'ref':
            alts, meta = self.eval_place(fr, rv[1])
            pt = None
            for (c, o, off) in reversed(alts):
                p = tm.ptr(o.id, off if off is not None else 0)
                pt = p if pt is None else ite(c, p, pt)
            if self.is_fat(dest_ty):
                ps = self.F.ptr_size
                out = Agg(2 * ps)
                out.cells[0] = (ps, pt)
                if meta is None:
                    raise Abort('fat reference without metadata')
                out.cells[ps] = (ps, meta)
                return out
            return pt
        if k == 'cast':
            return self.cast(fr, rv)
        if k == 'bin':
            return self.binop(fr, rv)
        if k == 'un':
            return self.unop(fr, rv)
        if k == 'disc':
            alts, _ = self.eval_place(fr, rv[1])
            tyid = rv[1][2]
            res = None
            for (c, o, off) in reversed(alts):
                d = self.read_discr(o, off, tyid)
                res = d if res is None else ite(c, d, res)
            # discriminant values are compared as 128-bit in switch targets; normalise width
            return self._discr_to(res, dest_ty)
        if k == 'agg':
            return self.aggregate(fr, rv, dest_ty)
        if k == 'rep':
            v = self.operand(fr, rv[1])
            t = self.F.types[dest_ty]
            out = Agg(t['sz'])
            for j in range(rv[2]):
                self._put(out, j * t['stride'], t['elem'], v)
            return out
        raise Abort('rvalue %s' % (rv[:2],))

    def _discr_to(self, d, dest_ty):
        sz = self.F.types[dest_ty]['sz']
        if tm.is_const(d):
            return const(tm.cbits(d) & ((1 << (8 * sz)) - 1), sz)
        if d.op == 'ite':
            return ite(d.args[0], self._discr_to(d.args[1], dest_ty), self._discr_to(d.args[2], dest_ty))
        return d

    def read_discr(self, obj, off, tyid):
        d = obj.discr.get((off, tyid))
        if d is not None:
            return d
        oq = obj.cells.get('opq')
        if oq is not None or off is None or self.F.types[tyid]['sz'] is None:
            base = oq[1] if oq is not None else tm.top(obj.deps(), 'opaque-discr')
            return mk('discr_of', base)
        t = self.F.types[tyid]
        vinfo = t.get('variants')
        if vinfo is None:
            raise Abort('discriminant of non-enum %s' % t['n'])
        if 'single' in vinfo:
            return const(int(vinfo['vs'][vinfo['single']]['discr']), 16)
        if obj.lazy is not None:
            v = obj.lazy(self, obj, off, 0, ('discr', tyid))
            if v is not None:
                return v
        toff, tsz = vinfo['tag']
        tag = self.read(obj, off + toff, tsz, None)
        if vinfo['enc'] == 'direct':
            if tm.is_const(tag):
                return const(tm.cbits(tag), 16)
            return tag
        if isinstance(tag, T) and tag is UNINIT:
            return UNINIT
        return mk('niche_discr', tag, tyid)

    def cast(self, fr, rv):
        kind, op, tid, fid = rv[1], rv[2], rv[3], rv[4]
        v = self.operand(fr, op)
        if kind in ('IntToInt', 'FloatToInt', 'FloatToFloat', 'IntToFloat'):
            ft = self.F.types[fid]
            if 'variants' in ft:
                # fieldless enum `as` integer: discriminant value
                d = v.discr.get((0, fid)) if not isinstance(v, T) else v
                if d is None:
                    raise Abort('enum cast without discriminant')
                tn = self.sname(tid)
                tsz = self.F.types[tid]['sz']

                def conv(x, depth=0):
                    if tm.is_const(x):
                        return const(tm.cbits(x) & ((1 << (8 * tsz)) - 1), tsz)
                    if x.op == 'ite' and depth < 64:
                        a, b = conv(x.args[1], depth + 1), conv(x.args[2], depth + 1)
                        if a is not None and b is not None:
                            return ite(x.args[0], a, b)
                    return None
                r = conv(d)
                if r is not None:
                    return r
                return mk('cast', 'IntToInt', 'discr', tn, d)
            if not isinstance(v, T):
                raise Abort('numeric cast of aggregate')
            return tm.cast(kind, self.sname(fid), self.sname(tid), v)
        if kind in ('PtrToPtr', 'FnPtrToPtr', 'Coerce:MutToConstPointer', 'Coerce:ArrayToPointer', 'Subtype'):
            if self.is_fat(fid) and not self.is_fat(tid):
                return v.cells[0][1]
            return v
        if kind == 'Transmute':
            fs, ts = self.F.types[fid]['sz'], self.F.types[tid]['sz']
            if fs != ts:
                raise Abort('transmute size mismatch')
            fsc, tsc = self.is_scalar(fid), self.is_scalar(tid)
            if fsc and tsc:
                return v
            if fsc and not tsc:
                out = Agg(ts)
                out.cells[0] = (ts, v)
                tmp = self.new_obj(ts, 'transmute', 'tmp')
                self.write(tmp, 0, ts, out)
                r = self.read(tmp, 0, ts, tid)
                del self.heap[tmp.id]
                return r
            if not fsc and tsc:
                tmp = self.new_obj(ts, 'transmute', 'tmp')
                self.write(tmp, 0, ts, v)
                r = self.read(tmp, 0, ts, tid)
                del self.heap[tmp.id]
                return r
            return v
        if kind == 'Coerce:Unsize':
            ft, tt = self.F.types[fid], self.F.types[tid]
            pointee = self.F.types[ft['to']]
            if pointee.get('k') == 'array' and tt.get('fat') == 'slice':
                ps = self.F.ptr_size
                out = Agg(2 * ps)
                out.cells[0] = (ps, v)
                out.cells[ps] = (ps, const(pointee['count'], ps))
                return out
            if tt.get('fat') == 'dyn':
                ps = self.F.ptr_size
                out = Agg(2 * ps)
                out.cells[0] = (ps, v)
                out.cells[ps] = (ps, mk('vtable', ft['to']))
                return out
            raise Abort('unsize coercion %s -> %s' % (ft['n'], tt['n']))
        if kind.startswith('Coerce:ReifyFnPointer') or kind.startswith('Coerce:ClosureFnPointer'):
            k = op[1] if op[0] == 'k' else None
            if k is not None and k[0] == 'fn':
                return mk('fn', k[1]['k'])
            return tm.top(self.val_deps(v), 'fnptr')
        raise Abort('cast kind %s' % kind)

    FBIN = {'Add': 'fadd', 'Sub': 'fsub', 'Mul': 'fmul', 'Div': 'fdiv', 'Rem': 'frem',
            'Eq': 'feq', 'Ne': 'fne', 'Lt': 'flt', 'Le': 'fle', 'Gt': 'fgt', 'Ge': 'fge'}
    IBIN = {'Add': 'add', 'Sub': 'sub', 'Mul': 'mul', 'Div': 'div', 'Rem': 'rem',
            'AddUnchecked': 'add', 'SubUnchecked': 'sub', 'MulUnchecked': 'mul',
            'BitXor': 'xor', 'BitAnd': 'and', 'BitOr': 'or', 'Shl': 'shl', 'Shr': 'shr',
            'ShlUnchecked': 'shl', 'ShrUnchecked': 'shr',
            'Eq': 'eq', 'Ne': 'ne', 'Lt': 'lt', 'Le': 'le', 'Gt': 'gt', 'Ge': 'ge'}

    def binop(self, fr, rv):
        op, a, b, aty, bty = rv[1], rv[2], rv[3], rv[4], rv[5]
        x, y = self.operand(fr, a), self.operand(fr, b)
        tn = self.sname(aty)
        if op == 'Offset':
            pointee = self.F.types[aty].get('to')
            esz = self.F.types[pointee]['sz']
            if x.op == 'ptr' and tm.is_const(y):
                k = tm.to_signed(tm.cbits(y), tm.csize(y))
                return tm.ptr(x.args[0], x.args[1] + k * esz)
            return mk('ptroff', x, y, esz)
        if not isinstance(x, T) or not isinstance(y, T):
            if op == 'Cmp':
                raise Abort('three-way compare of aggregates')
            raise Abort('binop on aggregate')
        if tn in ('f32', 'f64'):
            return tm.f2(self.FBIN[op], x, y)
        if tn == 'bool':
            if op == 'BitAnd':
                return tm.b_and(x, y)
            if op == 'BitOr':
                return tm.b_or(x, y)
            if op == 'BitXor' or op == 'Ne':
                return tm.b_xor(x, y)
            if op == 'Eq':
                return tm.b_not(tm.b_xor(x, y))
            raise Abort('bool binop %s' % op)
        if tn == 'ptr':
            if op in ('Eq', 'Ne') and x.op == 'ptr' and y.op == 'ptr':
                r = x is y
                return TRUE if (r == (op == 'Eq')) else FALSE
            return mk('ptrcmp', op, x, y)
        if tn.startswith('i') or tn.startswith('u'):
            if op in ('AddWithOverflow', 'SubWithOverflow', 'MulWithOverflow'):
                base = op[:3].lower()
                sz = int(tn[1:]) // 8
                out = Agg(None)
                out.cells[0] = (sz, tm.iop(base, tn, x, y))
                # flag lives right after the value in the (T, bool) tuple layout; offset fixed by caller
                out.cells['flag'] = (1, tm.iop(base + '.ovf', tn, x, y))
                return out
            if op == 'Cmp':
                lt = tm.iop('lt', tn, x, y)
                eq = tm.iop('eq', tn, x, y)
                return mk('ordering', lt, eq)
            if op in ('Shl', 'Shr', 'ShlUnchecked', 'ShrUnchecked'):
                # shift count may have another integer type; normalise to u32 value semantics
                return tm.iop(self.IBIN[op], tn, x, self._as_count(y, self.sname(bty)))
            return tm.iop(self.IBIN[op], tn, x, y)
        raise Abort('binop %s on %s' % (op, tn))

    def _as_count(self, y, yty):
        if tm.is_const(y):
            return const(tm.cbits(y), 4) if tm.csize(y) != 4 else y
        return mk('count', yty, y)

    def unop(self, fr, rv):
        op, a, aty = rv[1], rv[2], rv[3]
        x = self.operand(fr, a)
        if op == 'PtrMetadata':
            if isinstance(x, T):
                return Agg(0)
            return x.cells[self.F.ptr_size][1]
        tn = self.sname(aty)
        if tn in ('f32', 'f64'):
            if op == 'Neg':
                return tm.f1('fneg', x)
        elif tn == 'bool':
            if op == 'Not':
                return tm.b_not(x)
        elif tn[0] in 'iu':
            return tm.iun('neg' if op == 'Neg' else 'not', tn, x)
        raise Abort('unop %s on %s' % (op, tn))

    def aggregate(self, fr, rv, dest_ty):
        kind, tid, variant, active, ops = rv[1], rv[2], rv[3], rv[4], rv[5]
        t = self.F.types[tid]
        vals = [self.operand(fr, o) for o in ops]
        if t['sz'] is None and kind not in ('rawptr',):
            # aggregate of a type with unknown layout (generic): keep the operands as an opaque constructor term
            flat = []
            for v in vals:
                if isinstance(v, T):
                    flat.append(v)
                else:
                    for o in sorted(k_ for k_ in v.cells if k_ != 'opq'):
                        flat.append(v.cells[o][1])
                    if 'opq' in v.cells:
                        flat.append(v.cells['opq'][1])
            return mk('agg', t['n'], variant, *flat)
        out = Agg(t['sz'])
        if kind == 'array':
            for j, v in enumerate(vals):
                self._put(out, j * t['stride'], t['elem'], v)
            return out
        if kind == 'rawptr':
            if self.is_fat(tid):
                ps = self.F.ptr_size
                out.cells[0] = (ps, vals[0])
                out.cells[ps] = (ps, vals[1])
                return out
            return vals[0]
        if 'variants' in t:
            vs = t['variants']['vs'][variant]
            out.discr[(0, tid)] = const(int(vs['discr']) & ((1 << 128) - 1), 16)
            fields = vs['fields']
        else:
            fields = t.get('fields')
            if fields is None:
                raise Abort('aggregate of %s' % t['n'])
        if active >= 0:
            (off, fid, _n) = fields[active]
            self._put(out, off, fid, vals[0])
            return out
        for (off, fid, _n), v in zip(fields, vals):
            self._put(out, off, fid, v)
        if self.is_scalar(tid):
            return out.cells[0][1]
        return out

    # ---------------------------------------------------------------- control
    def pdom(self, body):
        key = body['key']
        r = self._pdom.get(key)
        if r is not None:
            return r
        blocks = body['blocks']
        n = len(blocks)
        EXIT = n
        succ = [[] for _ in range(n + 1)]
        for i, bb in enumerate(blocks):
            if bb is None:
                continue
            t = bb['t']
            k = t[0]
            if k == 'goto':
                succ[i] = [t[1]]
            elif k == 'sw':
                succ[i] = list(dict.fromkeys([x[1] for x in t[2]] + [t[3]]))
            elif k == 'ret':
                succ[i] = [EXIT]
            elif k == 'call':
                succ[i] = [t[4]] if t[4] is not None else []
            elif k == 'assert':
                succ[i] = [t[4]]
            else:
                succ[i] = []
        # blocks that can reach EXIT
        pred = [[] for _ in range(n + 1)]
        for i in range(n):
            for s in succ[i]:
                pred[s].append(i)
        reach = set([EXIT])
        st = [EXIT]
        while st:
            x = st.pop()
            for p in pred[x]:
                if p not in reach:
                    reach.add(p)
                    st.append(p)
        # post-dominator sets (iterative), restricted to reaching blocks
        nodes = [i for i in range(n) if i in reach]
        full = set(nodes) | {EXIT}
        pd = {i: set(full) for i in nodes}
        pd[EXIT] = {EXIT}
        changed = True
        while changed:
            changed = False
            for i in nodes:
                ss = [s for s in succ[i] if s in reach]
                if not ss:
                    continue
                new = set(pd[ss[0]])
                for s in ss[1:]:
                    new &= pd[s]
                new.add(i)
                if new != pd[i]:
                    pd[i] = new
                    changed = True
        ipd = {}
        for i in nodes:
            cands = pd[i] - {i}
            # the immediate post-dominator is the candidate post-dominated by... all others dominate it
            best = None
            for c in cands:
                if all((o == c) or (o in pd[c]) for o in cands):
                    best = c
                    break
            ipd[i] = best
        r = (ipd, reach, EXIT)
        self._pdom[key] = r
        return r

    def exec_from(self, fr, bb, stop):
        """run from block bb until reaching `stop` (a block index or EXIT marker)
        -> ('at'|'ret'|'div', )  heap is self.heap"""
        body = fr.body
        blocks = body['blocks']
        ipd, reach, EXIT = self.pdom(body)
        while True:
            if bb == stop:
                return 'at'
            self.steps += 1
            if self.steps > self.max_steps:
                raise Abort('step budget exceeded (loop?)')
            blk = blocks[bb]
            for s in blk['s']:
                self.stmt(fr, s)
            t = blk['t']
            k = t[0]
            if k == 'goto':
                bb = t[1]
            elif k == 'ret':
                return 'ret' if stop in (None, EXIT) else 'ret'
            elif k == 'unr':
                return 'div'
            elif k == 'call':
                r = self.do_call(fr, t)
                if r == 'div' or t[4] is None:
                    return 'div'
                bb = t[4]
            elif k == 'assert':
                c = self.operand(fr, t[1])
                fails = tm.b_not(c) if t[2] else c
                if fails is not FALSE:
                    detail = t[5]
                    self.record_panic('assert:' + t[3], fails, fr, t[6], detail if isinstance(detail, str) else 'bounds')
                    if fails is TRUE:
                        return 'div'
                    self.assume_true(tm.b_not(fails))
                bb = t[4]
            elif k == 'sw':
                d = self.operand(fr, t[1])
                tn = self.sname(t[4])
                if not isinstance(d, T):
                    raise Abort('switch on aggregate')
                targets = t[2]
                if d.op == 'discr':
                    d = d.args[0]
                if tm.is_const(d):
                    v = tm.cbits(d)
                    sz = self.F.types[t[4]]['sz']
                    v &= (1 << (8 * sz)) - 1
                    nxt = t[3]
                    for (val, tb) in targets:
                        if int(val) == v:
                            nxt = tb
                            break
                    bb = nxt
                    continue
                # symbolic switch: run every arm to the immediate post-dominator and merge
                j = ipd.get(bb) if bb in reach else None
                conds = []
                if tn == 'bool':
                    for (val, tb) in targets:
                        conds.append((tm.b_not(d) if int(val) == 0 else d, tb))
                else:
                    for (val, tb) in targets:
                        conds.append((self._sw_eq(d, int(val), t[4]), tb))
                arms = []  # (cond, status, heap)
                base_heap = self.heap
                neg = []
                for (c, tb) in conds:
                    if c is FALSE:
                        continue
                    # value arms of one switch are mutually exclusive (distinct constants)
                    arms.append((c, tb))
                    neg.append(tm.b_not(c))
                    if c is TRUE:
                        break
                else:
                    arms.append((tm.b_and(*neg), t[3]))
                results = []
                amark = self.assume_mark()
                for (c, tb) in arms:
                    if c is FALSE:
                        continue
                    self.assume_reset(amark)
                    self.assume_true(c)
                    self.heap = {k_: v_.clone() for k_, v_ in base_heap.items()}
                    self.pathcond.append(c)
                    if tb not in reach and j is not None:
                        st = self.exec_from(fr, tb, None)
                    else:
                        st = self.exec_from(fr, tb, j)
                    self.pathcond.pop()
                    results.append((c, st, self.heap))
                self.assume_reset(amark)
                live = [(c, st, h) for (c, st, h) in results if st != 'div']
                if len(live) == 1:
                    self.assume_true(live[0][0])
                if not live:
                    self.heap = base_heap
                    return 'div'
                sts = set(st for (_, st, _) in live)
                if len(sts) > 1:
                    raise Abort('arms ended inconsistently (at/ret)')
                merged = live[-1][2]
                for (c, st, h) in reversed(live[:-1]):
                    merged = self.merge_heaps(c, h, merged)
                self.heap = merged
                st = live[0][1]
                if st == 'ret':
                    return 'ret'
                if j is None or j == EXIT:
                    return 'ret'
                bb = j
            else:
                raise Abort('terminator %s' % (t[:2],))

    def _sw_eq(self, d, val, tyid):
        t = self.F.types[tyid]
        sz = t['sz']
        tn = self.sname(tyid)
        if tn == '?':
            tn = 'u%d' % (8 * sz)
        if d.op == 'cast' and d.args[0] == 'IntToInt' and d.args[1] == 'discr':
            d = d.args[3]
        if d.op == 'ite':
            return ite(d.args[0], self._sw_eq(d.args[1], val, tyid), self._sw_eq(d.args[2], val, tyid))
        if tm.is_const(d):
            return TRUE if (tm.cbits(d) & ((1 << (8 * sz)) - 1)) == val else FALSE
        return tm.iop('eq', tn, d, const(val, sz))

    def assume_true(self, c):
        """c is known to hold on the rest of the current path (the other outcome diverged)"""
        for x in (c.args if c.op == 'and' else (c,)):
            ub = None
            if x.op == 'not' and x.args[0].op.startswith('lt:u'):
                a_, b_ = x.args[0].args
                # !(a < b)  ==  b <= a
                if tm.is_const(b_):
                    self._set_lb(a_, tm.cbits(b_))
                elif tm.is_const(a_):
                    self._set_ub(b_, tm.cbits(a_))
                continue
            if x.op.startswith('lt:u') and tm.is_const(x.args[1]):
                t, ub = x.args[0], tm.cbits(x.args[1]) - 1
            elif x.op.startswith('le:u') and tm.is_const(x.args[1]):
                t, ub = x.args[0], tm.cbits(x.args[1])
            elif x.op.startswith('eq:') and (tm.is_const(x.args[0]) or tm.is_const(x.args[1])):
                k, t = (x.args[0], x.args[1]) if tm.is_const(x.args[0]) else (x.args[1], x.args[0])
                ub = tm.cbits(k)
            if ub is not None and ub >= 0:
                old = tm.ASSUME_UB.get(t.id)
                if old is None or ub < old:
                    self.assume.append((t.id, old, 'ub'))
                    tm.ASSUME_UB[t.id] = ub
            lb = None
            if x.op.startswith('lt:u') and tm.is_const(x.args[0]):
                t, lb = x.args[1], tm.cbits(x.args[0]) + 1
            elif x.op.startswith('le:u') and tm.is_const(x.args[0]):
                t, lb = x.args[1], tm.cbits(x.args[0])
            elif x.op.startswith('eq:u') and (tm.is_const(x.args[0]) or tm.is_const(x.args[1])):
                k, t = (x.args[0], x.args[1]) if tm.is_const(x.args[0]) else (x.args[1], x.args[0])
                lb = tm.cbits(k)
            if lb is not None:
                old = tm.ASSUME_LB.get(t.id)
                if old is None or lb > old:
                    self.assume.append((t.id, old, 'lb'))
                    tm.ASSUME_LB[t.id] = lb

    def _set_lb(self, t, lb):
        old = tm.ASSUME_LB.get(t.id)
        if old is None or lb > old:
            self.assume.append((t.id, old, 'lb'))
            tm.ASSUME_LB[t.id] = lb

    def _set_ub(self, t, ub):
        old = tm.ASSUME_UB.get(t.id)
        if old is None or ub < old:
            self.assume.append((t.id, old, 'ub'))
            tm.ASSUME_UB[t.id] = ub

    def assume_mark(self):
        return len(self.assume)

    def assume_reset(self, mark):
        while len(self.assume) > mark:
            tid, old, which = self.assume.pop()
            d = tm.ASSUME_UB if which == 'ub' else tm.ASSUME_LB
            if old is None:
                d.pop(tid, None)
            else:
                d[tid] = old

    def record_panic(self, kind, cond, fr, line, detail):
        full = tm.b_and(cond, *self.pathcond)
        if full is FALSE:
            return
        dirty = False
        if self.marker is not None:
            m = self.heap.get(self.marker)
            dirty = m is not None and 0 in m.cells
        self.panics.append(PanicSite(kind, full, fr.body['d'], fr.body['file'], line, tuple(self.stack), detail, dirty))

    # ---------------------------------------------------------------- statements
    def stmt(self, fr, s):
        k = s[0]
        if k == 'a':
            place, rv = s[1], s[2]
            v = self.rvalue(fr, rv, place[2])
            if not isinstance(v, T) and 'flag' in v.cells:
                # (T, bool) result of a *WithOverflow op: place the flag at the tuple's field offset
                t = self.F.types[place[2]]
                flag = v.cells.pop('flag')
                v.cells[t['fields'][1][0]] = flag
                v.size = t['sz']
            self.write_place(fr, place, v)
        elif k == 'sd':
            alts, _ = self.eval_place(fr, s[1])
            tyid = s[1][2]
            t = self.F.types[tyid]
            d = const(int(t['variants']['vs'][s[2]]['discr']) & ((1 << 128) - 1), 16)
            for (c, o, off) in alts:
                if c is None:
                    o.discr[(off, tyid)] = d
                else:
                    o.discr[(off, tyid)] = ite(c, d, o.discr.get((off, tyid), UNINIT))
        elif k == 'assume':
            pass
        elif k == 'cp':
            src, dst, cnt = self.operand(fr, s[1]), self.operand(fr, s[2]), self.operand(fr, s[3])
            self.mem_copy(fr, src, dst, cnt, s[4])
        else:
            raise Abort('statement %s' % k)

    def mem_copy(self, fr, src, dst, cnt, esz):
        if not tm.is_const(cnt):
            raise Abort('copy_nonoverlapping with symbolic count')
        n = tm.cbits(cnt) * esz
        sa, da = self._ptr_alts(src), self._ptr_alts(dst)
        if len(sa) != 1 or len(da) != 1:
            raise Abort('copy through gated pointer')
        so, do = self.heap[sa[0][1]], self.heap[da[0][1]]
        v = self.read(so, sa[0][2], n, -1 if n else None) if False else self._read_raw(so, sa[0][2], n)
        self.mem_events.append(('access', fr.body['d'], None, so.id, sa[0][2], n, 1, dict(tm.ASSUME_LB), 'read'))
        self.mem_events.append(('access', fr.body['d'], None, do.id, da[0][2], n, 1, dict(tm.ASSUME_LB), 'write'))
        self.write(do, da[0][2], n, v)

    def _read_raw(self, obj, off, size):
        if obj.lazy is not None:
            # materialise lazily created cells at element granularity
            obj.lazy(self, obj, off, size, 'touch')
        out = Agg(size)
        for (o, s, t) in self._gather(obj, off, size):
            lo, hi = max(o, off), min(o + s, off + size)
            if lo == o and hi == o + s:
                out.cells[o - off] = (s, t)
            else:
                out.cells[lo - off] = (hi - lo, mk('extract', t, lo - o, hi - lo))
        for (o, tid), d in obj.discr.items():
            if off <= o < off + size:
                out.discr[(o - off, tid)] = d
        return out

    # ---------------------------------------------------------------- calls
    _NORM = {}

    def norm_path(self, d):
        r = self._NORM.get(d)
        if r is None:
            r = _STD_RE.sub('core::', d)
            self._NORM[d] = r
        return r

    def do_call(self, fr, t):
        callee, argops, dest, target, line = t[1], t[2], t[3], t[4], t[5]
        if 'ptr' in callee:
            fv = self.operand(fr, callee['ptr'])
            if isinstance(fv, T) and fv.op == 'fn' and self.F.has_body(fv.args[0]):
                args = [self.operand(fr, a) for a in argops]
                res = self.call_body(fv.args[0], args, line)
                if res is None:
                    return 'div'
                self.write_place(fr, dest, res)
                return 'ok'
            args = [self.operand(fr, a) for a in argops]
            return self.opaque_call(fr, {'d': 'fnptr', 'k': 'fnptr'}, args, dest, target, line, argops)
        d = self.norm_path(callee['d'])
        args = [self.operand(fr, a) for a in argops]
        if self.trace_calls is not None:
            self.trace_calls.append((fr.body['d'], d))
        fn = None
        xl = self.opts.get('extra_leaf')
        if xl is not None:
            fn = xl.get(d)
        if fn is None:
            fn = self.leaf.get(d)
        if fn is not None:
            res = fn(self, fr, callee, args, dest[2], argops, line)
            if res is DIVERGE:
                return 'div'
            if res is not NOTLEAF:
                if target is None:
                    return 'div'
                if res is not None:
                    self.write_place(fr, dest, res)
                return 'ok'
        if target is None:
            # diverging call: a panic site
            self.record_panic('call:' + d, TRUE, fr, line, self._panic_detail(d, args))
            return 'div'
        if callee.get('body') and self.F.has_body(callee['k']):
            res = self.call_body(callee['k'], args, line)
            if res is None:
                return 'div'
            self.write_place(fr, dest, res)
            return 'ok'
        return self.opaque_call(fr, callee, args, dest, target, line, argops)

    def _panic_detail(self, d, args):
        return ''

    def opaque_call(self, fr, callee, args, dest, target, line, argops=None):
        d = self.norm_path(callee['d'])
        self.unknown_callees[d] = self.unknown_callees.get(d, 0) + 1
        deps = set()
        tys = [self.op_ty(fr, o) for o in argops] if argops is not None else [None] * len(args)
        for a, ty in zip(args, tys):
            deps |= self.typed_deps(a, ty)
        for c in self.pathcond:
            deps |= c.deps
        self.opaque_calls.append((d, frozenset(deps), fr.body['d'], line))
        if self.opts.get('log_opaque_effects'):
            import tables as _tb
            k = len(self.effects)
            tok = tm.atom('eff#%d:%s' % (k, d.rsplit('::', 1)[-1]))
            self.effects.append((d, tuple(_tb.describe_arg(self, fr, a, ty) for a, ty in zip(args, tys)), tuple(self.pathcond), fr.body['d'], tok))
            deps = set(deps) | {tok}
        # havoc memory writable through the arguments (typed extents, `&mut` / `*mut` only)
        for a, ty in zip(args, tys):
            self.typed_havoc(a, ty, deps)
        res = self.top_value(dest[2], deps, 'call:' + d)
        self.write_place(fr, dest, res)
        return 'ok'

    # typed reachability -------------------------------------------------------------
    def typed_deps(self, v, tyid, seen=None):
        """dependency set of a value of static type tyid, following pointers only over the
        extent their pointee type covers"""
        if seen is None:
            seen = set()
        if tyid is None:
            return self.val_deps(v)
        d = set()
        for (t, lt, mut) in self._typed_leaves(v, tyid):
            d |= t.deps
            if lt is not None:
                self._follow(t, lt, seen, d, None, False)
        return d

    def typed_havoc(self, v, tyid, deps, seen=None):
        if seen is None:
            seen = set()
        if tyid is None:
            self._havoc_reachable(v, deps, seen)
            return
        for (t, lt, mut) in self._typed_leaves(v, tyid):
            if lt is not None:
                self._follow(t, lt, seen, None, deps, False)

    def _typed_leaves(self, v, tyid):
        """-> list of (term, pointer-leaf type or None, _)"""
        t = self.F.types[tyid]
        if isinstance(v, T):
            if t.get('k') == 'ptr':
                return [(v, tyid, None)]
            return [(v, None, None)]
        out = []
        try:
            lv = self.leaves(tyid)
        except Abort:
            return [(c[1], None, None) for c in v.cells.values()] + [(x, None, None) for x in v.discr.values()]
        covered = set()
        skip = self.opts.get('skip_offsets')
        hid = set(skip(tyid)) if skip is not None else ()
        for (off, sz, lt) in lv:
            if sz == 0:
                dv = v.discr.get((off, lt[1])) if isinstance(lt, tuple) else None
                if dv is not None:
                    out.append((dv, None, None))
                continue
            c = v.cells.get(off)
            if c is None:
                continue
            covered.add(off)
            if off in hid:
                # not part of the value of that type (hidden lane); opaque code can only observe it
                # through the public API, which is analysed on its own
                continue
            if lt == -1:
                out.append((c[1], None, None))
            elif self.F.types[lt].get('k') == 'ptr':
                # fat pointers: metadata handled by _follow through the enclosing value
                meta = v.cells.get(off + self.F.ptr_size)
                out.append((c[1], (lt, meta[1] if (meta and self.is_fat(lt)) else None), None))
            else:
                out.append((c[1], None, None))
        for off, c in v.cells.items():
            if off not in covered:
                out.append((c[1], None, None))
        return out

    def _follow(self, pt, lt, seen, dout, hdeps, _unused):
        """follow pointer term pt of pointer type lt; collect deps into dout and/or havoc with hdeps"""
        meta = None
        if isinstance(lt, tuple):
            lt, meta = lt
        t = self.F.types[lt]
        pointee = t.get('to')
        pt_t = self.F.types[pointee]
        mut = t.get('mut')
        for (oid, off) in self.ptr_targets(pt):
            obj = self.heap.get(oid)
            if obj is None:
                continue
            size = pt_t['sz']
            elem = None
            if size is None and pt_t.get('k') == 'dyn' and meta is not None and meta.op == 'vtable':
                # `&dyn Trait` coerced from a concrete `&U`: the extent is U's
                pointee = meta.args[0]
                pt_t = self.F.types[pointee]
                size = pt_t['sz']
            if size is None and pt_t.get('k') == 'slice' and meta is not None and tm.is_const(meta):
                size = tm.cbits(meta) * pt_t['stride']
                elem = pt_t['elem']
            key = (oid, off, size, hdeps is not None and mut)
            if key in seen:
                continue
            seen.add(key)
            if size is None:
                # unknown extent: whole object
                if dout is not None:
                    dout |= self.val_deps(obj, True)
                    if obj.lazy is not None:
                        dout |= obj.lazy(self, obj, None, None, 'deps')
                if hdeps is not None and mut and obj.kind != 'const':
                    self._havoc_obj(obj, 0, None, hdeps)
                continue
            if obj.lazy is not None and size:
                obj.lazy(self, obj, off, size, 'touch')
            region = self._read_raw_nolazy(obj, off, size)
            if elem is not None:
                n = size // max(1, pt_t['stride'])
                for j in range(n):
                    sub = self._sub(region, j * pt_t['stride'], self.F.types[elem]['sz'])
                    for (t2, lt2, _m) in self._typed_leaves(sub, elem):
                        if dout is not None:
                            dout |= t2.deps
                        if lt2 is not None:
                            self._follow(t2, lt2, seen, dout, hdeps, False)
            else:
                for (t2, lt2, _m) in self._typed_leaves(region if not self.is_scalar(pointee) else (region.cells.get(0, (0, UNINIT))[1]), pointee):
                    if dout is not None:
                        dout |= t2.deps
                    if lt2 is not None:
                        self._follow(t2, lt2, seen, dout, hdeps, False)
            if hdeps is not None and mut and obj.kind != 'const':
                self._havoc_obj(obj, off, size, hdeps)

    def _sub(self, ag, off, size):
        out = Agg(size)
        for o, c in ag.cells.items():
            if off <= o < off + size:
                out.cells[o - off] = c
        for (o, tid), dv in ag.discr.items():
            if off <= o < off + size:
                out.discr[(o - off, tid)] = dv
        return out

    def _read_raw_nolazy(self, obj, off, size):
        out = Agg(size)
        for (o, s, t) in self._gather(obj, off, size):
            lo, hi = max(o, off), min(o + s, off + size)
            if lo == o and hi == o + s:
                out.cells[o - off] = (s, t)
            else:
                out.cells[lo - off] = (hi - lo, mk('extract', t, lo - o, hi - lo))
        for (o, tid), dv in obj.discr.items():
            if off <= o < off + size:
                out.discr[(o - off, tid)] = dv
        return out

    def _havoc_obj(self, obj, off, size, deps):
        for o in list(obj.cells):
            sz, old = obj.cells[o]
            if size is not None and not (o < off + size and off < o + sz):
                continue
            if old.op == 'ptr':
                continue
            obj.cells[o] = (sz, tm.top(set(deps) | old.deps, 'havoc'))
        for dk in list(obj.discr):
            if size is None or off <= dk[0] < off + size:
                obj.discr[dk] = tm.top(set(deps) | obj.discr[dk].deps, 'havoc')

    def _havoc_reachable(self, v, deps, seen):
        ts = [v] if isinstance(v, T) else [t for (_, t) in v.cells.values()]
        for t in ts:
            for (oid, _off) in self.ptr_targets(t):
                if oid in seen:
                    continue
                seen.add(oid)
                o = self.heap.get(oid)
                if o is None or o.kind == 'const':
                    continue
                inner = list(o.cells.values())
                self._havoc_obj(o, 0, None, deps)
                for (_, it) in inner:
                    self._havoc_reachable(it, deps, seen)

    def call_body(self, key, args, line=None):
        body = self.F.body(key)
        if body is None:
            raise Abort('no body for %s' % key)
        if len(self.stack) > 80:
            raise Abort('call depth')
        fr = Frame(body, key)
        locs = body['locals']
        argc = body['argc']
        # closures called through Fn* traits: untuple the argument pack
        if len(args) != argc:
            if len(args) == 2 and not isinstance(args[1], T):
                tup = args[1]
                new = [args[0]]
                # split tuple cells by the callee's parameter types
                tmp = self.new_obj(tup.size, 'argpack', 'tmp')
                self.write(tmp, 0, tup.size or 0, tup)
                # tuple field offsets: recover from callee arg sizes via caller tuple type is not
                # available here; use sequential layout of cells sorted by offset
                offs = sorted(tup.cells)
                cur = 0
                for i in range(2, argc + 1):
                    sz = self.F.types[locs[i]]['sz']
                    if sz == 0:
                        new.append(Agg(0))
                        continue
                    # find next cell offset >= cur aligned to the arg alignment
                    al = self.F.types[locs[i]]['al'] or 1
                    cur = (cur + al - 1) // al * al
                    new.append(self.read(tmp, cur, sz, locs[i]))
                    cur += sz
                del self.heap[tmp.id]
                args = new
            elif len(args) == 1 and argc == 2 and self.F.types[locs[2]]['sz'] == 0:
                args = args + [Agg(0)]
            else:
                raise Abort('arity mismatch calling %s' % key)
        for i, lt in enumerate(locs):
            o = self.new_obj(self.F.types[lt]['sz'], '%s::_%d' % (body['d'], i), 'local')
            self.obj_align[o.id] = self.F.types[lt]['al']
            fr.locals.append(o.id)
        for i, a in enumerate(args):
            sz = self.F.types[locs[i + 1]]['sz']
            if sz:
                self.write(self.heap[fr.locals[i + 1]], 0, sz, a)
        self.stack.append((body['d'], line))
        try:
            st = self.exec_from(fr, 0, None)
        finally:
            self.stack.pop()
        if st == 'div':
            for o in fr.locals:
                self.heap.pop(o, None)
            return None
        rt = locs[0]
        rsz = self.F.types[rt]['sz']
        ret_obj = self.heap[fr.locals[0]]
        res = self.read(ret_obj, 0, rsz, rt) if rsz != 0 else Agg(0)
        # free locals (pointers into them cannot legally escape)
        for o in fr.locals:
            self.heap.pop(o, None)
        return res


class _Marker(object):
    def __init__(self, n):
        self.n = n

    def __repr__(self):
        return self.n


DIVERGE = _Marker('DIVERGE')
NOTLEAF = _Marker('NOTLEAF')


def _const_lazy(alloc_id):
    def lazy(I, obj, off, size, tyid):
        a = I.F.allocs[alloc_id]
        if a['k'] != 'mem':
            raise Abort('read of non-memory const alloc')
        data = bytes.fromhex(a['bytes'])
        if tyid == 'deps':
            return set()
        if tyid == 'touch':
            # materialise as bytes-granular? use 1-byte const cells lazily on demand
            for i in range(off, off + size):
                if not I._overlaps(obj, i, 1):
                    obj.cells[i] = (1, const(data[i], 1))
            return None
        if isinstance(tyid, tuple):
            return None
        if tyid is None or tyid == -1:
            # untyped scalar read
            for (o, aid) in a['rel']:
                if o == off:
                    return I._decode_ptr(data, a['rel'], off)
            v = const(int.from_bytes(data[off:off + size], 'little'), size)
            obj.cells[off] = (size, v)
            return v
        v = I.decode_bytes(data, a['rel'], off, tyid)
        I.write(obj, off, size, v)
        return I.read(obj, off, size, tyid)
    return lazy
