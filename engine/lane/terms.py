"""Hash-consed first-order terms (global value numbering domain) with exact canonicalisation.

Vocabulary (see DESIGN 3.2):  atoms, constants (raw bits + byte size), float primitives
(fadd fsub fmul fdiv frem fneg fabs fma sqrt floor ceil trunc round roundeven fmin fmax
copysign ...), float predicates (feq fne flt fle fgt fge), integer ops tagged with their
type ("add:i32"), casts, boolean connectives, ite(c,a,b), m32/m64 (lane masks built from a
boolean), ptr(obj,off), top (unknown value with an over-approximated dependency set).

Only rewrites valid for every bit pattern (up to -0 == +0 and NaN == NaN, which the
properties themselves grant) are applied here.  No associativity, no distribution.
"""
import struct

_TABLE = {}
_NEXT = [0]


class T(object):
    __slots__ = ('op', 'args', 'id', 'deps', '_h')

    def __init__(self, op, args, deps):
        self.op = op
        self.args = args
        self.deps = deps
        self.id = _NEXT[0]
        _NEXT[0] += 1

    def __repr__(self):
        return show(self)

    def __hash__(self):
        return self.id

    def __eq__(self, o):
        return self is o

    def __ne__(self, o):
        return self is not o

    def __lt__(self, o):
        return self.id < o.id


_EMPTY = frozenset()


def _key(op, args):
    return (op,) + tuple(a.id if isinstance(a, T) else ('r', a) for a in args)


def mk(op, *args):
    k = _key(op, args)
    t = _TABLE.get(k)
    if t is None:
        deps = _EMPTY
        for a in args:
            if isinstance(a, T) and a.deps:
                deps = a.deps if not deps else (deps | a.deps)
        t = T(op, args, deps)
        _TABLE[k] = t
    return t


def atom(name):
    k = ('atom', ('r', name))
    t = _TABLE.get(k)
    if t is None:
        t = T('atom', (name,), None)
        t.deps = frozenset([t])
        _TABLE[k] = t
    return t


_TOPN = [0]


def top(deps, tag=''):
    """A fresh unknown value depending (at most) on `deps` (a set of atoms)."""
    _TOPN[0] += 1
    t = T('top', (_TOPN[0], tag), frozenset(deps))
    return t


def const(bits, size):
    return mk('c', int(bits), int(size))


UNINIT = mk('uninit')
TRUE = const(1, 1)
FALSE = const(0, 1)


def is_const(t):
    return t.op == 'c'


def cbits(t):
    return t.args[0]


def csize(t):
    return t.args[1]


def to_signed(v, size):
    bits = size * 8
    v &= (1 << bits) - 1
    if v >> (bits - 1):
        v -= 1 << bits
    return v


def f_of(t):
    """float value of a constant term (by its size)"""
    b, s = t.args
    if s == 4:
        return struct.unpack('<f', struct.pack('<I', b))[0]
    if s == 8:
        return struct.unpack('<d', struct.pack('<Q', b))[0]
    raise ValueError('float size')


def fconst(v, size):
    if size == 4:
        return const(struct.unpack('<I', struct.pack('<f', v))[0], 4)
    return const(struct.unpack('<Q', struct.pack('<d', v))[0], 8)


def ptr(obj, off):
    return mk('ptr', obj, off)


# ---------------------------------------------------------------------------
# boolean connectives

def b_not(a):
    if a is TRUE:
        return FALSE
    if a is FALSE:
        return TRUE
    if a.op == 'not':
        return a.args[0]
    neg = {'feq': 'fne', 'fne': 'feq'}  # (flt/fle etc. are NOT complements: NaN)
    if a.op in neg:
        return mk(neg[a.op], *a.args)
    if a.op.startswith('eq:'):
        return mk('ne:' + a.op[3:], *a.args)
    if a.op.startswith('ne:'):
        return mk('eq:' + a.op[3:], *a.args)
    return mk('not', a)


def _flat(op, xs):
    out = []
    for x in xs:
        if x.op == op:
            out.extend(x.args)
        else:
            out.append(x)
    return out


def b_and(*xs):
    xs = _flat('and', xs)
    ys = []
    seen = set()
    for x in xs:
        if x is FALSE:
            return FALSE
        if x is TRUE or x.id in seen:
            continue
        seen.add(x.id)
        ys.append(x)
    for y in ys:
        if b_not(y).id in seen:
            return FALSE
    if not ys:
        return TRUE
    if len(ys) == 1:
        return ys[0]
    # -k <= d && d <= k  is  |d| <= k  (also for NaN: both are false), the same for the strict pair
    for cmp_ in ('fle', 'flt'):
        lows = [y for y in ys if y.op == cmp_ and is_const(y.args[0]) and not is_const(y.args[1]) and csize(y.args[0]) in (4, 8)]
        for lo in lows:
            for hi in ys:
                if hi.op == cmp_ and hi.args[0] is lo.args[1] and is_const(hi.args[1]) and csize(hi.args[1]) == csize(lo.args[0]):
                    k_ = f_of(hi.args[1])
                    if k_ > 0 and f_of(lo.args[0]) == -k_:
                        rest = [y for y in ys if y is not lo and y is not hi]
                        return b_and(f2(cmp_, f1('fabs', lo.args[1]), hi.args[1]), *rest)
    ys.sort()
    return mk('and', *ys)


def b_or(*xs):
    xs = _flat('or', xs)
    ys = []
    seen = set()
    for x in xs:
        if x is TRUE:
            return TRUE
        if x is FALSE or x.id in seen:
            continue
        seen.add(x.id)
        ys.append(x)
    for y in ys:
        if b_not(y).id in seen:
            return TRUE
    if not ys:
        return FALSE
    if len(ys) == 1:
        return ys[0]
    ys.sort()
    return mk('or', *ys)


def b_xor(a, b):
    if a is FALSE:
        return b
    if b is FALSE:
        return a
    if a is TRUE:
        return b_not(b)
    if b is TRUE:
        return b_not(a)
    if a is b:
        return FALSE
    if b < a:
        a, b = b, a
    return mk('xor', a, b)


def ite(c, a, b):
    if c is TRUE:
        return a
    if c is FALSE:
        return b
    if a is b:
        return a
    if c.op == 'not':
        return ite(c.args[0], b, a)
    if c.op == 'feq' and c.args[0] is c.args[1]:
        # x == x  is  !(x != x): one canonical NaN test
        return ite(mk('fne', c.args[0], c.args[0]), b, a)
    # boolean-valued ite of constants
    if a is TRUE and b is FALSE:
        return c
    if a is FALSE and b is TRUE:
        return b_not(c)
    # boolean ite with one constant arm is a connective (short-circuit && / ||)
    if a is TRUE:
        return b_or(c, b)
    if b is FALSE:
        return b_and(c, a)
    if a is FALSE:
        return b_and(b_not(c), b)
    if b is TRUE:
        return b_or(b_not(c), a)
    # ite(c, all-ones, 0) is the lane mask of c
    if is_const(a) and is_const(b) and csize(a) == csize(b) and csize(a) in (1, 2, 4, 8) and not (csize(a) == 1 and cbits(a) <= 1 and cbits(b) <= 1):
        ones = (1 << (8 * csize(a))) - 1
        if cbits(a) == ones and cbits(b) == 0:
            return mask(c, csize(a))
        if cbits(a) == 0 and cbits(b) == ones:
            return mask(b_not(c), csize(a))
    # ite(c, ite(c, x, y), z) = ite(c, x, z)
    if a.op == 'ite' and a.args[0] is c:
        a = a.args[1]
    if b.op == 'ite' and b.args[0] is c:
        b = b.args[2]
    if a is b:
        return a
    # short-circuit && / ||:  ite(c1, ite(c2, x, y), y) = ite(c1 && c2, x, y);  ite(c1, x, ite(c2, x, y)) = ite(c1 || c2, x, y)
    if a.op == 'ite' and a.args[2] is b:
        return ite(b_and(c, a.args[0]), a.args[1], b)
    if b.op == 'ite' and b.args[1] is a:
        return ite(b_or(c, b.args[0]), a, b.args[2])
    # integer min / max written as a comparison-select (total order: exact for every input)
    if c.op[:3] in ('lt:', 'le:') and len(c.args) == 2:
        x, y = c.args
        ty = c.op[3:]
        if (a is x and b is y):
            return iop('min', ty, x, y)
        if (a is y and b is x):
            return iop('max', ty, x, y)
    # lift masks: ite(c, m32(x), m32(y)) = m32(ite(c,x,y))
    if a.op == b.op and a.op in ('m32', 'm64', 'm8', 'm16'):
        return mk(a.op, ite(c, a.args[0], b.args[0]))
    return mk('ite', c, a, b)


# ---------------------------------------------------------------------------
# float primitives

COMMUT = {'fadd', 'fmul', 'fmin', 'fmax', 'feq', 'fne'}


def f1(op, a):
    if op == 'fneg':
        if a.op == 'fneg':
            return a.args[0]
        if is_const(a):
            s = csize(a)
            return const(cbits(a) ^ (1 << (s * 8 - 1)), s)
    if op == 'fabs':
        if a.op in ('fneg', 'fabs'):
            return f1('fabs', a.args[0]) if a.op == 'fneg' else a
        if is_const(a):
            s = csize(a)
            return const(cbits(a) & ((1 << (s * 8 - 1)) - 1), s)
    return mk(op, a)


def _fcmp_const(op, a, b):
    x, y = f_of(a), f_of(b)
    r = {'feq': x == y, 'fne': x != y, 'flt': x < y, 'fle': x <= y, 'fgt': x > y, 'fge': x >= y}[op]
    return TRUE if r else FALSE


def f2(op, a, b):
    if op == 'fsub':
        # a - b == a + (-b) exactly in IEEE arithmetic
        return f2('fadd', a, f1('fneg', b))
    if op in ('fgt', 'fge'):
        op = {'fgt': 'flt', 'fge': 'fle'}[op]
        a, b = b, a
    if op in ('feq', 'fne', 'flt', 'fle') and is_const(a) and is_const(b) and csize(a) == csize(b):
        return _fcmp_const(op, a, b)
    if op in COMMUT and b < a:
        a, b = b, a
    if op == 'fmul':
        # x*2 == x+x exactly
        for x, y in ((a, b), (b, a)):
            if is_const(x) and f_of(x) == 2.0:
                return f2('fadd', y, y)
    return mk(op, a, b)


def fma(a, b, c):
    if b < a:
        a, b = b, a
    return mk('fma', a, b, c)


# ---------------------------------------------------------------------------
# integer primitives.  ty = (bits, signed)

def ity(bits, signed):
    return ('i' if signed else 'u') + str(bits)


def ity_parse(s):
    return int(s[1:]), s[0] == 'i'


def _wrap(v, bits):
    return v & ((1 << bits) - 1)


def _val(t, bits, signed):
    v = cbits(t) & ((1 << bits) - 1)
    if signed and v >> (bits - 1):
        v -= 1 << bits
    return v


_BITSY_OPS = ('bits', 'b2i', 'm8', 'm16', 'm32', 'm64', 'signbits')
ICOMMUT = {'add', 'mul', 'and', 'or', 'xor', 'eq', 'ne', 'min', 'max'}


def bits_of(t, n):
    """view an integer term as a list of n bit terms (booleans) if it is a `bits` term or
    a constant; else None"""
    if t.op == 'bits':
        bs = list(t.args)
        if len(bs) >= n:
            return bs[:n]
        return bs + [FALSE] * (n - len(bs))
    if is_const(t):
        v = cbits(t)
        return [TRUE if (v >> i) & 1 else FALSE for i in range(n)]
    if t.op == 'b2i':
        return [t.args[0]] + [FALSE] * (n - 1)
    if t.op in ('m8', 'm16', 'm32', 'm64'):
        return [t.args[0]] * n
    if t.op == 'signbits':
        return [FALSE] * (n - 1) + [signbit(t.args[0])]
    return None


def mk_bits(bs):
    if len(bs) in (8, 16, 32, 64) and all(b is bs[0] for b in bs) and bs[0] is not TRUE and bs[0] is not FALSE:
        return mask(bs[0], len(bs) // 8)
    if all(b is TRUE or b is FALSE for b in bs):
        v = 0
        for i, b in enumerate(bs):
            if b is TRUE:
                v |= 1 << i
        return const(v, max(1, len(bs) // 8))
    return mk('bits', *bs)


def iop(op, ty, a, b):
    """binary integer op on type ty (string like 'i32'); wrapping semantics for add/sub/mul"""
    bits, signed = ity_parse(ty)
    size = bits // 8
    if is_const(a) and is_const(b):
        x, y = _val(a, bits, signed), _val(b, bits, signed)
        r = None
        if op == 'add':
            r = x + y
        elif op == 'sub':
            r = x - y
        elif op == 'mul':
            r = x * y
        elif op == 'and':
            r = x & y
        elif op == 'or':
            r = x | y
        elif op == 'xor':
            r = x ^ y
        elif op == 'shl':
            r = x << (cbits(b) % bits)
        elif op == 'shr':
            r = x >> (cbits(b) % bits)
        elif op == 'div' and y != 0:
            q = abs(x) // abs(y)
            r = q if (x < 0) == (y < 0) else -q
        elif op == 'rem' and y != 0:
            q = abs(x) // abs(y)
            q = q if (x < 0) == (y < 0) else -q
            r = x - q * y
        elif op in ('eq', 'ne', 'lt', 'le', 'gt', 'ge'):
            rr = {'eq': x == y, 'ne': x != y, 'lt': x < y, 'le': x <= y, 'gt': x > y, 'ge': x >= y}[op]
            return TRUE if rr else FALSE
        elif op == 'add.ovf':
            rr = not (-(1 << (bits - 1)) <= x + y < (1 << (bits - 1))) if signed else not (0 <= x + y < (1 << bits))
            return TRUE if rr else FALSE
        elif op == 'sub.ovf':
            rr = not (-(1 << (bits - 1)) <= x - y < (1 << (bits - 1))) if signed else not (0 <= x - y < (1 << bits))
            return TRUE if rr else FALSE
        elif op == 'mul.ovf':
            rr = not (-(1 << (bits - 1)) <= x * y < (1 << (bits - 1))) if signed else not (0 <= x * y < (1 << bits))
            return TRUE if rr else FALSE
        if r is not None:
            return const(_wrap(r, bits), size)
    if op in ('gt', 'ge'):
        op = {'gt': 'lt', 'ge': 'le'}[op]
        a, b = b, a
    # (x << 1) >> 1 on an unsigned lane clears exactly the top bit
    if op == 'shr' and not signed and is_const(b) and cbits(b) == 1 and a.op == 'shl:' + ty and is_const(a.args[1]) and cbits(a.args[1]) == 1 and size in (4, 8):
        return lane_bitop('and', a.args[0], const(((1 << bits) - 1) >> 1, size), size)
    # unsigned x % 2^k == x & (2^k - 1), x / 2^k == x >> k  (exact for every value)
    if not signed and op in ('rem', 'div') and is_const(b) and not is_const(a):
        kb = cbits(b)
        if kb and (kb & (kb - 1)) == 0:
            if op == 'rem':
                return iop('and', ty, a, const(kb - 1, size))
            return iop('shr', ty, a, const(kb.bit_length() - 1, 4))
    # distribute over gated constants (enum-derived indices): op(ite(c, k1, k2), k) = ite(c, op(k1,k), op(k2,k))
    if is_const(b) and a.op == 'ite' and _const_leaves(a):
        return ite(a.args[0], iop(op, ty, a.args[1], b), iop(op, ty, a.args[2], b))
    if is_const(a) and b.op == 'ite' and _const_leaves(b):
        return ite(b.args[0], iop(op, ty, a, b.args[1]), iop(op, ty, a, b.args[2]))
    # popcount of k possibly-set bits compared with a constant: == k is "all set", == 0 is "none set"
    if op in ('eq', 'ne') and ((a.op == 'popcnt' and is_const(b)) or (b.op == 'popcnt' and is_const(a))):
        pc, kc = (a, b) if a.op == 'popcnt' else (b, a)
        kv = cbits(kc)
        r_ = None
        if kv == len(pc.args):
            r_ = b_and(*pc.args)
        elif kv == 0:
            r_ = b_not(b_or(*pc.args))
        elif kv > len(pc.args):
            r_ = FALSE
        if r_ is not None:
            return r_ if op == 'eq' else b_not(r_)
    # bit-level reasoning (movemask & 7, == 7, != 0, >> k)
    if op == 'lt' and not signed and is_const(a) and cbits(a) == 0 and b.op in _BITSY_OPS:
        bb0 = bits_of(b, bits)
        if bb0 is not None:
            return b_or(*bb0)      # 0 < x  (unsigned)  ==  x != 0
    if op in ('and', 'or', 'xor', 'eq', 'ne', 'shr', 'shl'):
        ba, bb = bits_of(a, bits), bits_of(b, bits)
        if ba is not None and bb is not None and (a.op in _BITSY_OPS or b.op in _BITSY_OPS):
            if op == 'and':
                return mk_bits([b_and(x, y) for x, y in zip(ba, bb)])
            if op == 'or':
                return mk_bits([b_or(x, y) for x, y in zip(ba, bb)])
            if op == 'xor':
                return mk_bits([b_xor(x, y) for x, y in zip(ba, bb)])
            if op == 'eq':
                return b_and(*[b_not(b_xor(x, y)) for x, y in zip(ba, bb)])
            if op == 'ne':
                return b_or(*[b_xor(x, y) for x, y in zip(ba, bb)])
            if op == 'shr' and is_const(b) and not signed:
                k = cbits(b) % bits
                return mk_bits(ba[k:] + [FALSE] * k)
            if op == 'shl' and is_const(b):
                k = cbits(b) % bits
                return mk_bits([FALSE] * k + ba[:bits - k])
    # identities valid for all values
    if op in ('add', 'or', 'xor') and is_const(b) and cbits(b) == 0:
        return a
    if op in ('add', 'or', 'xor') and is_const(a) and cbits(a) == 0:
        return b
    if op in ('sub', 'shl', 'shr') and is_const(b) and cbits(b) == 0:
        return a
    if op == 'mul':
        if is_const(b) and cbits(b) == 1:
            return a
        if is_const(a) and cbits(a) == 1:
            return b
    if op == 'le':
        # total order: a <= b  ==  !(b < a)   (one canonical comparison per pair)
        return b_not(iop('lt', ty, b, a))
    if op == 'lt' and is_const(b) and not signed and ASSUME_LB:
        lb = ASSUME_LB.get(a.id)
        if lb is not None and lb >= cbits(b):
            return FALSE
    if op in ('eq', 'ne') and (is_const(a) or is_const(b)):
        k, x = (a, b) if is_const(a) else (b, a)
        if x.op == 'ite' and _const_leaves(x):
            return ite(x.args[0], iop(op, ty, x.args[1], k), iop(op, ty, x.args[2], k))
        if not signed or _val(k, bits, signed) >= 0:
            hi = upper_bound(x, bits)
            if hi is not None and hi < cbits(k):
                return FALSE if op == 'eq' else TRUE
    if op in ('eq', 'le') and a is b:
        return TRUE
    if op in ('ne', 'lt') and a is b:
        return FALSE
    if op in ('add.ovf', 'sub.ovf') and is_const(b) and cbits(b) == 0:
        return FALSE
    if op in ('lt',) and not signed and is_const(b) and cbits(b) == 0:
        return FALSE
    if op in ('lt', 'le') and is_const(a) and not signed and ASSUME_LB:
        lb = ASSUME_LB.get(b.id)
        if lb is not None:
            k = cbits(a)
            if (op == 'lt' and k < lb) or (op == 'le' and k <= lb):
                return TRUE
    # range reasoning for `b2i(x) < 2`, `x % 3 < 3`
    if op in ('lt', 'le') and is_const(b):
        hi = upper_bound(a, bits)
        if hi is not None:
            lim = _val(b, bits, signed)
            if (op == 'lt' and hi < lim) or (op == 'le' and hi <= lim):
                return TRUE
    if op in ICOMMUT and b < a:
        a, b = b, a
    return mk(op + ':' + ty, a, b)


def _const_leaves(t, depth=0):
    if is_const(t):
        return True
    if t.op == 'ite' and depth < 40:
        return _const_leaves(t.args[1], depth + 1) and _const_leaves(t.args[2], depth + 1)
    return False


def _nonneg(t):
    if is_const(t):
        return True
    return t.op in ('discr_atom', 'b2i', 'bits') or (t.op == 'ite' and _nonneg(t.args[1]) and _nonneg(t.args[2]))


ASSUME_LB = {}   # term id -> unsigned lower bound known on the current path
ASSUME_UB = {}   # term id -> unsigned upper bound known on the current path (set by the interpreter)


def upper_bound(t, bits):
    """a sound unsigned upper bound of an integer term, or None"""
    if is_const(t):
        return cbits(t)
    if ASSUME_UB:
        ub = ASSUME_UB.get(t.id)
        if ub is not None:
            return ub
    if t.op == 'b2i':
        return 1
    if t.op == 'discr_atom':
        return t.args[1] if t.args[1] >= 0 else None
    if t.op == 'bits':
        v = 0
        for i, b in enumerate(t.args):
            if b is not FALSE:
                v |= 1 << i
        return v
    if t.op.startswith('rem:u') and is_const(t.args[1]) and cbits(t.args[1]) > 0:
        return cbits(t.args[1]) - 1
    if t.op.startswith('sub:u') and is_const(t.args[1]):
        # only sound when no wrap-around: callers guard with a `0 < x` test; keep conservative
        return None
    if t.op.startswith('and:') and (is_const(t.args[0]) or is_const(t.args[1])):
        c = t.args[0] if is_const(t.args[0]) else t.args[1]
        return cbits(c)
    if t.op == 'ite':
        a, b = upper_bound(t.args[1], bits), upper_bound(t.args[2], bits)
        if a is not None and b is not None:
            return max(a, b)
    if t.op == 'cast' and t.args[0] == 'IntToInt':
        # zero-extension / truncation of an unsigned bounded value keeps the bound
        return upper_bound(t.args[3], bits) if _nonneg(t.args[3]) else None
    return None


def iun(op, ty, a):
    bits, signed = ity_parse(ty)
    if is_const(a):
        x = _val(a, bits, signed)
        if op == 'neg':
            return const(_wrap(-x, bits), bits // 8)
        if op == 'not':
            return const(_wrap(~x, bits), bits // 8)
    if op == 'neg' and a.op == 'b2i':
        return mask(a.args[0], bits // 8)          # 0 - (b as uN): zero or all ones
    if op == 'not':
        m = mask_bool(a)
        if m is not None and a.op in ('m8', 'm16', 'm32', 'm64'):
            return mask(b_not(m), bits // 8)
        ba = bits_of(a, bits) if a.op in ('bits', 'b2i') else None
        if ba is not None:
            return mk_bits([b_not(x) for x in ba])
        if a.op == 'not:' + ty:
            return a.args[0]
    return mk(op + ':' + ty, a)


def cast(kind, fty, tty, a):
    """fty/tty strings: i8..u64/usize as ('i64'), f32, f64, bool, char"""
    if a.op == 'ite' and _const_leaves(a) and kind == 'IntToInt':
        return ite(a.args[0], cast(kind, fty, tty, a.args[1]), cast(kind, fty, tty, a.args[2]))
    if fty == tty and kind in ('IntToInt', 'FloatToFloat'):
        return a
    if kind == 'IntToInt' and fty == 'bool':
        # bool -> int
        tb = int(tty[1:])
        if is_const(a):
            return const(cbits(a), tb // 8)
        return mk_b2i(a, tb)
    if kind == 'IntToInt' and is_const(a):
        fb, fs = ity_parse(fty)
        tb, ts = ity_parse(tty)
        return const(_wrap(_val(a, fb, fs), tb), tb // 8)
    if kind == 'IntToInt':
        fb, fs = ity_parse(fty)
        tb, ts = ity_parse(tty)
        ba = bits_of(a, fb) if a.op in ('bits', 'b2i') else None
        if ba is not None:
            if tb <= fb:
                return mk_bits(ba[:tb])
            return mk_bits(ba + [ba[-1] if fs else FALSE] * (tb - fb))
    if kind == 'IntToFloat' and is_const(a):
        fb, fs = ity_parse(fty)
        v = _val(a, fb, fs)
        if abs(v) < (1 << 24):
            return fconst(float(v), 4 if tty == 'f32' else 8)
    if kind == 'FloatToFloat' and is_const(a) and tty == 'f64':
        return fconst(f_of(a), 8)
    return mk('cast', kind, fty, tty, a)


def mk_b2i(b, bits):
    if b is TRUE:
        return const(1, bits // 8)
    if b is FALSE:
        return const(0, bits // 8)
    return mk('b2i', b, bits)


def i2b(t):
    """integer (0/1) -> boolean term"""
    if is_const(t):
        return TRUE if cbits(t) & 1 else FALSE
    if t.op == 'b2i':
        return t.args[0]
    if t.op == 'bits':
        return t.args[0]
    return t  # booleans are stored as 1-byte terms already


# lane masks ---------------------------------------------------------------

def mask(b, size):
    op = {1: 'm8', 2: 'm16', 4: 'm32', 8: 'm64'}[size]
    if b is TRUE:
        return const((1 << (size * 8)) - 1, size)
    if b is FALSE:
        return const(0, size)
    return mk(op, b)


def mask_bool(t):
    """if t is a canonical lane mask return its boolean, else None"""
    if t.op in ('m8', 'm16', 'm32', 'm64'):
        return t.args[0]
    if is_const(t):
        s = csize(t)
        if cbits(t) == 0:
            return FALSE
        if cbits(t) == (1 << (s * 8)) - 1:
            return TRUE
    if t.op == 'ite':
        a, b = mask_bool(t.args[1]), mask_bool(t.args[2])
        if a is not None and b is not None:
            return ite(t.args[0], a, b)
    return None


def lane_bitop(op, a, b, size):
    """bitwise and/or/xor/andnot on float-or-mask lanes with the exact idioms of DESIGN 3.4.1.
    andnot(a,b) = (~a) & b"""
    sign = 1 << (size * 8 - 1)
    allones = (1 << (size * 8)) - 1
    if _bitsy(a) or _bitsy(b):
        xa, xb = as_bits(a, size * 8), as_bits(b, size * 8)
        if xa is not None and xb is not None:
            if op == 'and':
                return mk_bits([b_and(x, y) for x, y in zip(xa, xb)])
            if op == 'or':
                return mk_bits([b_or(x, y) for x, y in zip(xa, xb)])
            if op == 'xor':
                return mk_bits([b_xor(x, y) for x, y in zip(xa, xb)])
            if op == 'andnot':
                return mk_bits([b_and(b_not(x), y) for x, y in zip(xa, xb)])
    ma, mb = mask_bool(a), mask_bool(b)
    if op == 'and':
        if ma is not None and mb is not None:
            return mask(b_and(ma, mb), size)
        if ma is not None:
            return ite(ma, b, const(0, size))
        if mb is not None:
            return ite(mb, a, const(0, size))
        for x, y in ((a, b), (b, a)):
            if is_const(x):
                if cbits(x) == sign:
                    return mk('signbits', y)
                if cbits(x) == allones ^ sign:
                    return f1('fabs', y)
    elif op == 'andnot':
        if ma is not None and mb is not None:
            return mask(b_and(b_not(ma), mb), size)
        if ma is not None:
            return ite(ma, const(0, size), b)
        if mb is not None:
            return ite(mb, mk('bnot', a), const(0, size))
        if is_const(a) and cbits(a) == sign:
            return f1('fabs', b)
        if is_const(a) and cbits(a) == allones ^ sign:
            return mk('signbits', b)
        if a.op == 'signbits' and a.args[0] is b:
            return f1('fabs', b)          # clear exactly the sign bit of b
    elif op == 'or':
        if ma is not None and mb is not None:
            return mask(b_or(ma, mb), size)
        # select idiom: or(ite(c,a,0), ite(c,0,b))
        for x, y in ((a, b), (b, a)):
            if x.op == 'ite' and y.op == 'ite' and x.args[0] is y.args[0]:
                z = const(0, size)
                if x.args[2] is z and y.args[1] is z:
                    return ite(x.args[0], x.args[1], y.args[2])
            # or(ite(c,a,0), ite(!c, b, 0)) handled by ite normalisation of `not`
        # copysign idiom: or(signbits(s), fabs(m))
        for x, y in ((a, b), (b, a)):
            if x.op == 'signbits' and y.op == 'fabs':
                return mk('copysign', y.args[0], x.args[0])
            if x.op == 'signbits' and is_const(y) and not (cbits(y) & sign):
                return mk('copysign', y, x.args[0])
        for x, y in ((a, b), (b, a)):
            if is_const(x) and cbits(x) == 0:
                return y
            # or(C1, and(v, C2)) with C2 = sign | R, R subset of C1, C1 sign-clear  ==  copysign(C1, v)
            if is_const(x) and not (cbits(x) & sign) and y.op == 'band':
                for c2, v in ((y.args[0], y.args[1]), (y.args[1], y.args[0])):
                    if is_const(c2) and (cbits(c2) & sign) and ((cbits(c2) & ~sign) & ~cbits(x)) == 0:
                        return mk('copysign', x, v)
    elif op == 'xor':
        if ma is not None and mb is not None:
            return mask(b_xor(ma, mb), size)
        for x, y in ((a, b), (b, a)):
            if is_const(x) and cbits(x) == sign:
                return f1('fneg', y)
            if is_const(x) and cbits(x) == 0:
                return y
            if x.op == 'signbits':
                # xor(v, signbits(s)): flips sign of v where s negative -- keep symbolic
                pass
            # blend written with xor: f ^ (mask & (t ^ f)) == mask ? t : f
            if y.op == 'ite' and is_const(y.args[2]) and cbits(y.args[2]) == 0 and y.args[1].op == 'bxor' and x in y.args[1].args:
                t_ = y.args[1].args[0] if y.args[1].args[1] is x else y.args[1].args[1]
                return ite(y.args[0], t_, x)
    if op in ('and', 'or', 'xor') and b < a:
        a, b = b, a
    return mk('b' + op, a, b)


def _bitsy(t):
    if t.op == 'bits':
        return True
    if t.op == 'ite' and all(is_const(x) or _bitsy(x) for x in t.args[1:]):
        return True
    return False


def as_bits(t, n):
    if t.op == 'bits' or is_const(t):
        return bits_of(t, n)
    m = mask_bool(t)
    if m is not None:
        return [m] * n
    if t.op == 'ite':
        a, b = as_bits(t.args[1], n), as_bits(t.args[2], n)
        if a is not None and b is not None:
            return [ite(t.args[0], x, y) for x, y in zip(a, b)]
    return None


def signbit(t):
    """boolean: top bit of a lane"""
    m = mask_bool(t)
    if m is not None:
        return m
    if is_const(t):
        s = csize(t)
        return TRUE if (cbits(t) >> (s * 8 - 1)) & 1 else FALSE
    if t.op == 'ite':
        return ite(t.args[0], signbit(t.args[1]), signbit(t.args[2]))
    return mk('signbit', t)


# ---------------------------------------------------------------------------

def show(t, depth=0, maxdepth=12):
    if not isinstance(t, T):
        return repr(t)
    if t.op == 'atom':
        return t.args[0]
    if t.op == 'c':
        b, s = t.args
        if s in (4, 8):
            try:
                f = f_of(t)
                if f == f and (abs(f) < 1e6 and f == round(f, 6)) and (b == 0 or abs(f) > 1e-6):
                    return '%s#%g' % ('f' if s == 4 else 'd', f)
            except Exception:
                pass
        return '0x%x_%d' % (b, s)
    if t.op == 'top':
        return 'TOP%d[%s]' % (t.args[0], t.args[1])
    if depth > maxdepth:
        return '...'
    return '%s(%s)' % (t.op, ', '.join(show(a, depth + 1, maxdepth) for a in t.args))


def size_of_term_dag(t):
    seen = set()
    st = [t]
    while st:
        x = st.pop()
        if not isinstance(x, T) or x.id in seen:
            continue
        seen.add(x.id)
        st.extend(x.args)
    return len(seen)


# ---------------------------------------------------------------------------
# substitution with re-canonicalisation (rebuilds through the smart constructors)

_F1 = {'fneg', 'fabs'}
_F2 = {'fadd', 'fmul', 'fdiv', 'frem', 'fmin', 'fmax', 'feq', 'fne', 'flt', 'fle'}


def rebuild(op, args):
    if op in _F1:
        return f1(op, args[0])
    if op in _F2:
        return f2(op, args[0], args[1])
    if op == 'fma':
        return fma(args[0], args[1], args[2])
    if op == 'ite':
        return ite(args[0], args[1], args[2])
    if op == 'not':
        return b_not(args[0])
    if op == 'and':
        return b_and(*args)
    if op == 'or':
        return b_or(*args)
    if op == 'xor':
        return b_xor(args[0], args[1])
    if op in ('m8', 'm16', 'm32', 'm64'):
        return mask(args[0], {'m8': 1, 'm16': 2, 'm32': 4, 'm64': 8}[op])
    if op == 'bits':
        return mk_bits(list(args))
    if op == 'b2i':
        return mk_b2i(args[0], args[1])
    if op == 'cast':
        return cast(args[0], args[1], args[2], args[3])
    if op == 'signbit':
        return signbit(args[0])
    if ':' in op:
        name, ty = op.rsplit(':', 1)
        if name in ('add', 'sub', 'mul', 'div', 'rem', 'and', 'or', 'xor', 'shl', 'shr', 'eq', 'ne', 'lt', 'le',
                    'add.ovf', 'sub.ovf', 'mul.ovf', 'min', 'max') and len(args) == 2 and ty[:1] in 'iu' and ty[1:].isdigit():
            return iop(name, ty, args[0], args[1])
        if name in ('neg', 'not') and len(args) == 1 and ty[:1] in 'iu' and ty[1:].isdigit():
            return iun(name, ty, args[0])
    if op in ('bor', 'band', 'bxor', 'fmin_nanprop', 'fmax_nanprop'):
        a = sorted(args)
        return mk(op, *a)
    return mk(op, *args)


def subst(t, mapping, memo=None):
    """replace atoms (and other leaf terms) per `mapping` {term: term}, re-canonicalising"""
    if memo is None:
        memo = {}
    r = memo.get(t.id)
    if r is not None:
        return r
    m = mapping.get(t)
    if m is not None:
        memo[t.id] = m
        return m
    if t.op in ('atom', 'c', 'top', 'uninit', 'ptr'):
        memo[t.id] = t
        return t
    changed = False
    new = []
    for a in t.args:
        if isinstance(a, T):
            b = subst(a, mapping, memo)
            if b is not a:
                changed = True
            new.append(b)
        else:
            new.append(a)
    r = rebuild(t.op, new) if changed else t
    memo[t.id] = r
    return r


def atoms_of(t):
    return set(a for a in t.deps if a.op == 'atom')


def depth(t, memo=None):
    if memo is None:
        memo = {}
    r = memo.get(t.id)
    if r is not None:
        return r
    d = 0
    for a in t.args:
        if isinstance(a, T):
            d = max(d, 1 + depth(a, memo))
    memo[t.id] = d
    return d
