"""Parser / evaluator for #[cfg(..)] predicates guarding `mod` / `use` items (R-CFG).  Fails closed on
anything outside the grammar  all(..) | any(..) | not(..) | name | name = "value"."""
import re

TOK = re.compile(r'\s*(?:([A-Za-z_][A-Za-z0-9_]*)|"([^"]*)"|([(),=]))')


def tokenize(s):
    out = []
    i = 0
    while i < len(s):
        m = TOK.match(s, i)
        if not m:
            if s[i:].strip() == '':
                break
            raise ValueError('cfg tokenizer: %r' % s[i:i + 20])
        if m.group(1) is not None:
            out.append(('id', m.group(1)))
        elif m.group(2) is not None:
            out.append(('str', m.group(2)))
        else:
            out.append(('p', m.group(3)))
        i = m.end()
    return out


def parse(tokens, i=0):
    k, v = tokens[i]
    if k != 'id':
        raise ValueError('cfg parse: expected identifier')
    if v in ('all', 'any', 'not'):
        if tokens[i + 1] != ('p', '('):
            raise ValueError('cfg parse: expected (')
        i += 2
        args = []
        while tokens[i] != ('p', ')'):
            a, i = parse(tokens, i)
            args.append(a)
            if tokens[i] == ('p', ','):
                i += 1
        return (v, args), i + 1
    if i + 1 < len(tokens) and tokens[i + 1] == ('p', '='):
        if tokens[i + 2][0] != 'str':
            raise ValueError('cfg parse: expected string')
        return ('kv', v, tokens[i + 2][1]), i + 3
    return ('flag', v), i + 1


def parse_cfg(text):
    toks = tokenize(text)
    tree, i = parse(toks, 0)
    if i != len(toks):
        raise ValueError('cfg parse: trailing tokens')
    return tree


def evaluate(tree, env):
    """env: {'feature': set, 'target_arch': str, 'target_feature': set, flags: set}"""
    k = tree[0]
    if k == 'all':
        return all(evaluate(a, env) for a in tree[1])
    if k == 'any':
        return any(evaluate(a, env) for a in tree[1])
    if k == 'not':
        if len(tree[1]) != 1:
            raise ValueError('not() arity')
        return not evaluate(tree[1][0], env)
    if k == 'kv':
        v = env.get(tree[1])
        if v is None:
            raise ValueError('unknown cfg key %s' % tree[1])
        return tree[2] in v if isinstance(v, (set, frozenset)) else v == tree[2]
    if k == 'flag':
        return tree[1] in env.get('flags', ())
    raise ValueError(k)


def atoms(tree, out=None):
    if out is None:
        out = set()
    if tree[0] in ('all', 'any', 'not'):
        for a in tree[1]:
            atoms(a, out)
    elif tree[0] == 'kv':
        out.add((tree[1], tree[2]))
    else:
        out.add(('flag', tree[1]))
    return out


ITEM = re.compile(r'^\s*(pub(?:\([a-z]+\))?\s+)?(mod|use)\s+([^;{]+);', re.M)


def guarded_items(src):
    """-> list of (predicate tree or None, kind 'mod'|'use', text, line)"""
    out = []
    lines = src.split('\n')
    i = 0
    pending = []
    n = len(lines)
    while i < n:
        ln = lines[i]
        st = ln.strip()
        if st.startswith('#[cfg(') or st.startswith('#[cfg('):
            # collect until brackets balance
            buf = st
            depth = buf.count('(') - buf.count(')')
            j = i
            while depth > 0 or not buf.rstrip().endswith(']'):
                j += 1
                buf += ' ' + lines[j].strip()
                depth = buf.count('(') - buf.count(')')
            inner = buf[buf.index('#[cfg(') + 6: buf.rindex(')]')]
            pending.append(parse_cfg(inner))
            i = j + 1
            continue
        m = re.match(r'^(pub(?:\([a-z]+\))?\s+)?(mod|use)\s+([^;]+);\s*$', st)
        if m:
            pred = None
            if pending:
                pred = pending[0] if len(pending) == 1 else ('all', pending)
            out.append((pred, m.group(2), m.group(3).strip(), i + 1))
            pending = []
        elif st and not st.startswith('//') and not st.startswith('#['):
            pending = []
        i += 1
    return out
