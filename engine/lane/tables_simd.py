"""Leaf tables for core::simd intrinsics (simd_*), aarch64 NEON and wasm32 simd128.
Each entry: lane-wise primitive / routing with literal indices / horizontal or memory op."""
import re
import terms as tm
from terms import T, mk, const, ite, TRUE, FALSE
from interp import Agg, Abort, agg_of_lanes
from tables import LEAF, leaf, lanes, vec, cg, funord, _mem_ptr


# ---------------------------------------------------------------------------------------------
# generic platform-independent SIMD intrinsics (used by core::simd)

def simd_info(I, tyid):
    """(elem_size, count, elem kind name like 'f32'/'i32'/'u32') of a #[repr(simd)] type"""
    t = I.F.types[tyid]
    s = t.get('simd')
    if not s:
        raise Abort('not a simd type: %s' % t['n'])
    esz, n = s
    # element type: field 0 is [T; N]
    et = None
    f = t.get('fields')
    if f:
        at = I.F.types[f[0][1]]
        if at.get('k') == 'array':
            et = at['elem']
    en = I.sname(et) if et is not None else ('u%d' % (8 * esz))
    if en == 'ptr':
        en = 'u%d' % (8 * esz)
    return esz, n, en


SI = 'core::intrinsics::simd::'


def simd(*names):
    return leaf(*[SI + n for n in names])


def _arith(name, fop, iopn):
    @simd(name)
    def f(I, fr, callee, args, dest, argops, line):
        esz, n, en = simd_info(I, I.op_ty(fr, argops[0]))
        a, b = lanes(I, args[0], n, esz), lanes(I, args[1], n, esz)
        if en[0] == 'f':
            return vec([tm.f2(fop, x, y) for x, y in zip(a, b)], esz)
        return vec([tm.iop(iopn, en, x, y) for x, y in zip(a, b)], esz)
    return f


_arith('simd_add', 'fadd', 'add')
_arith('simd_sub', 'fsub', 'sub')
_arith('simd_mul', 'fmul', 'mul')
_arith('simd_div', 'fdiv', 'div')
_arith('simd_rem', 'frem', 'rem')


def _bit(name, op):
    @simd(name)
    def f(I, fr, callee, args, dest, argops, line):
        esz, n, en = simd_info(I, I.op_ty(fr, argops[0]))
        a, b = lanes(I, args[0], n, esz), lanes(I, args[1], n, esz)
        return vec([tm.lane_bitop(op, x, y, esz) for x, y in zip(a, b)], esz)
    return f


_bit('simd_and', 'and')
_bit('simd_or', 'or')
_bit('simd_xor', 'xor')


def _cmp(name, fop, iopn):
    @simd(name)
    def f(I, fr, callee, args, dest, argops, line):
        esz, n, en = simd_info(I, I.op_ty(fr, argops[0]))
        a, b = lanes(I, args[0], n, esz), lanes(I, args[1], n, esz)
        dsz, dn, _ = simd_info(I, dest)
        if en[0] == 'f':
            return vec([tm.mask(tm.f2(fop, x, y), dsz) for x, y in zip(a, b)], dsz)
        return vec([tm.mask(tm.iop(iopn, en, x, y), dsz) for x, y in zip(a, b)], dsz)
    return f


_cmp('simd_eq', 'feq', 'eq')
_cmp('simd_ne', 'fne', 'ne')
_cmp('simd_lt', 'flt', 'lt')
_cmp('simd_le', 'fle', 'le')
_cmp('simd_gt', 'fgt', 'gt')
_cmp('simd_ge', 'fge', 'ge')


def _un(name, fn):
    @simd(name)
    def f(I, fr, callee, args, dest, argops, line):
        esz, n, en = simd_info(I, I.op_ty(fr, argops[0]))
        return vec([fn(x, en) for x in lanes(I, args[0], n, esz)], esz)
    return f


_un('simd_neg', lambda x, en: tm.f1('fneg', x) if en[0] == 'f' else tm.iun('neg', en, x))
_un('simd_fabs', lambda x, en: tm.f1('fabs', x))
_un('simd_fsqrt', lambda x, en: mk('sqrt', x))
_un('simd_floor', lambda x, en: mk('floor', x))
_un('simd_ceil', lambda x, en: mk('ceil', x))
_un('simd_trunc', lambda x, en: mk('trunc', x))
_un('simd_round', lambda x, en: mk('round', x))            # ties away from zero
_un('simd_round_ties_even', lambda x, en: mk('roundeven', x))
_un('simd_fsin', lambda x, en: mk('sin', x))
_un('simd_fcos', lambda x, en: mk('cos', x))
_un('simd_fexp', lambda x, en: mk('exp', x))


@simd('simd_fma')
def _simd_fma(I, fr, callee, args, dest, argops, line):
    esz, n, en = simd_info(I, dest)
    a, b, c = [lanes(I, v, n, esz) for v in args]
    return vec([tm.fma(x, y, z) for x, y, z in zip(a, b, c)], esz)


@simd('simd_fmin', 'simd_fmax')
def _simd_fminmax(I, fr, callee, args, dest, argops, line):
    op = 'fmin' if callee['d'].endswith('simd_fmin') else 'fmax'
    esz, n, en = simd_info(I, dest)
    a, b = lanes(I, args[0], n, esz), lanes(I, args[1], n, esz)
    return vec([tm.f2(op, x, y) for x, y in zip(a, b)], esz)


@simd('simd_splat')
def _simd_splat(I, fr, callee, args, dest, argops, line):
    esz, n, en = simd_info(I, dest)
    return vec([args[0]] * n, esz)


@simd('simd_shuffle')
def _simd_shuffle(I, fr, callee, args, dest, argops, line):
    esz, n, en = simd_info(I, I.op_ty(fr, argops[0]))
    dsz, dn, _ = simd_info(I, dest)
    a, b = lanes(I, args[0], n, esz), lanes(I, args[1], n, esz)
    idx = lanes(I, args[2], dn, 4)
    src = a + b
    out = []
    for ix in idx:
        if not tm.is_const(ix):
            raise Abort('simd_shuffle with non-constant index')
        k = tm.cbits(ix)
        if k >= len(src):
            raise Abort('simd_shuffle index out of range')
        out.append(src[k])
    return vec(out, esz)


@simd('simd_select')
def _simd_select(I, fr, callee, args, dest, argops, line):
    esz, n, en = simd_info(I, dest)
    msz, mn, _ = simd_info(I, I.op_ty(fr, argops[0]))
    m, a, b = lanes(I, args[0], mn, msz), lanes(I, args[1], n, esz), lanes(I, args[2], n, esz)
    out = []
    for mi, x, y in zip(m, a, b):
        c = tm.mask_bool(mi)
        if c is None:
            c = tm.signbit(mi)
        out.append(ite(c, x, y))
    return vec(out, esz)


@simd('simd_bitmask')
def _simd_bitmask(I, fr, callee, args, dest, argops, line):
    esz, n, en = simd_info(I, I.op_ty(fr, argops[0]))
    ls = lanes(I, args[0], n, esz)
    dsz = I.F.types[dest]['sz']
    bits = [tm.signbit(l) for l in ls] + [FALSE] * (8 * dsz - n)
    v = tm.mk_bits(bits)
    if I.is_scalar(dest):
        return v
    out = Agg(dsz)
    out.cells[0] = (dsz, v)
    return out


@simd('simd_reduce_all', 'simd_reduce_any')
def _simd_reduce_bool(I, fr, callee, args, dest, argops, line):
    esz, n, en = simd_info(I, I.op_ty(fr, argops[0]))
    bs = []
    for l in lanes(I, args[0], n, esz):
        c = tm.mask_bool(l)
        bs.append(c if c is not None else tm.signbit(l))
    return tm.b_and(*bs) if callee['d'].endswith('all') else tm.b_or(*bs)


@simd('simd_reduce_add_ordered', 'simd_reduce_mul_ordered')
def _simd_reduce_ordered(I, fr, callee, args, dest, argops, line):
    esz, n, en = simd_info(I, I.op_ty(fr, argops[0]))
    op = 'add' if 'add' in callee['d'] else 'mul'
    acc = args[1]
    for l in lanes(I, args[0], n, esz):
        acc = tm.f2('f' + op, acc, l) if en[0] == 'f' else tm.iop(op, en, acc, l)
    return acc


@simd('simd_reduce_min', 'simd_reduce_max')
def _simd_reduce_minmax(I, fr, callee, args, dest, argops, line):
    esz, n, en = simd_info(I, I.op_ty(fr, argops[0]))
    op = 'min' if callee['d'].endswith('min') else 'max'
    ls = lanes(I, args[0], n, esz)
    acc = ls[0]
    for l in ls[1:]:
        acc = tm.f2('f' + op, acc, l) if en[0] == 'f' else tm.iop(op, en, acc, l)
    return acc


@simd('simd_as', 'simd_cast')
def _simd_as(I, fr, callee, args, dest, argops, line):
    esz, n, en = simd_info(I, I.op_ty(fr, argops[0]))
    dsz, dn, dn_name = simd_info(I, dest)
    kind = {('f', 'f'): 'FloatToFloat', ('f', 'i'): 'FloatToInt', ('f', 'u'): 'FloatToInt',
            ('i', 'f'): 'IntToFloat', ('u', 'f'): 'IntToFloat'}.get((en[0], dn_name[0]), 'IntToInt')
    return vec([tm.cast(kind, en, dn_name, x) for x in lanes(I, args[0], n, esz)], dsz)


@simd('simd_extract')
def _simd_extract(I, fr, callee, args, dest, argops, line):
    esz, n, en = simd_info(I, I.op_ty(fr, argops[0]))
    if not tm.is_const(args[1]):
        raise Abort('simd_extract with symbolic index')
    return lanes(I, args[0], n, esz)[tm.cbits(args[1])]


@simd('simd_insert')
def _simd_insert(I, fr, callee, args, dest, argops, line):
    esz, n, en = simd_info(I, I.op_ty(fr, argops[0]))
    if not tm.is_const(args[1]):
        raise Abort('simd_insert with symbolic index')
    ls = lanes(I, args[0], n, esz)
    ls[tm.cbits(args[1])] = args[2]
    return vec(ls, esz)


# ---------------------------------------------------------------------------------------------
# aarch64 NEON (q registers: 4 x 32-bit lanes)

def neon(*names):
    full = []
    for n in names:
        full.append('core::arch::aarch64::' + n)
        full.append('core::core_arch::aarch64::neon::' + n)
        full.append('core::core_arch::aarch64::neon::generated::' + n)
        full.append('core::core_arch::arm_shared::neon::' + n)
        full.append('core::core_arch::arm_shared::neon::generated::' + n)
    return leaf(*full)


def _n2(name, fn):
    @neon(name)
    def f(I, fr, callee, args, dest, argops, line):
        a, b = lanes(I, args[0], 4, 4), lanes(I, args[1], 4, 4)
        return vec([fn(x, y) for x, y in zip(a, b)], 4)
    return f


def _n1(name, fn):
    @neon(name)
    def f(I, fr, callee, args, dest, argops, line):
        return vec([fn(x) for x in lanes(I, args[0], 4, 4)], 4)
    return f


_n2('vaddq_f32', lambda x, y: tm.f2('fadd', x, y))
_n2('vsubq_f32', lambda x, y: tm.f2('fsub', x, y))
_n2('vmulq_f32', lambda x, y: tm.f2('fmul', x, y))
_n2('vdivq_f32', lambda x, y: tm.f2('fdiv', x, y))
# FMIN / FMAX propagate NaN; on non-NaN lanes they are min / max
_n2('vminq_f32', lambda x, y: mk('fmin_nanprop', *sorted((x, y))))
_n2('vmaxq_f32', lambda x, y: mk('fmax_nanprop', *sorted((x, y))))
_n2('vminnmq_f32', lambda x, y: tm.f2('fmin', x, y))
_n2('vmaxnmq_f32', lambda x, y: tm.f2('fmax', x, y))
_n2('vandq_u32', lambda x, y: tm.lane_bitop('and', x, y, 4))
_n2('vorrq_u32', lambda x, y: tm.lane_bitop('or', x, y, 4))
_n2('veorq_u32', lambda x, y: tm.lane_bitop('xor', x, y, 4))
_n2('vbicq_u32', lambda x, y: tm.lane_bitop('andnot', y, x, 4))
_n2('vceqq_f32', lambda x, y: tm.mask(tm.f2('feq', x, y), 4))
_n2('vcgeq_f32', lambda x, y: tm.mask(tm.f2('fge', x, y), 4))
_n2('vcgtq_f32', lambda x, y: tm.mask(tm.f2('fgt', x, y), 4))
_n2('vcleq_f32', lambda x, y: tm.mask(tm.f2('fle', x, y), 4))
_n2('vcltq_f32', lambda x, y: tm.mask(tm.f2('flt', x, y), 4))
_n1('vabsq_f32', lambda x: tm.f1('fabs', x))
_n1('vnegq_f32', lambda x: tm.f1('fneg', x))
_n1('vsqrtq_f32', lambda x: mk('sqrt', x))
_n1('vrndmq_f32', lambda x: mk('floor', x))
_n1('vrndpq_f32', lambda x: mk('ceil', x))
_n1('vrndq_f32', lambda x: mk('trunc', x))
_n1('vrndnq_f32', lambda x: mk('roundeven', x))      # FRINTN: to nearest, ties to even
_n1('vrndaq_f32', lambda x: mk('round', x))          # FRINTA: to nearest, ties away
_n1('vrecpeq_f32', lambda x: mk('neon:recpe', x))
_n1('vrsqrteq_f32', lambda x: mk('neon:rsqrte', x))
_n1('vmvnq_u32', lambda x: lane_not(x, 4))


def lane_not(x, size):
    m = tm.mask_bool(x)
    if m is not None:
        return tm.mask(tm.b_not(m), size)
    return tm.lane_bitop('xor', x, const((1 << (8 * size)) - 1, size), size)


for _n in ('vreinterpretq_f32_u32', 'vreinterpretq_u32_f32', 'vreinterpretq_f32_u64', 'vreinterpretq_u64_f32',
           'vreinterpretq_s32_f32', 'vreinterpretq_f32_s32', 'vreinterpretq_u32_s32', 'vreinterpretq_s32_u32'):
    neon(_n)(lambda I, fr, callee, args, dest, argops, line: vec(lanes(I, args[0], 4, 4), 4))


@neon('vbslq_f32', 'vbslq_u32')
def _vbsl(I, fr, callee, args, dest, argops, line):
    m, a, b = [lanes(I, v, 4, 4) for v in args]
    out = []
    for mi, x, y in zip(m, a, b):
        c = tm.mask_bool(mi)
        if c is not None:
            out.append(ite(c, x, y))
        else:
            out.append(tm.lane_bitop('or', tm.lane_bitop('and', mi, x, 4), tm.lane_bitop('andnot', mi, y, 4), 4))
    return vec(out, 4)


@neon('vfmaq_f32')
def _vfma(I, fr, callee, args, dest, argops, line):
    a, b, c = [lanes(I, v, 4, 4) for v in args]
    return vec([tm.fma(y, z, x) for x, y, z in zip(a, b, c)], 4)


@neon('vmlsq_f32')
def _vmls(I, fr, callee, args, dest, argops, line):
    # stdarch: simd_sub(a, simd_mul(b, c))  (two roundings)
    a, b, c = [lanes(I, v, 4, 4) for v in args]
    return vec([tm.f2('fsub', x, tm.f2('fmul', y, z)) for x, y, z in zip(a, b, c)], 4)


@neon('vmlaq_f32')
def _vmla(I, fr, callee, args, dest, argops, line):
    a, b, c = [lanes(I, v, 4, 4) for v in args]
    return vec([tm.f2('fadd', x, tm.f2('fmul', y, z)) for x, y, z in zip(a, b, c)], 4)


@neon('vmulq_n_f32')
def _vmul_n(I, fr, callee, args, dest, argops, line):
    return vec([tm.f2('fmul', x, args[1]) for x in lanes(I, args[0], 4, 4)], 4)


@neon('vmuls_laneq_f32')
def _vmuls_laneq(I, fr, callee, args, dest, argops, line):
    return tm.f2('fmul', args[0], lanes(I, args[1], 4, 4)[cg(callee)])


@neon('vdupq_n_f32', 'vdupq_n_u32', 'vmovq_n_f32')
def _vdup_n(I, fr, callee, args, dest, argops, line):
    return vec([args[0]] * 4, 4)


@neon('vdupq_laneq_f32', 'vdupq_laneq_u32')
def _vdup_laneq(I, fr, callee, args, dest, argops, line):
    return vec([lanes(I, args[0], 4, 4)[cg(callee)]] * 4, 4)


@neon('vextq_f32', 'vextq_u32')
def _vext(I, fr, callee, args, dest, argops, line):
    n = cg(callee)
    s = lanes(I, args[0], 4, 4) + lanes(I, args[1], 4, 4)
    return vec(s[n:n + 4], 4)


@neon('vgetq_lane_f32', 'vgetq_lane_u32')
def _vget(I, fr, callee, args, dest, argops, line):
    return lanes(I, args[0], 4, 4)[cg(callee)]


@neon('vsetq_lane_f32', 'vsetq_lane_u32')
def _vset(I, fr, callee, args, dest, argops, line):
    ls = lanes(I, args[1], 4, 4)
    ls[cg(callee)] = args[0]
    return vec(ls, 4)


@neon('vgetq_lane_u64')
def _vget64(I, fr, callee, args, dest, argops, line):
    k = cg(callee)
    ls = lanes(I, args[0], 4, 4)
    return mk('pair64', ls[2 * k], ls[2 * k + 1])


@neon('vsetq_lane_u64')
def _vset64(I, fr, callee, args, dest, argops, line):
    k = cg(callee)
    ls = lanes(I, args[1], 4, 4)
    v = args[0]
    if v.op == 'pair64':
        ls[2 * k], ls[2 * k + 1] = v.args[0], v.args[1]
    else:
        ls[2 * k], ls[2 * k + 1] = mk('extract', v, 0, 4), mk('extract', v, 4, 4)
    return vec(ls, 4)


def _perm(name, fn):
    @neon(name)
    def f(I, fr, callee, args, dest, argops, line):
        a, b = lanes(I, args[0], 4, 4), lanes(I, args[1], 4, 4)
        return vec(fn(a, b), 4)
    return f


_perm('vtrn1q_f32', lambda a, b: [a[0], b[0], a[2], b[2]])
_perm('vtrn2q_f32', lambda a, b: [a[1], b[1], a[3], b[3]])
_perm('vuzp1q_f32', lambda a, b: [a[0], a[2], b[0], b[2]])
_perm('vuzp2q_f32', lambda a, b: [a[1], a[3], b[1], b[3]])
_perm('vzip1q_f32', lambda a, b: [a[0], b[0], a[1], b[1]])
_perm('vzip2q_f32', lambda a, b: [a[2], b[2], a[3], b[3]])
_perm('vzip1q_u64', lambda a, b: [a[0], a[1], b[0], b[1]])
_perm('vzip2q_u64', lambda a, b: [a[2], a[3], b[2], b[3]])


@neon('vrev64q_f32')
def _vrev64(I, fr, callee, args, dest, argops, line):
    a = lanes(I, args[0], 4, 4)
    return vec([a[1], a[0], a[3], a[2]], 4)


@neon('vaddvq_f32')
def _vaddv(I, fr, callee, args, dest, argops, line):
    # FADDP pairwise reduction: (l0 + l1) + (l2 + l3)
    a = lanes(I, args[0], 4, 4)
    return tm.f2('fadd', tm.f2('fadd', a[0], a[1]), tm.f2('fadd', a[2], a[3]))


@neon('vminnmvq_f32', 'vmaxnmvq_f32', 'vminvq_f32', 'vmaxvq_f32')
def _vminv(I, fr, callee, args, dest, argops, line):
    name = callee['d'].rsplit('::', 1)[1]
    a = lanes(I, args[0], 4, 4)
    if 'nm' in name:
        op = 'fmin' if 'min' in name else 'fmax'
        return tm.f2(op, tm.f2(op, a[0], a[1]), tm.f2(op, a[2], a[3]))
    op = 'fmin_nanprop' if 'min' in name else 'fmax_nanprop'
    return mk(op, *sorted((mk(op, *sorted((a[0], a[1]))), mk(op, *sorted((a[2], a[3]))))))


@neon('vmaxvq_u32', 'vminvq_u32')
def _vmaxv_u32(I, fr, callee, args, dest, argops, line):
    a = lanes(I, args[0], 4, 4)
    bs = [tm.mask_bool(x) for x in a]
    name = callee['d'].rsplit('::', 1)[1]
    if all(b is not None for b in bs):
        r = tm.b_or(*bs) if 'max' in name else tm.b_and(*bs)
        return tm.mask(r, 4)
    return mk('neon:' + name, *a)


@neon('vld1q_f32', 'vld1q_u32')
def _vld1q(I, fr, callee, args, dest, argops, line):
    obj, off = _mem_ptr(I, args[0])
    I.mem_events.append(('load', fr.body['d'], line, obj.id, off, 16, 1, dict(tm.ASSUME_LB), 'vld1q'))
    return vec([I.read(obj, off + 4 * i, 4, None) for i in range(4)], 4)


@neon('vld1q_dup_f32')
def _vld1q_dup(I, fr, callee, args, dest, argops, line):
    obj, off = _mem_ptr(I, args[0])
    I.mem_events.append(('load', fr.body['d'], line, obj.id, off, 4, 1, dict(tm.ASSUME_LB), 'vld1q_dup_f32'))
    v = I.read(obj, off, 4, None)
    return vec([v] * 4, 4)


@neon('vst1q_f32', 'vst1q_u32')
def _vst1q(I, fr, callee, args, dest, argops, line):
    obj, off = _mem_ptr(I, args[0])
    I.mem_events.append(('store', fr.body['d'], line, obj.id, off, 16, 1, dict(tm.ASSUME_LB), 'vst1q'))
    ls = lanes(I, args[1], 4, 4)
    for i in range(4):
        I.write(obj, off + 4 * i, 4, ls[i])
    return Agg(0)


# ---------------------------------------------------------------------------------------------
# wasm32 simd128

def wasm(*names):
    full = []
    for n in names:
        full.append('core::arch::wasm32::' + n)
        full.append('core::core_arch::wasm32::simd128::' + n)
    return leaf(*full)


def _w2(name, fn):
    @wasm(name)
    def f(I, fr, callee, args, dest, argops, line):
        a, b = lanes(I, args[0], 4, 4), lanes(I, args[1], 4, 4)
        return vec([fn(x, y) for x, y in zip(a, b)], 4)
    return f


def _w1(name, fn):
    @wasm(name)
    def f(I, fr, callee, args, dest, argops, line):
        return vec([fn(x) for x in lanes(I, args[0], 4, 4)], 4)
    return f


_w2('f32x4_add', lambda x, y: tm.f2('fadd', x, y))
_w2('f32x4_sub', lambda x, y: tm.f2('fsub', x, y))
_w2('f32x4_mul', lambda x, y: tm.f2('fmul', x, y))
_w2('f32x4_div', lambda x, y: tm.f2('fdiv', x, y))
_w2('f32x4_eq', lambda x, y: tm.mask(tm.f2('feq', x, y), 4))
_w2('f32x4_ne', lambda x, y: tm.mask(tm.f2('fne', x, y), 4))
_w2('f32x4_lt', lambda x, y: tm.mask(tm.f2('flt', x, y), 4))
_w2('f32x4_le', lambda x, y: tm.mask(tm.f2('fle', x, y), 4))
_w2('f32x4_gt', lambda x, y: tm.mask(tm.f2('fgt', x, y), 4))
_w2('f32x4_ge', lambda x, y: tm.mask(tm.f2('fge', x, y), 4))
# pmin(a, b) = b < a ? b : a      pmax(a, b) = a < b ? b : a
_w2('f32x4_pmin', lambda x, y: ite(tm.f2('flt', y, x), y, x))
_w2('f32x4_pmax', lambda x, y: ite(tm.f2('flt', x, y), y, x))
_w2('f32x4_min', lambda x, y: mk('fmin_nanprop', *sorted((x, y))))
_w2('f32x4_max', lambda x, y: mk('fmax_nanprop', *sorted((x, y))))
_w2('v128_and', lambda x, y: tm.lane_bitop('and', x, y, 4))
_w2('v128_or', lambda x, y: tm.lane_bitop('or', x, y, 4))
_w2('v128_xor', lambda x, y: tm.lane_bitop('xor', x, y, 4))
_w2('v128_andnot', lambda x, y: tm.lane_bitop('andnot', y, x, 4))   # a AND (NOT b)
_w1('f32x4_abs', lambda x: tm.f1('fabs', x))
_w1('f32x4_neg', lambda x: tm.f1('fneg', x))
_w1('f32x4_sqrt', lambda x: mk('sqrt', x))
_w1('f32x4_floor', lambda x: mk('floor', x))
_w1('f32x4_ceil', lambda x: mk('ceil', x))
_w1('f32x4_trunc', lambda x: mk('trunc', x))
_w1('f32x4_nearest', lambda x: mk('roundeven', x))    # round to nearest, ties to even
_w1('v128_not', lambda x: lane_not(x, 4))


@wasm('f32x4', 'u32x4', 'i32x4')
def _w_ctor(I, fr, callee, args, dest, argops, line):
    return vec(list(args[:4]), 4)


@wasm('f32x4_splat', 'u32x4_splat', 'i32x4_splat')
def _w_splat(I, fr, callee, args, dest, argops, line):
    return vec([args[0]] * 4, 4)


@wasm('f32x4_extract_lane', 'u32x4_extract_lane', 'i32x4_extract_lane')
def _w_extract(I, fr, callee, args, dest, argops, line):
    return lanes(I, args[0], 4, 4)[cg(callee)]


@wasm('f32x4_replace_lane', 'u32x4_replace_lane', 'i32x4_replace_lane')
def _w_replace(I, fr, callee, args, dest, argops, line):
    ls = lanes(I, args[0], 4, 4)
    ls[cg(callee)] = args[1]
    return vec(ls, 4)


@wasm('i32x4_shuffle', 'u32x4_shuffle')
def _w_shuffle(I, fr, callee, args, dest, argops, line):
    s = lanes(I, args[0], 4, 4) + lanes(I, args[1], 4, 4)
    idx = [int(x) for x in callee['cg'][:4]]
    return vec([s[k] for k in idx], 4)


@wasm('i32x4_bitmask', 'u32x4_bitmask')
def _w_bitmask(I, fr, callee, args, dest, argops, line):
    ls = lanes(I, args[0], 4, 4)
    return tm.mk_bits([tm.signbit(l) for l in ls] + [FALSE] * 4)


@wasm('v128_bitselect')
def _w_bitselect(I, fr, callee, args, dest, argops, line):
    a, b, m = [lanes(I, v, 4, 4) for v in args]
    out = []
    for x, y, mi in zip(a, b, m):
        c = tm.mask_bool(mi)
        if c is not None:
            out.append(ite(c, x, y))
        else:
            out.append(tm.lane_bitop('or', tm.lane_bitop('and', x, mi, 4), tm.lane_bitop('andnot', mi, y, 4), 4))
    return vec(out, 4)


@wasm('v128_any_true')
def _w_any(I, fr, callee, args, dest, argops, line):
    ls = lanes(I, args[0], 4, 4)
    bs = [tm.mask_bool(l) for l in ls]
    if all(b is not None for b in bs):
        return tm.b_or(*bs)
    return mk('wasm:any_true', *ls)


@wasm('u32x4_all_true', 'i32x4_all_true')
def _w_all(I, fr, callee, args, dest, argops, line):
    ls = lanes(I, args[0], 4, 4)
    bs = [tm.mask_bool(l) for l in ls]
    if all(b is not None for b in bs):
        return tm.b_and(*bs)
    return mk('wasm:all_true', *ls)


@wasm('v128_store')
def _w_store(I, fr, callee, args, dest, argops, line):
    obj, off = _mem_ptr(I, args[0])
    I.mem_events.append(('store', fr.body['d'], line, obj.id, off, 16, 1, dict(tm.ASSUME_LB), 'v128_store'))
    ls = lanes(I, args[1], 4, 4)
    for i in range(4):
        I.write(obj, off + 4 * i, 4, ls[i])
    return Agg(0)


@wasm('v128_load')
def _w_load(I, fr, callee, args, dest, argops, line):
    obj, off = _mem_ptr(I, args[0])
    I.mem_events.append(('load', fr.body['d'], line, obj.id, off, 16, 1, dict(tm.ASSUME_LB), 'v128_load'))
    return vec([I.read(obj, off + 4 * i, 4, None) for i in range(4)], 4)


@wasm('v128_load32_splat')
def _w_load_splat(I, fr, callee, args, dest, argops, line):
    obj, off = _mem_ptr(I, args[0])
    I.mem_events.append(('load', fr.body['d'], line, obj.id, off, 4, 1, dict(tm.ASSUME_LB), 'v128_load32_splat'))
    v = I.read(obj, off, 4, None)
    return vec([v] * 4, 4)
