"""Interval abstract domain over lane terms (sound outward rounding), used for approximation certificates.

value(term) for inputs ranging over a box is enclosed by [lo, hi]:
  * every real operation is evaluated in binary64 and widened outward by one ulp (math.nextafter) - an enclosure of the exact real result;
  * the binary32 / binary64 rounding of the *analysed* operation is then added: the rounded result lies within a relative 2^-24 / 2^-53 and
    an absolute 2^-150 / 2^-1075 (subnormal) of the exact one.
Comparisons are three-valued (True / False / None); a selection whose condition is undetermined yields the hull of both branches.
Non-finite intermediate bounds raise Unbounded (the caller reports UNDECIDED for that box)."""
import math
import terms as tm

INF = float('inf')


class Unbounded(Exception):
    pass


def _up(x):
    return math.nextafter(x, INF)


def _dn(x):
    return math.nextafter(x, -INF)


def _round_slop(lo, hi, size):
    """account for the rounding of the analysed floating-point operation of `size` bytes"""
    if size == 4:
        rel, ab = 2.0 ** -24, 2.0 ** -150
    else:
        rel, ab = 2.0 ** -53, 0.0
    m = max(abs(lo), abs(hi))
    e = m * rel + ab
    return _dn(lo - e), _up(hi + e)


def _chk(lo, hi):
    if lo != lo or hi != hi or lo == -INF or hi == INF:
        raise Unbounded('non-finite bound')
    return lo, hi


class IEval(object):
    def __init__(self, env, size):
        self.env = env          # atom term -> (lo, hi)
        self.size = size        # byte size of the analysed float type (rounding model)
        self.memo = {}
        self.ref = {}           # optional: op name -> callable(lo, hi) -> (lo, hi) for opaque reference functions
        self.forced = {}        # step operation term id -> forced integer value (disjunctive completion, see eval_steps)
        self.steps = []         # step operations whose value is not determined on the box: (term, k0, k1)

    def ev(self, t):
        r = self.memo.get(t.id)
        if r is None:
            r = self._ev(t)
            self.memo[t.id] = r
        return r

    def _ev(self, t):
        op = t.op
        if op == 'atom':
            if t not in self.env:
                raise Unbounded('free atom %s' % tm.show(t))
            return self.env[t]
        if op == 'c':
            f = tm.f_of(t)
            return _chk(f, f)
        if op == 'fneg':
            lo, hi = self.ev(t.args[0])
            return (-hi, -lo)
        if op == 'fabs':
            lo, hi = self.ev(t.args[0])
            if lo >= 0:
                return (lo, hi)
            if hi <= 0:
                return (-hi, -lo)
            return (0.0, max(-lo, hi))
        if op == 'fadd':
            a, b = self.ev(t.args[0]), self.ev(t.args[1])
            lo, hi = _dn(a[0] + b[0]), _up(a[1] + b[1])
            return _chk(*_round_slop(lo, hi, self.size))
        if op == 'fmul':
            a, b = self.ev(t.args[0]), self.ev(t.args[1])
            ps = [a[0] * b[0], a[0] * b[1], a[1] * b[0], a[1] * b[1]]
            lo, hi = _dn(min(ps)), _up(max(ps))
            return _chk(*_round_slop(lo, hi, self.size))
        if op == 'fma':
            a, b, c = self.ev(t.args[0]), self.ev(t.args[1]), self.ev(t.args[2])
            ps = [a[0] * b[0], a[0] * b[1], a[1] * b[0], a[1] * b[1]]
            lo, hi = _dn(_dn(min(ps)) + c[0]), _up(_up(max(ps)) + c[1])
            return _chk(*_round_slop(lo, hi, self.size))
        if op == 'fdiv':
            a, b = self.ev(t.args[0]), self.ev(t.args[1])
            if b[0] <= 0.0 <= b[1]:
                raise Unbounded('division by an interval containing zero')
            qs = [a[0] / b[0], a[0] / b[1], a[1] / b[0], a[1] / b[1]]
            lo, hi = _dn(min(qs)), _up(max(qs))
            return _chk(*_round_slop(lo, hi, self.size))
        if op == 'sqrt':
            lo, hi = self.ev(t.args[0])
            if hi < 0:
                raise Unbounded('sqrt of a negative interval')
            lo = max(lo, 0.0)
            return _chk(*_round_slop(max(_dn(math.sqrt(lo)), 0.0), _up(math.sqrt(hi)), self.size))
        if op in ('fmin', 'fmin~', 'fmin_nanprop'):
            a, b = self.ev(t.args[0]), self.ev(t.args[1])
            return (min(a[0], b[0]), min(a[1], b[1]))
        if op in ('fmax', 'fmax~', 'fmax_nanprop'):
            a, b = self.ev(t.args[0]), self.ev(t.args[1])
            return (max(a[0], b[0]), max(a[1], b[1]))
        if op == 'ite':
            c = self.cond(t.args[0])
            if c is True:
                return self.ev(t.args[1])
            if c is False:
                return self.ev(t.args[2])
            a, b = self.ev(t.args[1]), self.ev(t.args[2])
            return (min(a[0], b[0]), max(a[1], b[1]))
        if op in ('round', 'floor', 'ceil', 'trunc'):
            if t.id in self.forced:
                k = float(self.forced[t.id])
                return (k, k)
            lo, hi = self.ev(t.args[0])
            f = {'round': lambda v: math.floor(abs(v) + 0.5) * (1 if v >= 0 else -1), 'floor': math.floor, 'ceil': math.ceil, 'trunc': math.trunc}[op]
            k0, k1 = f(lo), f(hi)       # all four are monotone non-decreasing
            if k0 != k1:
                self.steps.append((t, int(k0), int(k1)))
            return (float(k0), float(k1))
        if op == 'copysign':
            m = self.ev(t.args[0])
            s = self.ev(t.args[1])
            am = (min(abs(m[0]), abs(m[1])) if m[0] * m[1] > 0 else 0.0, max(abs(m[0]), abs(m[1])))
            if s[0] > 0:
                return am
            if s[1] < 0:
                return (-am[1], -am[0])
            return (-am[1], am[1])
        if op in self.ref:
            return self.ref[op](*[self.ev(a) for a in t.args])
        raise Unbounded('operation %s has no interval transfer function' % op)

    def cond(self, c):
        op = c.op
        if op == 'c':
            return bool(tm.cbits(c))
        if op == 'not':
            v = self.cond(c.args[0])
            return None if v is None else (not v)
        if op == 'and':
            vs = [self.cond(a) for a in c.args]
            if any(v is False for v in vs):
                return False
            return True if all(v is True for v in vs) else None
        if op == 'or':
            vs = [self.cond(a) for a in c.args]
            if any(v is True for v in vs):
                return True
            return False if all(v is False for v in vs) else None
        if op in ('flt', 'fle', 'feq', 'fne'):
            a, b = self.ev(c.args[0]), self.ev(c.args[1])
            if op == 'flt':
                return True if a[1] < b[0] else (False if a[0] >= b[1] else None)
            if op == 'fle':
                return True if a[1] <= b[0] else (False if a[0] > b[1] else None)
            if op == 'feq':
                if a[0] == a[1] == b[0] == b[1]:
                    return True
                return False if (a[1] < b[0] or b[1] < a[0]) else None
            if a[1] < b[0] or b[1] < a[0]:
                return True
            return False if a[0] == a[1] == b[0] == b[1] else None
        if op in ('m8', 'm16', 'm32', 'm64'):
            return self.cond(c.args[0])
        return None


def eval_steps(term, env, size, max_combos=8):
    """interval value of `term`, splitting on the integer value of every step operation (round/floor/ceil/trunc) that is not determined on the
    box: the concrete value is one of finitely many integers, and with it fixed the dependent terms stay correlated"""
    E = IEval(env, size)
    A = E.ev(term)
    if not E.steps:
        return A
    ops = {}
    for (t, k0, k1) in E.steps:
        ops[t.id] = (t, k0, k1)
    combos = [{}]
    for tid, (t, k0, k1) in ops.items():
        combos = [dict(list(c.items()) + [(tid, k)]) for c in combos for k in range(k0, k1 + 1)]
        if len(combos) > max_combos:
            return A
    lo, hi = INF, -INF
    for c in combos:
        E2 = IEval(env, size)
        E2.forced = c
        v = E2.ev(term)
        if E2.steps:
            return A
        lo, hi = min(lo, v[0]), max(hi, v[1])
    return (lo, hi)


def certify(term, atom, lo, hi, size, reference, tol, max_boxes=400000, min_width=1e-13, ref_ops=None):
    """prove |term(v) - reference(v)| <= tol for every v in [lo, hi] by adaptive subdivision.
    reference(a, b) -> enclosure (rlo, rhi) of the reference function on [a, b].
    -> dict(ok, boxes, worst, witness): ok True = proved; ok False with witness = a point where the bound is exceeded even by the tight point
    enclosure (definite); ok None = undecided (budget or unbounded)"""
    stack = [(lo, hi)]
    boxes = 0
    worst = 0.0
    while stack:
        a, b = stack.pop()
        boxes += 1
        if boxes > max_boxes:
            return {'ok': None, 'boxes': boxes, 'worst': worst, 'why': 'box budget exhausted at [%r, %r]' % (a, b)}
        try:
            E = IEval({atom: (a, b)}, size)
            if ref_ops:
                E.ref.update(ref_ops)
            A = E.ev(term)
            R = reference(a, b)
        except Unbounded as e:
            if b - a <= min_width:
                return {'ok': None, 'boxes': boxes, 'worst': worst, 'why': 'unbounded at [%r, %r]: %s' % (a, b, e)}
            m = 0.5 * (a + b)
            stack.append((a, m))
            stack.append((m, b))
            continue
        err = max(A[1] - R[0], R[1] - A[0])
        if err <= tol:
            worst = max(worst, err)
            continue
        if b - a <= min_width or a == b:
            # tight enclosure still exceeds the bound: is it definite?
            m = a
            try:
                E = IEval({atom: (m, m)}, size)
                if ref_ops:
                    E.ref.update(ref_ops)
                Am = E.ev(term)
                Rm = reference(m, m)
                inner = max(Am[0] - Rm[1], Rm[0] - Am[1])
            except Unbounded:
                inner = None
            if inner is not None and inner > tol:
                return {'ok': False, 'boxes': boxes, 'worst': err, 'witness': m, 'value': Am, 'reference': Rm}
            return {'ok': None, 'boxes': boxes, 'worst': err, 'why': 'bound not established near %r (enclosure error %g)' % (a, err)}
        m = 0.5 * (a + b)
        if not (a < m < b):
            stack.append((a, a))
            stack.append((b, b))
            continue
        stack.append((a, m))
        stack.append((m, b))
    return {'ok': True, 'boxes': boxes, 'worst': worst}


# ---------------------------------------------------------------------------------------------
# first-order (mean-value) certificates: value / derivative / rounding-error triples

class Undetermined(Exception):
    pass


def _imul(a, b):
    ps = [a[0] * b[0], a[0] * b[1], a[1] * b[0], a[1] * b[1]]
    return (_dn(min(ps)), _up(max(ps)))


def _iadd(a, b):
    return (_dn(a[0] + b[0]), _up(a[1] + b[1]))


def _mag(a):
    return max(abs(a[0]), abs(a[1]))


class ADEval(object):
    """forward-mode interval differentiation of the *real* function denoted by a term of one atom, plus a running bound on the rounding error
    of its floating-point evaluation.  ev(t) -> (value interval, derivative interval, |computed - real| bound)"""

    def __init__(self, atom, box, size):
        self.atom = atom
        self.box = box
        self.u = 2.0 ** -24 if size == 4 else 2.0 ** -53
        self.tiny = 2.0 ** -150 if size == 4 else 0.0
        self.memo = {}

    def ev(self, t):
        r = self.memo.get(t.id)
        if r is None:
            r = self._ev(t)
            v, d, e = r
            _chk(*v)
            _chk(*d)
            if e != e or e == INF:
                raise Unbounded('rounding error bound is not finite')
            self.memo[t.id] = r
        return r

    def _rnd(self, v):
        return _up(_mag(v) * self.u + self.tiny)

    def _ev(self, t):
        op = t.op
        if op == 'atom':
            if t is not self.atom:
                raise Unbounded('free atom %s' % tm.show(t))
            return (self.box, (1.0, 1.0), 0.0)
        if op == 'c':
            f = tm.f_of(t)
            return ((f, f), (0.0, 0.0), 0.0)
        if op == 'fneg':
            v, d, e = self.ev(t.args[0])
            return ((-v[1], -v[0]), (-d[1], -d[0]), e)
        if op == 'fabs':
            v, d, e = self.ev(t.args[0])
            if v[0] >= 0:
                return (v, d, e)
            if v[1] <= 0:
                return ((-v[1], -v[0]), (-d[1], -d[0]), e)
            raise Undetermined('|.| of an interval straddling zero')
        if op == 'fadd':
            (va, da, ea), (vb, db, eb) = self.ev(t.args[0]), self.ev(t.args[1])
            v = _iadd(va, vb)
            return (v, _iadd(da, db), _up(ea + eb + self._rnd((v[0] - ea - eb, v[1] + ea + eb))))
        if op == 'fmul':
            (va, da, ea), (vb, db, eb) = self.ev(t.args[0]), self.ev(t.args[1])
            v = _imul(va, vb)
            d = _iadd(_imul(da, vb), _imul(va, db))
            e = _up(_mag(va) * eb + _mag(vb) * ea + ea * eb)
            return (v, d, _up(e + self._rnd((v[0] - e, v[1] + e))))
        if op == 'fma':
            (va, da, ea), (vb, db, eb), (vc, dc, ec) = self.ev(t.args[0]), self.ev(t.args[1]), self.ev(t.args[2])
            p = _imul(va, vb)
            v = _iadd(p, vc)
            d = _iadd(_iadd(_imul(da, vb), _imul(va, db)), dc)
            e = _up(_mag(va) * eb + _mag(vb) * ea + ea * eb + ec)
            return (v, d, _up(e + self._rnd((v[0] - e, v[1] + e))))
        if op == 'fdiv':
            (va, da, ea), (vb, db, eb) = self.ev(t.args[0]), self.ev(t.args[1])
            if vb[0] - eb <= 0.0 <= vb[1] + eb:
                raise Undetermined('division by an interval containing zero')
            inv = (_dn(1.0 / vb[1]), _up(1.0 / vb[0])) if vb[0] > 0 else (_dn(1.0 / vb[1]), _up(1.0 / vb[0]))
            v = _imul(va, inv)
            # (a/b)' = a'/b - a b'/b^2
            d = _iadd(_imul(da, inv), _imul((-1.0, -1.0), _imul(_imul(va, db), _imul(inv, inv))))
            mb = min(abs(vb[0]), abs(vb[1])) - eb
            e = _up((ea + _mag(v) * eb) / mb)
            return (v, d, _up(e + self._rnd((v[0] - e, v[1] + e))))
        if op == 'sqrt':
            v, d, e = self.ev(t.args[0])
            if v[0] - e <= 0:
                raise Undetermined('sqrt at or near zero')
            s = (_dn(math.sqrt(v[0])), _up(math.sqrt(v[1])))
            inv2 = (_dn(0.5 / s[1]), _up(0.5 / s[0]))
            es = _up(e / (2.0 * _dn(math.sqrt(v[0] - e))))
            return (s, _imul(d, inv2), _up(es + self._rnd(s)))
        if op == 'ite':
            c = self.cond(t.args[0])
            if c is True:
                return self.ev(t.args[1])
            if c is False:
                return self.ev(t.args[2])
            raise Undetermined('selection not determined on the box')
        if op in ('fmax', 'fmax~', 'fmin', 'fmin~'):
            (va, da, ea), (vb, db, eb) = self.ev(t.args[0]), self.ev(t.args[1])
            big = op.startswith('fmax')
            if (va[0] - ea > vb[1] + eb) == big and (va[0] - ea > vb[1] + eb or va[1] + ea < vb[0] - eb):
                return (va, da, ea) if (va[0] - ea > vb[1] + eb) == big else (vb, db, eb)
            if va[1] + ea < vb[0] - eb:
                return (vb, db, eb) if big else (va, da, ea)
            if va[0] - ea > vb[1] + eb:
                return (va, da, ea) if big else (vb, db, eb)
            raise Undetermined('min/max not determined on the box')
        if op in ('round', 'floor', 'ceil', 'trunc'):
            v, d, e = self.ev(t.args[0])
            f = {'round': lambda x: math.floor(abs(x) + 0.5) * (1 if x >= 0 else -1), 'floor': math.floor, 'ceil': math.ceil, 'trunc': math.trunc}[op]
            k0, k1 = f(v[0] - e), f(v[1] + e)
            if k0 != k1:
                raise Undetermined('%s crosses a step on the box' % op)
            return ((float(k0), float(k0)), (0.0, 0.0), 0.0)
        if op == 'copysign':
            (vm, dm, em), (vs, _ds, es) = self.ev(t.args[0]), self.ev(t.args[1])
            if vs[0] - es > 0:
                neg = False
            elif vs[1] + es < 0:
                neg = True
            else:
                raise Undetermined('sign not determined on the box')
            if vm[0] < 0 < vm[1]:
                raise Undetermined('magnitude straddles zero')
            pos = vm if vm[0] >= 0 else (-vm[1], -vm[0])
            dpos = dm if vm[0] >= 0 else (-dm[1], -dm[0])
            return (pos, dpos, em) if not neg else ((-pos[1], -pos[0]), (-dpos[1], -dpos[0]), em)
        raise Unbounded('operation %s has no derivative transfer function' % op)

    def cond(self, c):
        """three-valued, robust to the rounding error of the compared values"""
        op = c.op
        if op == 'c':
            return bool(tm.cbits(c))
        if op == 'not':
            v = self.cond(c.args[0])
            return None if v is None else (not v)
        if op in ('and', 'or'):
            vs = [self.cond(a) for a in c.args]
            if op == 'and':
                return False if any(v is False for v in vs) else (True if all(v is True for v in vs) else None)
            return True if any(v is True for v in vs) else (False if all(v is False for v in vs) else None)
        if op in ('flt', 'fle'):
            (va, _d, ea), (vb, _d2, eb) = self.ev(c.args[0]), self.ev(c.args[1])
            if va[1] + ea < vb[0] - eb:
                return True
            if va[0] - ea > vb[1] + eb:
                return False
            return None
        if op in ('m8', 'm16', 'm32', 'm64'):
            return self.cond(c.args[0])
        return None


def certify_mv(term, atom, lo, hi, size, ref_val, ref_der, tol, max_boxes=200000, min_width=1e-13, breakpoints=()):
    """prove |fl(term)(v) - ref(v)| <= tol for all v in [lo, hi]: mean-value form of (real term - ref) + running rounding-error bound,
    adaptive bisection, naive interval fallback where the derivative form does not apply (kinks, sqrt at 0).
    ref_val(a, b) / ref_der(a, b) enclose the reference and its derivative on [a, b] (ref_der may raise Undetermined)."""
    pts = sorted(set([lo, hi] + [p for p in breakpoints if lo < p < hi]))
    stack = [(pts[i], pts[i + 1]) for i in range(len(pts) - 1)]
    boxes = 0
    worst = 0.0
    n_mv = n_naive = 0
    unresolved = []
    while stack:
        a, b = stack.pop()
        boxes += 1
        if boxes > max_boxes:
            return {'ok': None, 'boxes': boxes, 'worst': worst, 'why': 'box budget exhausted at [%r, %r]' % (a, b)}
        bound = None
        try:
            m = 0.5 * (a + b)
            Em = ADEval(atom, (m, m), size)
            fm, _dm, _em = Em.ev(term)
            EX = ADEval(atom, (a, b), size)
            _fx, dX, eX = EX.ev(term)
            gm = ref_val(m, m)
            gd = ref_der(a, b)
            e_m = (_dn(fm[0] - gm[1]), _up(fm[1] - gm[0]))
            dd = (_dn(dX[0] - gd[1]), _up(dX[1] - gd[0]))
            r = _up(0.5 * (b - a))
            spread = _up(_mag(dd) * r)
            bound = _up(_mag(e_m) + spread + eX)
            n_mv += 1
        except (Undetermined, Unbounded, ZeroDivisionError, ValueError):
            bound = None
        if bound is None or bound > tol:
            # naive enclosure as a fallback / second opinion
            try:
                A = eval_steps(term, {atom: (a, b)}, size)
                R = ref_val(a, b)
                nb = max(A[1] - R[0], R[1] - A[0])
                n_naive += 1
                if bound is None or nb < bound:
                    bound = nb
            except Unbounded:
                pass
        if bound is not None and bound <= tol:
            worst = max(worst, bound)
            continue
        # the box is not certified: is its midpoint already a definite counterexample?
        try:
            mm = 0.5 * (a + b)
            Am = eval_steps(term, {atom: (mm, mm)}, size)
            Rm = ref_val(mm, mm)
            if max(Am[0] - Rm[1], Rm[0] - Am[1]) > tol:
                return {'ok': False, 'boxes': boxes, 'worst': bound, 'witness': mm, 'value': Am, 'reference': Rm}
        except Unbounded:
            pass
        if b - a <= min_width:
            unresolved.append((a, bound))
            if len(unresolved) > 64:
                return {'ok': None, 'boxes': boxes, 'worst': bound, 'why': 'bound not established near %r (enclosure error %r) and 64 other points' % (a, bound)}
            continue
        m = 0.5 * (a + b)
        if not (a < m < b):
            return {'ok': None, 'boxes': boxes, 'worst': bound, 'why': 'cannot bisect [%r, %r]' % (a, b)}
        stack.append((a, m))
        stack.append((m, b))
    if unresolved:
        return {'ok': None, 'boxes': boxes, 'worst': max(b_ for (_a, b_) in unresolved if b_ is not None) if any(b_ is not None for (_a, b_) in unresolved) else None,
                'why': 'bound not established near %r (enclosure error %r)' % unresolved[0]}
    return {'ok': True, 'boxes': boxes, 'worst': worst, 'mean_value_boxes': n_mv, 'naive_boxes': n_naive}
