"""Trusted leaf tables (DESIGN 3.5): intrinsic semantics, std / libm leaf primitives.

Every entry maps a resolved callee def-path (normalised: leading `std::`/`alloc::` -> `core::`)
to a transfer function on abstract values.  Entries are of three kinds only:
  lane-wise primitive P / routing with a literal mask / horizontal or memory operation.
"""
import re
import terms as tm
from terms import T, mk, const, ite, TRUE, FALSE, UNINIT
from interp import Agg, Abort, DIVERGE, NOTLEAF, agg_of_lanes

LEAF = {}


def leaf(*names):
    def deco(f):
        for n in names:
            LEAF[n] = f
        return f
    return deco


def lanes(I, v, n, size):
    """lane terms of a SIMD-register-like value"""
    if isinstance(v, T):
        return [mk('extract', v, i * size, size) for i in range(n)] if n > 1 else [v]
    out = []
    tmp = None
    for i in range(n):
        c = v.cells.get(i * size)
        if c is not None and c[0] == size:
            out.append(c[1])
        else:
            if tmp is None:
                tmp = I.new_obj(n * size, 'lanes', 'tmp')
                I.write(tmp, 0, n * size, v)
            out.append(I.read(tmp, i * size, size, None))
    if tmp is not None:
        del I.heap[tmp.id]
    return out


def vec(ls, size):
    return agg_of_lanes(ls, size)


def cg(callee, i=0):
    return int(callee['cg'][i])


# ---------------------------------------------------------------------------------------------
# x86 SSE/SSE2
X86 = 'core::arch::x86_64::'
X86ALT = 'core::core_arch::x86::'


def x86(*names):
    full = []
    for n in names:
        full.append(X86 + n)
        full.append('core::core_arch::x86::sse::' + n)
        full.append('core::core_arch::x86::sse2::' + n)
        full.append('core::core_arch::x86::fma::' + n)
        full.append('core::core_arch::x86::sse41::' + n)
        full.append('core::core_arch::x86::sse3::' + n)
        full.append('core::core_arch::x86::ssse3::' + n)
        full.append('core::core_arch::x86::avx::' + n)
        full.append('core::core_arch::x86::avx2::' + n)
        full.append('core::arch::x86::' + n)
    return leaf(*full)


def _lanewise2(name, fn):
    @x86(name)
    def f(I, fr, callee, args, dest, argops, line):
        a, b = lanes(I, args[0], 4, 4), lanes(I, args[1], 4, 4)
        return vec([fn(x, y) for x, y in zip(a, b)], 4)
    return f


_lanewise2('_mm_add_ps', lambda x, y: tm.f2('fadd', x, y))
_lanewise2('_mm_sub_ps', lambda x, y: tm.f2('fsub', x, y))
_lanewise2('_mm_mul_ps', lambda x, y: tm.f2('fmul', x, y))
_lanewise2('_mm_div_ps', lambda x, y: tm.f2('fdiv', x, y))
# SSE min/max: returns the second operand if either is NaN:  a < b ? a : b
_lanewise2('_mm_min_ps', lambda x, y: sse_min(x, y))
_lanewise2('_mm_max_ps', lambda x, y: sse_max(x, y))
_lanewise2('_mm_and_ps', lambda x, y: tm.lane_bitop('and', x, y, 4))
_lanewise2('_mm_or_ps', lambda x, y: tm.lane_bitop('or', x, y, 4))
_lanewise2('_mm_xor_ps', lambda x, y: tm.lane_bitop('xor', x, y, 4))
_lanewise2('_mm_andnot_ps', lambda x, y: tm.lane_bitop('andnot', x, y, 4))
_lanewise2('_mm_and_si128', lambda x, y: tm.lane_bitop('and', x, y, 4))
_lanewise2('_mm_or_si128', lambda x, y: tm.lane_bitop('or', x, y, 4))
_lanewise2('_mm_xor_si128', lambda x, y: tm.lane_bitop('xor', x, y, 4))
_lanewise2('_mm_andnot_si128', lambda x, y: tm.lane_bitop('andnot', x, y, 4))
_lanewise2('_mm_cmpeq_ps', lambda x, y: tm.mask(tm.f2('feq', x, y), 4))
_lanewise2('_mm_cmpneq_ps', lambda x, y: tm.mask(tm.f2('fne', x, y), 4))
_lanewise2('_mm_cmplt_ps', lambda x, y: tm.mask(tm.f2('flt', x, y), 4))
_lanewise2('_mm_cmple_ps', lambda x, y: tm.mask(tm.f2('fle', x, y), 4))
_lanewise2('_mm_cmpgt_ps', lambda x, y: tm.mask(tm.f2('fgt', x, y), 4))
_lanewise2('_mm_cmpge_ps', lambda x, y: tm.mask(tm.f2('fge', x, y), 4))
_lanewise2('_mm_cmpunord_ps', lambda x, y: tm.mask(funord(x, y), 4))
_lanewise2('_mm_cmpord_ps', lambda x, y: tm.mask(tm.b_not(funord(x, y)), 4))
_lanewise2('_mm_cmplt_epi32', lambda x, y: tm.mask(tm.iop('lt', 'i32', x, y), 4))
_lanewise2('_mm_cmpgt_epi32', lambda x, y: tm.mask(tm.iop('gt', 'i32', x, y), 4))
_lanewise2('_mm_cmpeq_epi32', lambda x, y: tm.mask(tm.iop('eq', 'i32', x, y), 4))
_lanewise2('_mm_add_epi32', lambda x, y: tm.iop('add', 'i32', x, y))
_lanewise2('_mm_sub_epi32', lambda x, y: tm.iop('sub', 'i32', x, y))


def funord(x, y):
    if x is y:
        return tm.f2('fne', x, x)
    return tm.b_or(tm.f2('fne', x, x), tm.f2('fne', y, y))


def sse_min(x, y):
    # MINPS: if x < y then x else y  (second operand on NaN / equal)
    return mk('ite_min', x, y) if False else ite(tm.f2('flt', x, y), x, y)


def sse_max(x, y):
    return ite(tm.f2('flt', y, x), x, y)


@x86('_mm_sqrt_ps')
def _sqrt_ps(I, fr, callee, args, dest, argops, line):
    return vec([mk('sqrt', x) for x in lanes(I, args[0], 4, 4)], 4)


@x86('_mm_rcp_ps')
def _rcp_ps(I, fr, callee, args, dest, argops, line):
    return vec([mk('x86:rcp_approx', x) for x in lanes(I, args[0], 4, 4)], 4)


@x86('_mm_rsqrt_ps')
def _rsqrt_ps(I, fr, callee, args, dest, argops, line):
    return vec([mk('x86:rsqrt_approx', x) for x in lanes(I, args[0], 4, 4)], 4)


@x86('_mm_fmadd_ps')
def _fmadd_ps(I, fr, callee, args, dest, argops, line):
    a, b, c = [lanes(I, v, 4, 4) for v in args]
    return vec([tm.fma(x, y, z) for x, y, z in zip(a, b, c)], 4)


@x86('_mm_round_ps', '_mm_floor_ps', '_mm_ceil_ps')
def _round_ps(I, fr, callee, args, dest, argops, line):
    name = callee['d'].rsplit('::', 1)[1]
    if name == '_mm_floor_ps':
        op = 'floor'
    elif name == '_mm_ceil_ps':
        op = 'ceil'
    else:
        mode = cg(callee) & 3
        op = {0: 'roundeven', 1: 'floor', 2: 'ceil', 3: 'trunc'}[mode]
    return vec([mk(op, x) for x in lanes(I, args[0], 4, 4)], 4)


@x86('_mm_shuffle_ps')
def _shuffle_ps(I, fr, callee, args, dest, argops, line):
    m = cg(callee)
    a, b = lanes(I, args[0], 4, 4), lanes(I, args[1], 4, 4)
    return vec([a[m & 3], a[(m >> 2) & 3], b[(m >> 4) & 3], b[(m >> 6) & 3]], 4)


# negated comparisons (true also on unordered operands)
_lanewise2('_mm_cmpnlt_ps', lambda x, y: tm.mask(tm.b_not(tm.f2('flt', x, y)), 4))
_lanewise2('_mm_cmpnle_ps', lambda x, y: tm.mask(tm.b_not(tm.f2('fle', x, y)), 4))
_lanewise2('_mm_cmpngt_ps', lambda x, y: tm.mask(tm.b_not(tm.f2('fgt', x, y)), 4))
_lanewise2('_mm_cmpnge_ps', lambda x, y: tm.mask(tm.b_not(tm.f2('fge', x, y)), 4))


# SSE3 / SSE4.1 / AVX (128-bit) / FMA routing and arithmetic that a target_feature fast path may use
@x86('_mm_blend_ps')
def _blend_ps(I, fr, callee, args, dest, argops, line):
    m = cg(callee)
    a, b = lanes(I, args[0], 4, 4), lanes(I, args[1], 4, 4)
    return vec([b[i] if (m >> i) & 1 else a[i] for i in range(4)], 4)


@x86('_mm_blendv_ps')
def _blendv_ps(I, fr, callee, args, dest, argops, line):
    a, b, m = lanes(I, args[0], 4, 4), lanes(I, args[1], 4, 4), lanes(I, args[2], 4, 4)
    return vec([ite(tm.signbit(mm), y, x) for x, y, mm in zip(a, b, m)], 4)


@x86('_mm_permute_ps')
def _permute_ps(I, fr, callee, args, dest, argops, line):
    m = cg(callee)
    a = lanes(I, args[0], 4, 4)
    return vec([a[m & 3], a[(m >> 2) & 3], a[(m >> 4) & 3], a[(m >> 6) & 3]], 4)


@x86('_mm_shuffle_epi32')
def _shuffle_epi32(I, fr, callee, args, dest, argops, line):
    m = cg(callee)
    a = lanes(I, args[0], 4, 4)
    return vec([a[m & 3], a[(m >> 2) & 3], a[(m >> 4) & 3], a[(m >> 6) & 3]], 4)


@x86('_mm_castps_pd', '_mm_castpd_ps', '_mm_castpd_si128', '_mm_castsi128_pd')
def _cast_pd(I, fr, callee, args, dest, argops, line):
    # bit-preserving; registers are modelled as 4 x 32-bit lanes whatever the nominal element type
    return vec(lanes(I, args[0], 4, 4), 4)


@x86('_mm_unpacklo_pd', '_mm_unpacklo_epi64')
def _unpacklo_pd(I, fr, callee, args, dest, argops, line):
    a, b = lanes(I, args[0], 4, 4), lanes(I, args[1], 4, 4)
    return vec([a[0], a[1], b[0], b[1]], 4)


@x86('_mm_unpackhi_pd', '_mm_unpackhi_epi64')
def _unpackhi_pd(I, fr, callee, args, dest, argops, line):
    a, b = lanes(I, args[0], 4, 4), lanes(I, args[1], 4, 4)
    return vec([a[2], a[3], b[2], b[3]], 4)


@x86('_mm_unpacklo_epi32')
def _unpacklo_epi32(I, fr, callee, args, dest, argops, line):
    a, b = lanes(I, args[0], 4, 4), lanes(I, args[1], 4, 4)
    return vec([a[0], b[0], a[1], b[1]], 4)


@x86('_mm_unpackhi_epi32')
def _unpackhi_epi32(I, fr, callee, args, dest, argops, line):
    a, b = lanes(I, args[0], 4, 4), lanes(I, args[1], 4, 4)
    return vec([a[2], b[2], a[3], b[3]], 4)


@x86('_mm_sqrt_ss')
def _sqrt_ss(I, fr, callee, args, dest, argops, line):
    a = lanes(I, args[0], 4, 4)
    return vec([mk('sqrt', a[0]), a[1], a[2], a[3]], 4)


@x86('_mm_min_ss', '_mm_max_ss')
def _minmax_ss(I, fr, callee, args, dest, argops, line):
    a, b = lanes(I, args[0], 4, 4), lanes(I, args[1], 4, 4)
    f = sse_min if callee['d'].rsplit('::', 1)[1] == '_mm_min_ss' else sse_max
    return vec([f(a[0], b[0]), a[1], a[2], a[3]], 4)


@x86('_mm_slli_epi32', '_mm_srli_epi32')
def _shift_epi32(I, fr, callee, args, dest, argops, line):
    k = cg(callee)
    op = 'shl' if callee['d'].rsplit('::', 1)[1] == '_mm_slli_epi32' else 'shr'
    a = lanes(I, args[0], 4, 4)
    if k > 31:
        z = const(0, 4)
        return vec([z, z, z, z], 4)
    return vec([tm.iop(op, 'u32', x, const(k, 4)) for x in a], 4)


@x86('_mm_movehdup_ps')
def _movehdup(I, fr, callee, args, dest, argops, line):
    a = lanes(I, args[0], 4, 4)
    return vec([a[1], a[1], a[3], a[3]], 4)


@x86('_mm_moveldup_ps')
def _moveldup(I, fr, callee, args, dest, argops, line):
    a = lanes(I, args[0], 4, 4)
    return vec([a[0], a[0], a[2], a[2]], 4)


@x86('_mm_hadd_ps')
def _hadd_ps(I, fr, callee, args, dest, argops, line):
    a, b = lanes(I, args[0], 4, 4), lanes(I, args[1], 4, 4)
    return vec([tm.f2('fadd', a[0], a[1]), tm.f2('fadd', a[2], a[3]), tm.f2('fadd', b[0], b[1]), tm.f2('fadd', b[2], b[3])], 4)


@x86('_mm_hsub_ps')
def _hsub_ps(I, fr, callee, args, dest, argops, line):
    a, b = lanes(I, args[0], 4, 4), lanes(I, args[1], 4, 4)
    return vec([tm.f2('fsub', a[0], a[1]), tm.f2('fsub', a[2], a[3]), tm.f2('fsub', b[0], b[1]), tm.f2('fsub', b[2], b[3])], 4)


@x86('_mm_addsub_ps')
def _addsub_ps(I, fr, callee, args, dest, argops, line):
    a, b = lanes(I, args[0], 4, 4), lanes(I, args[1], 4, 4)
    return vec([tm.f2('fsub', a[0], b[0]), tm.f2('fadd', a[1], b[1]), tm.f2('fsub', a[2], b[2]), tm.f2('fadd', a[3], b[3])], 4)


@x86('_mm_dp_ps')
def _dp_ps(I, fr, callee, args, dest, argops, line):
    m = cg(callee)
    a, b = lanes(I, args[0], 4, 4), lanes(I, args[1], 4, 4)
    zero = tm.fconst(0.0, 4)
    p = [tm.f2('fmul', a[i], b[i]) if (m >> (4 + i)) & 1 else zero for i in range(4)]
    sm = tm.f2('fadd', tm.f2('fadd', p[0], p[1]), tm.f2('fadd', p[2], p[3]))     # DPPS: (p0 + p1) + (p2 + p3)
    return vec([sm if (m >> i) & 1 else zero for i in range(4)], 4)


@x86('_mm_insert_ps')
def _insert_ps(I, fr, callee, args, dest, argops, line):
    m = cg(callee)
    a, b = lanes(I, args[0], 4, 4), lanes(I, args[1], 4, 4)
    out = list(a)
    out[(m >> 4) & 3] = b[(m >> 6) & 3]
    zero = tm.fconst(0.0, 4)
    return vec([zero if (m >> i) & 1 else out[i] for i in range(4)], 4)


@x86('_mm_fmsub_ps')
def _fmsub_ps(I, fr, callee, args, dest, argops, line):
    a, b, c = [lanes(I, v, 4, 4) for v in args]
    return vec([tm.fma(x, y, tm.f1('fneg', z)) for x, y, z in zip(a, b, c)], 4)


@x86('_mm_fnmadd_ps')
def _fnmadd_ps(I, fr, callee, args, dest, argops, line):
    a, b, c = [lanes(I, v, 4, 4) for v in args]
    return vec([tm.fma(tm.f1('fneg', x), y, z) for x, y, z in zip(a, b, c)], 4)


@x86('_mm_fnmsub_ps')
def _fnmsub_ps(I, fr, callee, args, dest, argops, line):
    a, b, c = [lanes(I, v, 4, 4) for v in args]
    return vec([tm.fma(tm.f1('fneg', x), y, tm.f1('fneg', z)) for x, y, z in zip(a, b, c)], 4)


@x86('_mm_movehl_ps')
def _movehl(I, fr, callee, args, dest, argops, line):
    a, b = lanes(I, args[0], 4, 4), lanes(I, args[1], 4, 4)
    return vec([b[2], b[3], a[2], a[3]], 4)


@x86('_mm_movelh_ps')
def _movelh(I, fr, callee, args, dest, argops, line):
    a, b = lanes(I, args[0], 4, 4), lanes(I, args[1], 4, 4)
    return vec([a[0], a[1], b[0], b[1]], 4)


@x86('_mm_unpacklo_ps')
def _unpacklo(I, fr, callee, args, dest, argops, line):
    a, b = lanes(I, args[0], 4, 4), lanes(I, args[1], 4, 4)
    return vec([a[0], b[0], a[1], b[1]], 4)


@x86('_mm_unpackhi_ps')
def _unpackhi(I, fr, callee, args, dest, argops, line):
    a, b = lanes(I, args[0], 4, 4), lanes(I, args[1], 4, 4)
    return vec([a[2], b[2], a[3], b[3]], 4)


@x86('_mm_move_ss')
def _move_ss(I, fr, callee, args, dest, argops, line):
    a, b = lanes(I, args[0], 4, 4), lanes(I, args[1], 4, 4)
    return vec([b[0], a[1], a[2], a[3]], 4)


@x86('_mm_set1_ps', '_mm_set_ps1', '_mm_set1_epi32')
def _set1(I, fr, callee, args, dest, argops, line):
    return vec([args[0]] * 4, 4)


@x86('_mm_set_ps')
def _set_ps(I, fr, callee, args, dest, argops, line):
    return vec([args[3], args[2], args[1], args[0]], 4)


@x86('_mm_setr_ps')
def _setr_ps(I, fr, callee, args, dest, argops, line):
    return vec(list(args[:4]), 4)


@x86('_mm_set_ss')
def _set_ss(I, fr, callee, args, dest, argops, line):
    z = const(0, 4)
    return vec([args[0], z, z, z], 4)


@x86('_mm_setzero_ps', '_mm_setzero_si128')
def _setzero(I, fr, callee, args, dest, argops, line):
    z = const(0, 4)
    return vec([z, z, z, z], 4)


@x86('_mm_cvtss_f32')
def _cvtss(I, fr, callee, args, dest, argops, line):
    return lanes(I, args[0], 4, 4)[0]


@x86('_mm_add_ss', '_mm_sub_ss', '_mm_mul_ss', '_mm_div_ss')
def _ss(I, fr, callee, args, dest, argops, line):
    name = callee['d'].rsplit('::', 1)[1]
    op = {'_mm_add_ss': 'fadd', '_mm_sub_ss': 'fsub', '_mm_mul_ss': 'fmul', '_mm_div_ss': 'fdiv'}[name]
    a, b = lanes(I, args[0], 4, 4), lanes(I, args[1], 4, 4)
    return vec([tm.f2(op, a[0], b[0]), a[1], a[2], a[3]], 4)


@x86('_mm_castps_si128', '_mm_castsi128_ps')
def _castps(I, fr, callee, args, dest, argops, line):
    # bit-preserving; normalise to 4x32 lanes
    return vec(lanes(I, args[0], 4, 4), 4)


@x86('_mm_cvttps_epi32')
def _cvttps(I, fr, callee, args, dest, argops, line):
    return vec([mk('x86:cvttps_epi32', x) for x in lanes(I, args[0], 4, 4)], 4)


@x86('_mm_cvtepi32_ps')
def _cvtepi32(I, fr, callee, args, dest, argops, line):
    return vec([mk('x86:cvtepi32_ps', x) for x in lanes(I, args[0], 4, 4)], 4)


@x86('_mm_movemask_ps')
def _movemask(I, fr, callee, args, dest, argops, line):
    ls = lanes(I, args[0], 4, 4)
    return tm.mk_bits([tm.signbit(l) for l in ls] + [FALSE] * 28)


def _mem_ptr(I, p):
    alts = I._ptr_alts(p)
    if len(alts) != 1:
        raise Abort('memory intrinsic through gated pointer')
    return I.heap[alts[0][1]], alts[0][2]


@x86('_mm_loadu_ps', '_mm_load_ps')
def _loadu(I, fr, callee, args, dest, argops, line):
    name = callee['d'].rsplit('::', 1)[1]
    obj, off = _mem_ptr(I, args[0])
    I.mem_events.append(('load', fr.body['d'], line, obj.id, off, 16, 16 if name == '_mm_load_ps' else 1, dict(tm.ASSUME_LB), name))
    return vec([I.read(obj, off + 4 * i, 4, None) for i in range(4)], 4)


@x86('_mm_load_ss')
def _load_ss(I, fr, callee, args, dest, argops, line):
    obj, off = _mem_ptr(I, args[0])
    I.mem_events.append(('load', fr.body['d'], line, obj.id, off, 4, 1, dict(tm.ASSUME_LB), '_mm_load_ss'))
    z = const(0, 4)
    return vec([I.read(obj, off, 4, None), z, z, z], 4)


@x86('_mm_load1_ps', '_mm_load_ps1')
def _load1(I, fr, callee, args, dest, argops, line):
    obj, off = _mem_ptr(I, args[0])
    I.mem_events.append(('load', fr.body['d'], line, obj.id, off, 4, 1, dict(tm.ASSUME_LB), '_mm_load1_ps'))
    v = I.read(obj, off, 4, None)
    return vec([v] * 4, 4)


@x86('_mm_storeu_ps', '_mm_store_ps')
def _storeu(I, fr, callee, args, dest, argops, line):
    name = callee['d'].rsplit('::', 1)[1]
    obj, off = _mem_ptr(I, args[0])
    I.mem_events.append(('store', fr.body['d'], line, obj.id, off, 16, 16 if name == '_mm_store_ps' else 1, dict(tm.ASSUME_LB), name))
    ls = lanes(I, args[1], 4, 4)
    for i in range(4):
        I.write(obj, off + 4 * i, 4, ls[i])
    return Agg(0)


@x86('_mm_store_ss')
def _store_ss(I, fr, callee, args, dest, argops, line):
    obj, off = _mem_ptr(I, args[0])
    I.mem_events.append(('store', fr.body['d'], line, obj.id, off, 4, 1, dict(tm.ASSUME_LB), '_mm_store_ss'))
    I.write(obj, off, 4, lanes(I, args[1], 4, 4)[0])
    return Agg(0)


# ---------------------------------------------------------------------------------------------
# std float methods / intrinsics / libm

F1 = {
    'sqrt': 'sqrt', 'floor': 'floor', 'ceil': 'ceil', 'trunc': 'trunc', 'round': 'round',
    'round_ties_even': 'roundeven', 'sin': 'sin', 'cos': 'cos', 'tan': 'tan', 'exp': 'exp', 'acos': 'acos',
    'asin': 'asin', 'atan': 'atan', 'ln': 'ln', 'exp2': 'exp2', 'log2': 'log2',
}
F2 = {'copysign': 'copysign', 'atan2': 'atan2', 'powf': 'powf', 'min': 'fmin', 'max': 'fmax'}


def _reg_float():
    for w in ('f32', 'f64'):
        base = 'core::%s::<impl %s>::' % (w, w)
        for n, p in F1.items():
            LEAF[base + n] = (lambda p: lambda I, fr, callee, args, dest, argops, line: mk(p, args[0]))(p)
        for n, p in F2.items():
            LEAF[base + n] = (lambda p: lambda I, fr, callee, args, dest, argops, line: (tm.f2(p, args[0], args[1]) if p in ('fmin', 'fmax') else mk(p, args[0], args[1])))(p)
        LEAF[base + 'abs'] = lambda I, fr, callee, args, dest, argops, line: tm.f1('fabs', args[0])
        LEAF[base + 'mul_add'] = lambda I, fr, callee, args, dest, argops, line: tm.fma(args[0], args[1], args[2])
        LEAF[base + 'is_nan'] = lambda I, fr, callee, args, dest, argops, line: tm.f2('fne', args[0], args[0])
        # is_finite(x)  ==  |x| < inf   (definition in core; written out so that SIMD forms compare equal)
        LEAF[base + 'is_finite'] = (lambda w: lambda I, fr, callee, args, dest, argops, line: tm.f2('flt', tm.f1('fabs', args[0]), tm.fconst(float('inf'), 4 if w == 'f32' else 8)))(w)
        LEAF[base + 'is_infinite'] = (lambda w: lambda I, fr, callee, args, dest, argops, line: tm.f2('feq', tm.f1('fabs', args[0]), tm.fconst(float('inf'), 4 if w == 'f32' else 8)))(w)
        LEAF[base + 'is_sign_negative'] = lambda I, fr, callee, args, dest, argops, line: tm.signbit(args[0])
        LEAF[base + 'is_sign_positive'] = lambda I, fr, callee, args, dest, argops, line: tm.b_not(tm.signbit(args[0]))
        LEAF[base + 'to_bits'] = lambda I, fr, callee, args, dest, argops, line: args[0]
        LEAF[base + 'from_bits'] = lambda I, fr, callee, args, dest, argops, line: args[0]
        LEAF[base + 'sin_cos'] = _sin_cos
    # intrinsics
    for w, s in (('f32', 'f32'), ('f64', 'f64')):
        for n, p in (('sqrt', 'sqrt'), ('floor', 'floor'), ('ceil', 'ceil'), ('trunc', 'trunc'), ('round', 'round'),
                     ('sin', 'sin'), ('cos', 'cos'), ('exp', 'exp'), ('round_ties_even', 'roundeven'), ('fabs', 'fabs')):
            LEAF['core::intrinsics::%s%s' % (n, s)] = (lambda p: lambda I, fr, callee, args, dest, argops, line: (tm.f1('fabs', args[0]) if p == 'fabs' else mk(p, args[0])))(p)
        LEAF['core::intrinsics::copysign' + s] = lambda I, fr, callee, args, dest, argops, line: mk('copysign', args[0], args[1])
        LEAF['core::intrinsics::pow' + s] = lambda I, fr, callee, args, dest, argops, line: mk('powf', args[0], args[1])
        LEAF['core::intrinsics::fma' + s] = lambda I, fr, callee, args, dest, argops, line: tm.fma(args[0], args[1], args[2])
        LEAF['core::intrinsics::minnum' + s] = lambda I, fr, callee, args, dest, argops, line: tm.f2('fmin', args[0], args[1])
        LEAF['core::intrinsics::maxnum' + s] = lambda I, fr, callee, args, dest, argops, line: tm.f2('fmax', args[0], args[1])
    LEAF['core::intrinsics::fabs'] = lambda I, fr, callee, args, dest, argops, line: tm.f1('fabs', args[0])
    for n in ('sqrt', 'floor', 'ceil', 'trunc', 'round', 'sin', 'cos', 'exp'):
        pass
    # std::sys::cmath
    for n, p in (('tan', 'tan'), ('tanf', 'tan'), ('acos', 'acos'), ('acosf', 'acos'), ('asin', 'asin'), ('asinf', 'asin'),
                 ('atan', 'atan'), ('atanf', 'atan')):
        LEAF['core::sys::cmath::' + n] = (lambda p: lambda I, fr, callee, args, dest, argops, line: mk(p, args[0]))(p)
    for n in ('atan2', 'atan2f'):
        LEAF['core::sys::cmath::' + n] = lambda I, fr, callee, args, dest, argops, line: mk('atan2', args[0], args[1])
    # libm crate
    L1 = {'sqrt': 'sqrt', 'floor': 'floor', 'ceil': 'ceil', 'trunc': 'trunc', 'round': 'round', 'sin': 'sin', 'cos': 'cos',
          'tan': 'tan', 'exp': 'exp', 'acos': 'acos', 'asin': 'asin', 'fabs': 'fabs', 'atan': 'atan', 'exp2': 'exp2', 'log': 'ln', 'log2': 'log2'}
    for n, p in L1.items():
        for suf in ('', 'f'):
            LEAF['libm::' + n + suf] = (lambda p: lambda I, fr, callee, args, dest, argops, line: (tm.f1('fabs', args[0]) if p == 'fabs' else mk(p, args[0])))(p)
            LEAF['libm::math::%s%s::%s%s' % (n, suf, n, suf)] = LEAF['libm::' + n + suf]
    L2 = {'copysign': 'copysign', 'atan2': 'atan2', 'pow': 'powf', 'fmin': 'fmin', 'fmax': 'fmax', 'fmod': 'frem'}
    for n, p in L2.items():
        for suf in ('', 'f'):
            LEAF['libm::' + n + suf] = (lambda p: lambda I, fr, callee, args, dest, argops, line: (tm.f2(p, args[0], args[1]) if p in ('fmin', 'fmax', 'frem') else mk(p, args[0], args[1])))(p)
    for suf in ('', 'f'):
        LEAF['libm::fma' + suf] = lambda I, fr, callee, args, dest, argops, line: tm.fma(args[0], args[1], args[2])
        LEAF['libm::sincos' + suf] = _sin_cos


def _sin_cos(I, fr, callee, args, dest, argops, line):
    t = I.F.types[dest]
    out = Agg(t['sz'])
    (o0, f0, _), (o1, f1, _) = t['fields'][0], t['fields'][1]
    sz = I.F.types[f0]['sz']
    out.cells[o0] = (sz, mk('sin', args[0]))
    out.cells[o1] = (sz, mk('cos', args[0]))
    return out


_reg_float()


# ---------------------------------------------------------------------------------------------
# integer primitives:  core::num::<impl T>::name  -> op  name:T(args)

_NUM_RE = re.compile(r'^core::num::<impl ([iu](?:8|16|32|64|128|size))>::([a-z_0-9]+)$')

# primitives that can panic (their own documented panics); name -> kind
NUM_PANICS = {
    'div_euclid': 'div', 'rem_euclid': 'div', 'wrapping_div': 'zero', 'wrapping_rem': 'zero',
    'wrapping_div_euclid': 'zero', 'wrapping_rem_euclid': 'zero', 'saturating_div': 'zero',
    'overflowing_div': 'zero', 'overflowing_rem': 'zero', 'abs': 'ovf', 'pow': 'ovf',
    'strict_add': 'ovf', 'strict_sub': 'ovf', 'strict_mul': 'ovf', 'next_power_of_two': 'ovf',
}


def num_leaf(I, fr, callee, args, dest, argops, line):
    d = I.norm_path(callee['d'])
    m = _NUM_RE.match(d)
    ty, name = m.group(1), m.group(2)
    if ty in ('usize', 'isize'):
        ty = ty[0] + str(8 * I.F.ptr_size)
    for a in args:
        if not isinstance(a, T):
            raise Abort('integer primitive on aggregate')
    # names that are plain MIR-level ops: keep one vocabulary
    simple = {'wrapping_add': 'add', 'wrapping_sub': 'sub', 'wrapping_mul': 'mul', 'wrapping_neg': 'neg'}
    if name in NUM_PANICS:
        kind = NUM_PANICS[name]
        if kind in ('div', 'zero'):
            cond = mk('prim_panics', name + ':' + ty, *args)
            z = tm.iop('eq', ty, args[1], const(0, int(ty[1:]) // 8))
            if z is FALSE and (kind == 'zero' or ty[0] == 'u'):
                cond = FALSE
            elif tm.is_const(args[1]) and ty[0] == 'i' and tm.to_signed(tm.cbits(args[1]), int(ty[1:]) // 8) not in (0, -1):
                cond = FALSE
        else:
            cond = mk('prim_panics', name + ':' + ty, *args)
            if not I.F.header['overflow_checks'] and name == 'abs':
                cond = FALSE
        if cond is not FALSE:
            I.record_panic('prim:' + name + ':' + ty, cond, fr, line, 'primitive ' + name)
    t = I.F.types[dest]
    if name in simple and len(args) == 2:
        return tm.iop(simple[name], ty, args[0], args[1])
    if name == 'wrapping_neg' and len(args) == 1:
        return tm.iun('neg', ty, args[0])
    if name == 'count_ones' and len(args) == 1:
        bs = tm.bits_of(args[0], int(ty[1:])) if args[0].op in tm._BITSY_OPS else None
        if bs is not None:
            live = [b for b in bs if b is not FALSE]
            if all(b is TRUE for b in live):
                return const(len(live), 4)
            return mk('popcnt', *live)
    if name in ('checked_add', 'checked_sub', 'checked_mul') and all(tm.is_const(a) for a in args):
        # constant folding (slice-range arithmetic on literal bounds)
        bits, signed = tm.ity_parse(ty)
        x, y = tm._val(args[0], bits, signed), tm._val(args[1], bits, signed)
        r = {'checked_add': x + y, 'checked_sub': x - y, 'checked_mul': x * y}[name]
        lo, hi = (-(1 << (bits - 1)), (1 << (bits - 1)) - 1) if signed else (0, (1 << bits) - 1)
        out = Agg(t['sz'])
        ok = lo <= r <= hi
        out.discr[(0, dest)] = const(1 if ok else 0, 16)
        if ok:
            for v in t['variants']['vs']:
                for (off, fid, _n) in v['fields']:
                    out.cells[off] = (I.F.types[fid]['sz'], const(r & ((1 << bits) - 1), bits // 8))
        return out
    call = mk(name + ':' + ty, *args)
    if I.is_scalar(dest):
        if t.get('k') == 'bool':
            return call
        return call
    if 'variants' in t:
        # Option<T>: discriminant None=0 / Some=1
        out = Agg(t['sz'])
        some = mk('is_some', call)
        out.discr[(0, dest)] = ite(some, const(1, 16), const(0, 16))
        vs = t['variants']['vs']
        for v in vs:
            for (off, fid, _n) in v['fields']:
                out.cells[off] = (I.F.types[fid]['sz'], mk('some_val', call))
        return out
    if t.get('k') == 'tuple':
        out = Agg(t['sz'])
        (o0, f0, _), (o1, f1, _) = t['fields'][0], t['fields'][1]
        out.cells[o0] = (I.F.types[f0]['sz'], mk('ovf_val', call))
        out.cells[o1] = (1, mk('ovf_flag', call))
        return out
    raise Abort('integer primitive %s returning %s' % (name, t['n']))


class _NumTable(dict):
    """LEAF lookup with a pattern fallback for core::num::<impl T>::*"""

    KEEP_BODY = {'unchecked_add', 'unchecked_sub', 'unchecked_mul', 'unchecked_shl', 'unchecked_shr', 'unchecked_neg'}

    def get(self, k, default=None):
        v = dict.get(self, k)
        if v is not None:
            return v
        m = _NUM_RE.match(k)
        if m and m.group(2) not in self.KEEP_BODY:
            return num_leaf
        return default


# ---------------------------------------------------------------------------------------------
# TryFrom between integer types: Result<B, TryFromIntError>

_TRYFROM_RE = re.compile(r'^core::convert::num::(?:ptr_try_from_impls::)?<impl core::convert::TryFrom<([iu][0-9a-z]+)> for ([iu][0-9a-z]+)>::try_from$')


def tryfrom_leaf(I, fr, callee, args, dest, argops, line):
    d = I.norm_path(callee['d']).replace('std::', 'core::')
    m = _TRYFROM_RE.match(d)
    a, b = m.group(1), m.group(2)
    ps = 8 * I.F.ptr_size

    def norm(x):
        return x[0] + str(ps) if x.endswith('size') else x
    a, b = norm(a), norm(b)
    t = I.F.types[dest]
    out = Agg(t['sz'])
    x = args[0]
    err = mk('tryfrom_err', m.group(1), m.group(2), x)
    # ranges: err is decidable for constants
    if tm.is_const(x):
        fb, fs = tm.ity_parse(a)
        tb, ts = tm.ity_parse(b)
        v = tm._val(x, fb, fs)
        lo, hi = (-(1 << (tb - 1)), (1 << (tb - 1)) - 1) if ts else (0, (1 << tb) - 1)
        err = FALSE if lo <= v <= hi else TRUE
    vs = t['variants']['vs']
    okv = [i for i, v in enumerate(vs) if v['name'] == 'Ok'][0]
    errv = [i for i, v in enumerate(vs) if v['name'] == 'Err'][0]
    out.discr[(0, dest)] = ite(err, const(int(vs[errv]['discr']), 16), const(int(vs[okv]['discr']), 16))
    for (off, fid, _n) in vs[okv]['fields']:
        out.cells[off] = (I.F.types[fid]['sz'], tm.cast('IntToInt', a, b, x))
    return out


# ---------------------------------------------------------------------------------------------
# misc intrinsics & helpers

@leaf('core::intrinsics::cold_path', 'core::intrinsics::assert_inhabited', 'core::intrinsics::assert_zero_valid',
      'core::intrinsics::assert_mem_uninitialized_valid', 'core::hint::assert_unchecked::precondition_check',
      'core::ptr::copy_nonoverlapping::precondition_check', 'core::intrinsics::assume',
      'core::ub_checks::maybe_is_nonoverlapping::runtime', 'core::ub_checks::check_language_ub')
def _noop(I, fr, callee, args, dest, argops, line):
    if I.F.types[dest]['k'] == 'bool':
        return FALSE
    return Agg(0)


@leaf('core::intrinsics::likely', 'core::intrinsics::unlikely', 'core::hint::black_box', 'core::hint::likely', 'core::hint::unlikely')
def _ident(I, fr, callee, args, dest, argops, line):
    return args[0]


@leaf('core::intrinsics::saturating_add', 'core::intrinsics::saturating_sub')
def _sat(I, fr, callee, args, dest, argops, line):
    name = callee['d'].rsplit('::', 1)[1]
    return mk(name + ':' + I.sname(dest), args[0], args[1])


@leaf('core::intrinsics::ctpop', 'core::intrinsics::ctlz', 'core::intrinsics::cttz', 'core::intrinsics::bswap')
def _bitcount(I, fr, callee, args, dest, argops, line):
    name = callee['d'].rsplit('::', 1)[1]
    return mk(name, args[0])


def describe_arg(I, fr, v, tyid):
    """provenance description of an argument for the effect log (R-EFFSEQ)"""
    if tyid is None:
        return ('val', None, tuple(sorted(tm.show(x) for x in I.val_deps(v))))
    t = I.F.types[tyid]
    if t.get('k') == 'ptr':
        pt = v if isinstance(v, T) else v.cells[0][1]
        meta = None if isinstance(v, T) else v.cells.get(I.F.ptr_size, (0, None))[1]
        pointee = t['to']
        if meta is not None and meta.op == 'vtable':
            pointee = meta.args[0]
        tg = I.ptr_targets(pt)
        pn = I.F.types[pointee]['n']
        if len(tg) == 1 and I.F.types[pointee]['sz'] is not None:
            obj = I.heap.get(tg[0][0])
            if obj is not None:
                if obj.lazy is not None and I.F.types[pointee]['sz']:
                    obj.lazy(I, obj, tg[0][1], I.F.types[pointee]['sz'], 'touch')
                reg = I._read_raw_nolazy(obj, tg[0][1], I.F.types[pointee]['sz'])
                cells = tuple((o, tm.show(c[1], 0, 6)) for o, c in sorted(reg.cells.items()))
                if obj.kind == 'const':
                    # constants are compared by content (format templates, literal tables), not only by type
                    a = [al for al, o in I._const_objs.items() if o is obj]
                    raw = None
                    if a:
                        try:
                            raw = I.F.allocs[a[0]]['bytes'][2 * tg[0][1]:2 * (tg[0][1] + I.F.types[pointee]['sz'])]
                        except Exception:
                            raw = None
                    return ('constref', pn, cells, raw)
                return ('ref', pn, cells)
        if meta is not None and tm.is_const(meta) and len(tg) == 1:
            obj = I.heap.get(tg[0][0])
            if obj is not None and obj.kind == 'const':
                # string / slice literal
                n = tm.cbits(meta)
                a = [al for al, o in I._const_objs.items() if o is obj]
                if a:
                    data = bytes.fromhex(I.F.allocs[a[0]]['bytes'])[tg[0][1]:tg[0][1] + n]
                    return ('lit', pn, data.decode('utf8', 'replace'))
        return ('ref?', pn, tuple(sorted(tm.show(x) for x in I.typed_deps(v, tyid))))
    if isinstance(v, T):
        return ('val', t['n'], tm.show(v, 0, 8))
    cells = []
    for o, c in sorted(v.cells.items(), key=lambda x: str(x[0])):
        txt = tm.show(c[1], 0, 6)
        # captured references (closure environments): show a constant pointee
        tg = I.ptr_targets(c[1]) if isinstance(c[1], T) else []
        if len(tg) == 1:
            obj = I.heap.get(tg[0][0])
            if obj is not None:
                pc = [cc for oo, cc in obj.cells.items() if oo == tg[0][1]]
                if pc and tm.is_const(pc[0][1]):
                    txt += '->const(%d)' % tm.cbits(pc[0][1])
        cells.append((o, txt))
    return ('val', t['n'], tuple(cells))


def effect_leaf(returns_arg0=False):
    def f(I, fr, callee, args, dest, argops, line):
        d = I.norm_path(callee['d'])
        tys = [I.op_ty(fr, o) for o in argops]
        deps = set()
        for a, ty in zip(args, tys):
            deps |= I.typed_deps(a, ty)
        for c in I.pathcond:
            deps |= c.deps
        I.effects.append((d, tuple(describe_arg(I, fr, a, ty) for a, ty in zip(args, tys)), tuple(I.pathcond), fr.body["d"]))
        I.opaque_calls.append((d, frozenset(deps), fr.body['d'], line))
        for a, ty in zip(args, tys):
            I.typed_havoc(a, ty, deps)
        if returns_arg0:
            return args[0]
        return I.top_value(dest, deps, 'call:' + d)
    return f


for _n in ("core::fmt::DebugTuple::<'a, 'b>::field", "core::fmt::DebugStruct::<'a, 'b>::field",
           "core::fmt::DebugList::<'a, 'b>::entry", "core::fmt::DebugSet::<'a, 'b>::entry"):
    LEAF[_n] = effect_leaf(True)
for _n in ("core::fmt::Formatter::<'a>::debug_tuple", "core::fmt::Formatter::<'a>::debug_struct",
           "core::fmt::DebugTuple::<'a, 'b>::finish", "core::fmt::DebugStruct::<'a, 'b>::finish",
           "core::fmt::Formatter::<'a>::write_str", "core::fmt::Formatter::<'a>::write_fmt",
           "core::fmt::Formatter::<'a>::precision", "core::fmt::Formatter::<'a>::debug_struct_field4_finish",
           "core::fmt::Formatter::<'a>::debug_struct_field2_finish", "core::fmt::Formatter::<'a>::debug_struct_field3_finish",
           "core::fmt::Formatter::<'a>::debug_tuple_field1_finish", "core::fmt::Formatter::<'a>::debug_tuple_field2_finish",
           "core::fmt::rt::Argument::<'_>::new_display", "core::fmt::rt::Argument::<'_>::new_debug",
           "core::fmt::rt::Argument::<'_>::new_lower_hex", "core::fmt::rt::Argument::<'_>::from_usize",
           "core::fmt::Arguments::<'a>::new", "core::fmt::Arguments::<'a>::from_str",
           "core::fmt::Arguments::<'a>::new_const", "core::fmt::Arguments::<'a>::new_v1", "core::fmt::Arguments::<'a>::new_v1_formatted"):
    LEAF[_n] = effect_leaf(False)


def _precheck(I, fr, callee, args, dest, argops, line):
    # library UB precondition checks (compiled out with debug-assertions off; no-ops for analysis)
    return Agg(0)


class LeafTable(_NumTable):
    def get(self, k, default=None):
        v = _NumTable.get(self, k)
        if v is not None:
            return v
        if _TRYFROM_RE.match(k):
            return tryfrom_leaf
        if k.endswith('::precondition_check'):
            return _precheck
        return default


def build():
    t = LeafTable()
    t.update(LEAF)
    return t


# ---------------------------------------------------------------------------------------------
# array::IntoIter reductions ([a, b, c].into_iter().max() etc.) modelled at the API level

_INTOITER_RE = re.compile(r'^core::array::iter::<impl core::iter::IntoIterator for \[T; N\]>::into_iter$')


def _iter_elems(I, fr, v, argop):
    # the IntoIter value is stored with the array cells at offset 0 (see _array_into_iter);
    # recover element type / count from the callee's Self type name
    tyid = I.op_ty(fr, argop)
    n = I.F.types[tyid]['n']
    m = re.match(r'^(?:std|core)::array::IntoIter<(.+), (\d+)>$', n)
    if not m:
        raise Abort('iterator reduction over %s' % n)
    cnt = int(m.group(2))
    ename = m.group(1)
    et = I.F.type_by_name(ename)
    if et is None:
        raise Abort('iterator element type %s' % ename)
    sz = et['sz']
    elems = []

    def find_array(tid, base):
        t = I.F.types[tid]
        if t.get('k') == 'array' and t.get('count') == cnt:
            return base
        for (off, fid, _n) in t.get('fields', []):
            r = find_array(fid, base + off)
            if r is not None:
                return r
        return None
    data = find_array(tyid, 0)
    if data is None:
        raise Abort('iterator data field')
    # the iterator must be fresh: alive range 0..N
    for j in range(cnt):
        c = v.cells.get(data + j * sz)
        if c is None or c[0] != sz:
            raise Abort('iterator element cell')
        elems.append(c[1])
    return elems, et


def _some(I, dest, val):
    t = I.F.types[dest]
    out = Agg(t['sz'])
    vs = t['variants']['vs']
    some = [i for i, v in enumerate(vs) if v['name'] == 'Some'][0]
    out.discr[(0, dest)] = const(int(vs[some]['discr']), 16)
    (off, fid, _n) = vs[some]['fields'][0]
    if isinstance(val, T):
        out.cells[off] = (I.F.types[fid]['sz'], val)
    else:
        for o, c in val.cells.items():
            out.cells[off + o] = c
    return out


@leaf('core::iter::Iterator::max', 'core::iter::Iterator::min')
def _iter_max(I, fr, callee, args, dest, argops, line):
    name = callee['d'].rsplit('::', 1)[1]
    elems, et = _iter_elems(I, fr, args[0], argops[0])
    if not elems:
        raise Abort('empty iterator reduction')
    tn = ('i' if et.get('signed') else 'u') + str(et['sz'] * 8)
    acc = elems[0]
    for e in elems[1:]:
        acc = tm.iop(name, tn, acc, e) if et.get('k') == 'int' else tm.f2('f' + name, acc, e)
    return _some(I, dest, acc)
