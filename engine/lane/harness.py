"""Root harness: interpret one function on fully symbolic arguments."""
import terms as tm
from terms import T, mk, const, ite, TRUE, FALSE, UNINIT
from interp import Interp, Agg, Abort, Frame
import tables

_LEAF = None


def leaf_table():
    global _LEAF
    if _LEAF is None:
        _LEAF = tables.build()
        try:
            import tables_simd  # noqa: F401  (registers coresimd / neon / wasm32 entries)
            _LEAF.update(tables.LEAF)
        except ImportError:
            pass
    return _LEAF


class AtomInfo(object):
    __slots__ = ('arg', 'off', 'size', 'kind', 'path', 'hidden', 'through_ptr', 'root_ty')

    def __init__(self, arg, off, size, kind, path, through_ptr, root_ty=None):
        self.root_ty = root_ty
        self.arg = arg
        self.off = off
        self.size = size
        self.kind = kind
        self.path = path
        self.hidden = False
        self.through_ptr = through_ptr


MASK_SIMD_TYPES = ('BVec3A', 'BVec4A')


class Root(object):
    """result of interpreting one root function"""

    def __init__(self):
        self.key = None
        self.args = []          # symbolic argument values (as passed)
        self.arg_objs = []      # for pointer args: pointee object ids
        self.ret = None
        self.ret_ty = None
        self.panics = []
        self.opaque = []
        self.effects = []
        self.mem_events = []
        self.abort = None
        self.atoms = {}         # atom term -> AtomInfo
        self.heap = None
        self.diverged = False
        self.unknown = {}


class Harness(object):
    def __init__(self, facts, opts=None):
        self.F = facts
        self.opts = opts or {}

    def new_interp(self):
        return Interp(self.F, leaf_table(), self.opts)

    # ---------------------------------------------------------------- symbolic values
    def sym(self, I, root, tyid, argi, name, base=0, through_ptr=False, overrides=None, depth=0, root_ty=None):
        """typed symbolic value whose scalar leaves are fresh atoms"""
        F = self.F
        t = F.types[tyid]
        k = t.get('k')
        sz = t['sz']
        if root_ty is None:
            root_ty = tyid
        if overrides is not None and (argi, base) in overrides and not through_ptr:
            return overrides[(argi, base)]
        if sz == 0:
            return Agg(0)
        if sz is None and k not in ('ptr',):
            # a value of generic / unknown layout: one opaque atom
            a = tm.atom('%s@opaque' % name)
            root.atoms[a] = AtomInfo(argi, base, 0, 'opaque', name, through_ptr, root_ty)
            return a
        if k in ('int', 'float', 'bool', 'char'):
            a = tm.atom('%s@%d' % (name, base))
            root.atoms[a] = AtomInfo(argi, base, sz, k, name, through_ptr, root_ty)
            return a
        if k == 'ptr':
            pointee = F.types[t['to']]
            fat = t.get('fat')
            ps = F.ptr_size
            if fat is None:
                if pointee['sz'] is None:
                    obj = I.new_obj(None, name + '*', 'arg')
                    a = tm.atom('%s*@opaque' % name)
                    root.atoms[a] = AtomInfo(argi, base, 0, 'opaque', name, True, t['to'])
                    obj.cells['opq'] = (0, a)
                    root.arg_objs.append((argi, base, obj.id, t['to'], t.get('mut'), None))
                    return tm.ptr(obj.id, 0)
                obj = I.new_obj(pointee['sz'], name + '*', 'arg')
                I.obj_align[obj.id] = pointee['al']
                v = self.sym(I, root, t['to'], argi, name + '*', 0, True, overrides, depth + 1, t['to'])
                I.write(obj, 0, pointee['sz'], v)
                root.arg_objs.append((argi, base, obj.id, t['to'], t.get('mut'), None))
                return tm.ptr(obj.id, 0)
            if fat == 'slice':
                elem = pointee['elem']
                obj = I.new_obj(None, name + '[]', 'arg')
                ln = tm.atom('%s.len' % name)
                root.atoms[ln] = AtomInfo(argi, base + ps, ps, 'len', name, through_ptr)
                obj.lazy = _slice_lazy(self, root, argi, name, elem)
                root.arg_objs.append((argi, base, obj.id, t['to'], t.get('mut'), ln))
                out = Agg(2 * ps)
                out.cells[0] = (ps, tm.ptr(obj.id, 0))
                out.cells[ps] = (ps, ln)
                return out
            if fat == 'str':
                obj = I.new_obj(None, name + '(str)', 'arg')
                ln = tm.atom('%s.len' % name)
                root.atoms[ln] = AtomInfo(argi, base + ps, ps, 'len', name, through_ptr)
                out = Agg(2 * ps)
                out.cells[0] = (ps, tm.ptr(obj.id, 0))
                out.cells[ps] = (ps, ln)
                return out
            # dyn / other: opaque object
            obj = I.new_obj(None, name + '(dyn)', 'arg')
            out = Agg(2 * ps)
            out.cells[0] = (ps, tm.ptr(obj.id, 0))
            out.cells[ps] = (ps, tm.atom('%s.vtable' % name))
            return out
        out = Agg(sz)
        if k == 'array':
            for j in range(t['count']):
                v = self.sym(I, root, t['elem'], argi, name, base + j * t['stride'], through_ptr, overrides, depth + 1, root_ty)
                self._put(out, j * t['stride'], t['elem'], v)
            return out
        if 'fields' in t:
            fields = t['fields'][:1] if t.get('adt') == 'union' else t['fields']
            is_mask = t.get('def', '').rsplit('::', 1)[-1] in MASK_SIMD_TYPES
            for (off, fid, _n) in fields:
                v = self.sym(I, root, fid, argi, name, base + off, through_ptr, overrides, depth + 1, root_ty)
                self._put(out, off, fid, v)
            if is_mask and (self._has_simd_field(t) or all(self.F.types[fid].get('k') == 'int' and self.F.types[fid]['sz'] == 4 for (_o, fid, _n) in fields)):
                # SIMD masks are canonical by construction (R-WHO): every lane is all-ones or zero.
                for off, (s, a) in list(out.cells.items()):
                    if a.op == 'atom':
                        root.atoms[a].kind = 'masklane'
                        out.cells[off] = (s, tm.mask(a, s))
            return out
        if 'variants' in t:
            d = tm.atom('%s@%d.discr' % (name, base))
            root.atoms[d] = AtomInfo(argi, base, 0, 'discr', name, through_ptr, root_ty)
            dvals = [int(v['discr']) for v in t['variants']['vs']]
            out.discr[(0, tyid)] = mk('discr_atom', d, max(dvals) if min(dvals) >= 0 else -1)
            vs = [v for v in t['variants']['vs'] if v['fields']]
            if len(vs) > 1:
                raise Abort('symbolic multi-payload enum %s' % t['n'])
            for v in vs:
                for (off, fid, _n) in v['fields']:
                    x = self.sym(I, root, fid, argi, name, base + off, through_ptr, overrides, depth + 1, root_ty)
                    self._put(out, off, fid, x)
            return out
        raise Abort('symbolic value of type %s' % t['n'])

    def _has_simd_field(self, t):
        for (_o, fid, _n) in t.get('fields', []):
            ft = self.F.types[fid]
            if ft.get('simd') or (ft.get('k') == 'adt' and ft.get('repr', {}).get('simd')):
                return True
        return False

    def _put(self, out, off, tyid, v):
        sz = self.F.types[tyid]['sz']
        if sz == 0:
            return
        if isinstance(v, T):
            out.cells[off] = (sz, v)
        else:
            for o, c in v.cells.items():
                out.cells[off + o] = c
            for (o, tid), d in v.discr.items():
                out.discr[(off + o, tid)] = d

    # ---------------------------------------------------------------- enum specialisation
    def enum_params(self, key):
        """by-value parameters that are fieldless glam enums: [(argi, tyid, [variant index...])]"""
        body = self.F.body(key)
        out = []
        if body is None:
            return out
        for i in range(body['argc']):
            tyid = body['locals'][i + 1]
            t = self.F.types[tyid]
            if 'variants' in t and t.get('crate') == 'glam' and all(not v['fields'] for v in t['variants']['vs']):
                out.append((i, tyid, list(range(len(t['variants']['vs'])))))
        return out

    def enum_value(self, tyid, variant):
        t = self.F.types[tyid]
        v = Agg(t['sz'])
        d = int(t['variants']['vs'][variant]['discr'])
        v.discr[(0, tyid)] = const(d & ((1 << 128) - 1), 16)
        if 'tag' in t['variants']:
            toff, tsz = t['variants']['tag']
            v.cells[toff] = (tsz, const(d & ((1 << (8 * tsz)) - 1), tsz))
        return v

    def run_all(self, key, overrides=None, max_combos=64):
        """interpret `key`; when it has fieldless-enum parameters, once per variant combination
        (exhaustive partial evaluation).  yields (label, Root)"""
        eps = self.enum_params(key)
        if not eps:
            yield ('', self.run(key, overrides))
            return
        combos = [[]]
        for (argi, tyid, vs) in eps:
            combos = [c + [(argi, tyid, v)] for c in combos for v in vs]
        if len(combos) > max_combos:
            yield ('', self.run(key, overrides))
            return
        for c in combos:
            av = {argi: self.enum_value(tyid, v) for (argi, tyid, v) in c}
            label = ','.join(self.F.types[tyid]['variants']['vs'][v]['name'] for (argi, tyid, v) in c)
            yield (label, self.run(key, overrides, av))

    # ---------------------------------------------------------------- running
    def run(self, key, overrides=None, arg_values=None, interp=None):
        """interpret body `key` on symbolic arguments.
        overrides: {(argi, offset): term}  replaces the atom of a by-value leaf
        arg_values: {argi: value} replaces a whole argument"""
        root = Root()
        root.key = key
        I = interp or self.new_interp()
        root.interp = I
        body = self.F.body(key)
        if body is None:
            root.abort = 'no body'
            return root
        try:
            args = []
            for i in range(body['argc']):
                tyid = body['locals'][i + 1]
                if arg_values is not None and i in arg_values:
                    args.append(arg_values[i])
                else:
                    args.append(self.sym(I, root, tyid, i, 'a%d' % i, 0, False, overrides))
            root.args = args
            root.ret_ty = body['locals'][0]
            mk_ = I.new_obj(1, 'arg-write-marker', 'marker')
            I.marker = mk_.id
            res = I.call_body(key, args, None)
            if res is None:
                root.diverged = True
            root.ret = res
        except Abort as e:
            root.abort = str(e)
        except RecursionError:
            root.abort = 'recursion limit'
        root.panics = I.panics
        root.opaque = I.opaque_calls
        root.effects = I.effects
        root.mem_events = I.mem_events
        root.heap = I.heap
        root.unknown = I.unknown_callees
        return root


def _slice_lazy(H, root, argi, name, elem_ty):
    esz = H.F.types[elem_ty]['sz']

    def lazy(I, obj, off, size, tyid):
        if tyid == 'deps':
            # a reader of unknown extent depends on every element: represent by a summary atom
            a = tm.atom('%s[*]' % name)
            root.atoms.setdefault(a, AtomInfo(argi, -1, 0, 'slice_all', name, True))
            return {a}
        if isinstance(tyid, tuple):
            return None
        if esz == 0:
            return Agg(0)
        lo = off // esz
        hi = (off + size + esz - 1) // esz
        mk_ = I.marker
        I.marker = None          # materialising the symbolic contents of the slice is not a write by the analysed code
        try:
            for j in range(lo, hi):
                if not I._overlaps(obj, j * esz, esz):
                    v = H.sym(I, root, elem_ty, argi, '%s[%d]' % (name, j), 0, True, None, 0, elem_ty)
                    I.write(obj, j * esz, esz, v)
        finally:
            I.marker = mk_
        if tyid == 'touch':
            return None
        save = obj.lazy
        obj.lazy = None
        try:
            return I.read(obj, off, size, tyid)
        finally:
            obj.lazy = save
    return lazy
