#!/usr/bin/env python3
"""update_seed_meta.py <matrix dir>: reads <dir>/<seed id>.txt written by tools/run_matrix.sh, refreshes checks_that_fire_quick_tier / checks_run in
seeded/<seed id>/meta.json and prints the markdown table for DESIGN.md section 8.5"""
import json, os, re, sys
MAT = sys.argv[1]
DST = os.path.join(os.path.dirname(os.path.dirname(os.path.abspath(__file__))), 'seeded')
rows = []
for sid in sorted(os.listdir(DST)):
    mp = os.path.join(DST, sid, 'meta.json')
    if not os.path.exists(mp):
        continue
    meta = json.load(open(mp))
    mt = os.path.join(MAT, sid + '.txt')
    if os.path.exists(mt):
        fired = {}
        txt = open(mt, 'rb').read().decode('utf8', 'replace')
        for m in re.finditer(r'== (C\d\d) rc=(\d)', txt):
            fired[m.group(1)] = (m.group(2) == '1')
        meta['checks_that_fire_quick_tier'] = sorted(c for c, v in fired.items() if v)
        meta['checks_run'] = sorted(fired)
        json.dump(meta, open(mp, 'w'), indent=1)
    own = sid[:3]
    f = meta.get('checks_that_fire_quick_tier', [])
    files = meta.get('files') or []
    if isinstance(files, str):
        files = [files]
    what = (meta.get('breaks') or '').replace('|', '/').replace('\n', ' ')
    if len(what) > 150:
        what = what[:147] + '...'
    rows.append('| %s | %s | %s | %s | %s |' % (sid, ', '.join(os.path.basename(x) for x in files[:2]), what, 'yes' if own in f else '**no**', ' '.join(c for c in f if c != own) or '-'))
print('| seed | file(s) | what it breaks | own check fires | other checks that fire |')
print('|---|---|---|---|---|')
print('\n'.join(rows))
