#!/usr/bin/env python3
"""Debug helper: pretty-print one body from a fact file."""
import sys, json
sys.path.insert(0, '/verif/engine/lane')
from facts import Facts
F = Facts(sys.argv[1])
pat = sys.argv[2]
def pl(p):
    s = '_%d' % p[0]
    for e in p[1]:
        if e[0] == 'd': s = '(*%s)' % s
        elif e[0] == 'f': s += '.%d@%d' % (e[3], e[1])
        elif e[0] == 'i': s += '[_%d*%d]' % (e[1], e[2])
        elif e[0] == 'ci': s += '[%d]' % e[1]
        elif e[0] == 'dc': s += ' as v%d' % e[1]
        else: s += str(e)
    return s
def op(o):
    if o[0] in 'cm': return ('move ' if o[0]=='m' else '') + pl(o[1])
    k = o[1]
    if k[0] == 'int': return 'const %s_%s' % (k[1], F.ty(k[3])['n'])
    if k[0] == 'fn': return 'fn %s' % k[1]['k']
    return 'const %s' % (k,)
def rv(r):
    if r[0] == 'use': return op(r[1])
    if r[0] == 'ref': return '&%s%s' % ('mut ' if r[2] else '', pl(r[1]))
    if r[0] == 'cast': return '%s as %s (%s)' % (op(r[2]), F.ty(r[3])['n'], r[1])
    if r[0] == 'bin': return '%s(%s, %s)' % (r[1], op(r[2]), op(r[3]))
    if r[0] == 'un': return '%s(%s)' % (r[1], op(r[2]))
    if r[0] == 'disc': return 'discriminant(%s)' % pl(r[1])
    if r[0] == 'agg': return '%s %s v%d {%s}' % (r[1], F.ty(r[2])['n'], r[3], ', '.join(op(x) for x in r[5]))
    if r[0] == 'rep': return '[%s; %d]' % (op(r[1]), r[2])
    return str(r)
for key in F.body_keys():
    if pat == key or (pat.endswith('*') and key.startswith(pat[:-1])) or (pat.startswith('~') and pat[1:] in key):
        b = F.body(key)
        print('fn', key, ' [%s:%s] argc=%d' % (b['file'], b['line'], b['argc']))
        for i, l in enumerate(b['locals']):
            print('   let _%d: %s' % (i, F.ty(l)['n']))
        for bi, bb in enumerate(b['blocks']):
            if bb is None: continue
            print('  bb%d:' % bi)
            for s in bb['s']:
                if s[0] == 'a': print('    %s = %s' % (pl(s[1]), rv(s[2])))
                else: print('    ', s)
            t = bb['t']
            if t[0] == 'call':
                print('    %s = %s(%s) -> %s   {cg=%s}' % (pl(t[3]), t[1].get('k', t[1]), ', '.join(op(a) for a in t[2]), t[4], t[1].get('cg')))
            elif t[0] == 'sw':
                print('    switch %s %s else %s' % (op(t[1]), t[2], t[3]))
            elif t[0] == 'assert':
                print('    assert(%s == %s) kind=%s -> %s' % (op(t[1]), t[2], t[3], t[4]))
            else: print('    ', t)
