#!/bin/bash
# seeds x checks matrix (quick tier).  usage: [MREPO=/tmp/mrepo] [SEEDS="C01 C02"] [SUF=b] run_matrix.sh <out dir>
# Applies each /verif/seeded/<id><SUF>/patch.diff to a scratch copy of /repo HEAD (never /repo itself), runs all twenty checks against it
# (GLAM_REPO / GLAM_VERIF_OUT), restores the copy.  Lanes with distinct MREPO can run concurrently.
OD=$1; MREPO=${MREPO:-/tmp/mrepo}; SUF=${SUF:-}
if [ ! -d "$MREPO/.git" ]; then
  rm -rf "$MREPO"; mkdir -p "$MREPO"
  (cd /repo && git archive HEAD | tar -x -C "$MREPO") && cp /repo/Cargo.lock "$MREPO/"
  (cd "$MREPO" && git init -q . && git add -A >/dev/null && git -c user.email=a@b -c user.name=x commit -qm base >/dev/null)
fi
export GLAM_REPO=$MREPO GLAM_VERIF_OUT=${MREPO}_out
mkdir -p $OD
for s in ${SEEDS:-C01 C02 C03 C04 C05 C06 C07 C08 C09 C10 C11 C12 C13 C14 C15 C16 C17 C18 C19 C20}; do
  cd $MREPO && git checkout -q -- . && git apply /verif/seeded/$s$SUF/patch.diff || { echo "$s$SUF: patch failed"; continue; }
  if [ -z "$CHECKS" ]; then : > $OD/$s$SUF.txt; fi
  for c in ${CHECKS:-C01 C02 C03 C04 C05 C06 C07 C08 C09 C10 C11 C12 C13 C14 C15 C16 C17 C18 C19 C20}; do
    if [ -n "$CHECKS" ] && [ -f $OD/$s$SUF.txt ]; then   # partial re-run: drop the old lines of this check
      awk -v c="$c" '/^== C[0-9][0-9] /{keep=($2!=c)} keep{print}' $OD/$s$SUF.txt > $OD/$s$SUF.tmp; mv $OD/$s$SUF.tmp $OD/$s$SUF.txt
    fi
    OUT=$(cd /verif && ./check $c --tier quick 2>&1); RC=$?
    echo "== $c rc=$RC $(echo "$OUT" | head -1)" >> $OD/$s$SUF.txt
    echo "$OUT" | grep -a "VIOLATION rule\|UNVERIFIABLE rule" | cut -c1-300 | head -2 >> $OD/$s$SUF.txt
  done
  cd $MREPO && git checkout -q -- .
  echo "$s$SUF: $(grep -ac 'rc=1' $OD/$s$SUF.txt) checks fired: $(grep -a 'rc=1' $OD/$s$SUF.txt | awk '{print $2}' | tr '\n' ' ')"
done
