#!/bin/bash
# usage: try_seed.sh <patch.diff> <check ids...>   -- applies the patch to /repo, runs the checks (quick), reverts
P="$1"; shift
cd /repo || exit 2
git diff --quiet || { echo "repo not clean"; exit 2; }
git apply "$P" || { echo "patch does not apply"; exit 2; }
for c in "$@"; do
  OUT=$(cd /verif && ./check $c --tier ${TIER:-quick} 2>&1)
  RC=$?
  echo "== $c rc=$RC $(echo "$OUT" | head -1)"
  echo "$OUT" | grep "VIOLATION rule\|UNVERIFIABLE rule" | cut -c1-${W:-330} | head -${N:-6}
done
git -C /repo checkout -- . ; git -C /repo status --short | head -3
