#!/usr/bin/env python3
"""Debug helper: interpret every root of a fact file, print abort reasons / unknown callees."""
import sys, collections, time
sys.path.insert(0, '/verif/engine/lane')
sys.setrecursionlimit(20000)
from facts import Facts
from harness import Harness
import terms as tm
F = Facts(sys.argv[1])
pat = sys.argv[2] if len(sys.argv) > 2 else ''
H = Harness(F)
aborts = collections.Counter(); unknown = collections.Counter(); n = 0; ok = 0
t0 = time.time()
slow = []
examples = {}
for name, it in F.items.items():
    if it['generic'] or pat not in name: continue
    t1 = time.time()
    try:
        r = H.run(it['key'])
    except Exception as e:
        import traceback
        aborts['EXC ' + repr(e)[:100]] += 1
        examples.setdefault('EXC ' + repr(e)[:100], (name, traceback.format_exc()))
        n += 1
        continue
    n += 1
    dt = time.time() - t1
    if dt > 0.5: slow.append((dt, name))
    if r.abort:
        aborts[r.abort[:110]] += 1
        examples.setdefault(r.abort[:110], (name, ''))
    else: ok += 1
    for d, c in r.unknown.items(): unknown[d] += c
print('roots', n, 'ok', ok, 'time %.1fs' % (time.time() - t0))
for a, c in aborts.most_common(60): print('  ABORT %5d  %s   e.g. %s' % (c, a, examples[a][0]))
for a in aborts:
    if a.startswith('EXC'): print(examples[a][1])
for d, c in unknown.most_common(80): print('  UNKNOWN %5d  %s' % (c, d))
for dt, nm in sorted(slow, reverse=True)[:15]: print('  SLOW %.2fs %s' % (dt, nm))
