#!/bin/bash
# usage: try_seed2.sh <patch.diff> <check ids...>  -- applies the patch to the scratch copy /tmp/srepo (never /repo), runs the checks against it, restores
P="$1"; shift
cd /tmp/srepo || exit 2
git checkout -q -- . ; git apply "$P" || { echo "patch does not apply"; exit 2; }
export GLAM_REPO=/tmp/srepo GLAM_VERIF_OUT=/tmp/srepo_out
for c in "$@"; do
  OUT=$(cd /verif && ./check $c --tier ${TIER:-quick} 2>&1); RC=$?
  echo "== $c rc=$RC $(echo "$OUT" | head -1)"
  echo "$OUT" | grep -a "VIOLATION rule\|UNVERIFIABLE rule" | cut -c1-${W:-300} | head -${N:-2}
done
git checkout -q -- .
