#!/usr/bin/env python3
"""prints the per-property as-built table of DESIGN.md section 8.2.1 from the rule modules and the current evidence files"""
import importlib, json, os, sys
HERE = os.path.dirname(os.path.dirname(os.path.abspath(__file__)))
sys.path.insert(0, os.path.join(HERE, 'engine', 'lane'))
sys.path.insert(0, os.path.join(HERE, 'rules'))
print('| property | level | rules (instances decided, quick tier) | build configurations | not decided (stated in level_note) |')
print('|---|---|---|---|---|')
for i in range(1, 21):
    pid = 'C%02d' % i
    m = importlib.import_module(pid)
    ev = json.load(open(os.path.join(HERE, 'evidence', pid + '.json')))
    cov = ev['coverage']
    per = {}
    for k, v in cov.get('per_rule', {}).items():
        r, verdict = k.split(':', 1)
        if verdict == 'HOLDS' or verdict.endswith('HOLDS'):
            per[r] = per.get(r, 0) + v
    rules = ', '.join('%s %d' % kv for kv in sorted(per.items()))
    cfgs = getattr(m, 'CONFIGS_QUICK', None)
    if cfgs is None:
        pairs = getattr(m, 'PAIRS_QUICK', None)
        cfgs = ['%s\\|%s' % p for p in pairs] if pairs else ['see module']
    note = getattr(m, 'LEVEL_NOTE', '').split('Trusted:')[0].strip().replace('|', '/')
    print('| %s | %s | %s (total %d) | %s | %s |' % (pid, m.LEVEL, rules, cov['discharged'], ' '.join(cfgs), note))
