#!/bin/bash
# usage: [MUT_SCRATCH=/tmp/dir] [TIER=quick|thorough] mut.sh '<sed expression>' <file relative to repo> <checks...>
# Applies a one-line mutation to a scratch copy of /repo (never /repo itself; created from /repo HEAD on first use), runs the checks against
# it (facts from GLAM_REPO, evidence/reports redirected with GLAM_VERIF_OUT), and restores the copy.
# With EXPR = "@patch", <file> is a unified diff to apply instead.
EXPR="$1"; FILE="$2"; shift 2
SCR="${MUT_SCRATCH:-/tmp/srepo}"
if [ ! -d "$SCR/.git" ]; then
  rm -rf "$SCR"; mkdir -p "$SCR"
  (cd /repo && git archive HEAD | tar -x -C "$SCR") && cp /repo/Cargo.lock "$SCR/"
  (cd "$SCR" && git init -q . && git add -A >/dev/null && git -c user.email=a@b -c user.name=x commit -qm base >/dev/null)
fi
cd "$SCR" || exit 2
git checkout -q -- .
if [ "$EXPR" = "@patch" ]; then git apply "$FILE" || { echo "patch does not apply"; exit 2; }
else sed -i "$EXPR" "$FILE"; fi
git diff --stat | tail -1
if git diff --quiet; then echo "mutation did not change anything"; exit 2; fi
export GLAM_REPO="$SCR" GLAM_VERIF_OUT="${SCR}_out"
for c in "$@"; do
  OUT=$(cd /verif && ./check $c --tier ${TIER:-quick} 2>&1); RC=$?
  echo "== $c rc=$RC $(echo "$OUT" | head -1)"
  echo "$OUT" | grep -a "VIOLATION rule\|UNVERIFIABLE rule" | cut -c1-${W:-330} | head -${N:-4}
done
git checkout -q -- .
