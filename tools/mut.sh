#!/bin/bash
# usage: mut.sh '<sed expression>' <file relative to repo> <checks...>  -- applies a one-line mutation to a scratch copy of /repo (/tmp/srepo),
# runs the checks against it (evidence/reports redirected to /tmp/srepo_out), restores the copy
EXPR="$1"; FILE="$2"; shift 2
cd /tmp/srepo || exit 2
git checkout -q -- .
sed -i "$EXPR" "$FILE"
git diff --stat | tail -1
if git diff --quiet; then echo "mutation did not change anything"; exit 2; fi
export GLAM_REPO=/tmp/srepo GLAM_VERIF_OUT=/tmp/srepo_out
for c in "$@"; do
  OUT=$(cd /verif && ./check $c --tier ${TIER:-quick} 2>&1); RC=$?
  echo "== $c rc=$RC $(echo "$OUT" | head -1)"
  echo "$OUT" | grep "VIOLATION rule\|UNVERIFIABLE rule" | cut -c1-${W:-330} | head -${N:-4}
done
git checkout -q -- .
