#!/usr/bin/env python3
"""summarise a check's report directory: group by (verdict, rule, config, last path segment, problem prefix)"""
import sys, json, os, collections, re
prop = sys.argv[1]
d = '/verif/reports/' + prop
c = collections.Counter(); ex = {}
for f in os.listdir(d):
    r = json.load(open(os.path.join(d, f)))
    inst = r['instance']
    m = re.findall(r'([A-Za-z0-9_]+)(?:<[^>]*>)?$', inst.split(' ')[0])
    seg = inst.rsplit('::', 1)[-1]
    ty = re.findall(r'(D?[IU]?\d*Vec[234]A?|D?Quat|D?Mat[234]A?|D?Affine[23]A?|BVec[234]A?)', inst)
    det = r['detail']
    p = det.get('problem', '') if isinstance(det, dict) else str(det)
    p = re.sub(r'a\d\*?@\d+', 'a@', str(p))[:int(sys.argv[2]) if len(sys.argv) > 2 else 90]
    k = (r['verdict'], r['rule'], r['config'], seg, p) if len(sys.argv) > 3 else (r['verdict'], r['rule'], r['config'], (ty[0] if ty else '-'), seg, p)
    c[k] += 1
for k, v in sorted(c.items(), key=lambda x: (x[0][2], x[0][4], x[0][3])):
    print(v, *k)
