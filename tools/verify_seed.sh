#!/bin/bash
# usage: verify_seed.sh Cxx  -- confirms in the scratch worktree /tmp/seed_Cxx that the seeded change (a) passes the existing suite,
# (b) makes the demonstration fail, (c) the demonstration passes without it.  Writes /tmp/seed_out/Cxx/verified.json
C="$1"; W=${SEEDW:-/tmp/seed_}$C; O=${SEEDO:-/tmp/seed_out}/$C; T=${W}_vtarget
lc=$(echo $C | tr 'A-Z' 'a-z')
cd $W || exit 2
git checkout -q -- src 2>/dev/null
git apply $O/patch.diff || { echo "{\"ok\": false, \"why\": \"patch does not apply\"}" > $O/verified.json; exit 1; }
DEMO=$(ls $O/*.rs | head -1); cp -f $DEMO tests/ 2>/dev/null
DN=$(basename $DEMO .rs)
FEAT=$(python3 -c "import json;print(json.load(open('$O/meta.json')).get('demo_features',''))" 2>/dev/null)
export CARGO_NET_OFFLINE=true CARGO_TARGET_DIR=$T
# (b) demo fails with the patch
RUSTFLAGS="${DEMO_RUSTFLAGS:-}" cargo test --offline $FEAT --test $DN > $O/v_demo_with.log 2>&1; RC_WITH=$?
# (a) suite passes with the patch (demo moved aside)
mv tests/$DN.rs /tmp/$DN.rs.aside
cargo test --offline --no-fail-fast > $O/v_suite.log 2>&1; RC_SUITE=$?
PASSED=$(grep -E "^test result" $O/v_suite.log | awk '{p+=$4; f+=$6} END{print p" "f}')
mv /tmp/$DN.rs.aside tests/$DN.rs
# (c) demo passes without the patch
git checkout -q -- src
RUSTFLAGS="${DEMO_RUSTFLAGS:-}" cargo test --offline $FEAT --test $DN > $O/v_demo_without.log 2>&1; RC_WITHOUT=$?
git apply $O/patch.diff
rm -rf $T
echo "{\"demo_rc_with_patch\": $RC_WITH, \"suite_rc_with_patch\": $RC_SUITE, \"suite_passed_failed\": \"$PASSED\", \"demo_rc_without_patch\": $RC_WITHOUT, \"ok\": $([ $RC_WITH -ne 0 ] && [ $RC_SUITE -eq 0 ] && [ $RC_WITHOUT -eq 0 ] && echo true || echo false)}" > $O/verified.json
cat $O/verified.json
