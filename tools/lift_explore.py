import sys, collections, glob
sys.path.insert(0,'/verif/engine/lane'); sys.path.insert(0,'/verif/rules'); sys.setrecursionlimit(20000)
from facts import Facts; from harness import Harness
import terms as tm, lift
from common import vec_info
cfg=sys.argv[1]; pat=sys.argv[2]
F=Facts(glob.glob('/verif/.cache/facts/*-%s.facts'%cfg)[0]); H=Harness(F)
for n,it in F.items.items():
    if it['generic'] or not it['reachable'] or pat not in n: continue
    if 'Swizzles' in (it.get('trait') or ''): continue
    r=H.run(it['key'])
    if r.abort: print(n,'ABORT',r.abort); continue
    body=F.body(it['key'])
    views=[lift.ArgView(F,r,i,body['locals'][i+1]) for i in range(body['argc'])]
    kind,ty,val=lift.result_of(F,r,body)
    lanes=lift.value_lanes(F,val,ty) if val is not None else None
    s='%-60s args=%s res=%s' % (n[-60:], [v.kind+str(v.dim) for v in views], kind)
    if lanes:
        ok,msg=lift.check_uniform(views,lanes)
        s+=' uniform=%s %s | lane0=%s' % (ok, msg[:200], tm.show(lanes[0],0,5)[:160])
    else:
        s+=' val=%s' % (str(val)[:200])
    print(s)
