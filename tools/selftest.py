#!/usr/bin/env python3
"""Sensitivity self-test of the checks: applies each mutant of MUTANTS to a scratch copy of /repo (never to /repo itself), runs the listed
checks against the copy (GLAM_REPO / GLAM_VERIF_OUT redirect facts input and evidence output) and reports which checks fire.
A mutant whose anchor text is missing fails closed (STALE).  usage: selftest.py [--only id,id] [--tier quick|thorough] [--keep]
Results are written to /verif/selftest_results.json (committed as the record of which check catches which change)."""
import json
import os
import shutil
import subprocess
import sys
import time

VERIF = os.path.dirname(os.path.dirname(os.path.abspath(__file__)))
SCR = os.environ.get('SELFTEST_SCRATCH', '/tmp/selftest_repo')
OUT = os.environ.get('SELFTEST_OUT', '/tmp/selftest_out')

# (id, file, old, new, checks expected to fire (any of), note)
MUTANTS = [
    ('m01-vec4-min-element-shuffle', 'src/f32/sse2/vec4.rs', 'let v = _mm_min_ps(v, _mm_shuffle_ps(v, v, 0b00_00_11_10));', 'let v = _mm_min_ps(v, _mm_shuffle_ps(v, v, 0b00_00_01_10));', ['C01'], 'min_element skips lane 3'),
    ('m02-vec3a-max-element-hidden', 'src/f32/sse2/vec3a.rs', 'let v = _mm_max_ps(v, _mm_shuffle_ps(v, v, 0b00_00_10_10));', 'let v = _mm_max_ps(v, _mm_shuffle_ps(v, v, 0b00_00_11_10));', ['C08', 'C01'], 'max_element reads the hidden lane'),
    ('m03-bvec3a-all-hidden', 'src/bool/sse2/bvec3a.rs', 'self.bitmask() == 0x7', '(unsafe { _mm_movemask_ps(self.0) } as u32) == 0xf', ['C08', 'C15'], 'all() consults the hidden mask lane'),
    ('m04-quat-mul-control-sign', 'src/f32/sse2/quat.rs', 'const CONTROL_ZWXY: __m128 = m128_from_f32x4([1.0, 1.0, -1.0, -1.0]);', 'const CONTROL_ZWXY: __m128 = m128_from_f32x4([1.0, -1.0, 1.0, -1.0]);', ['C04', 'C07'], 'Hamilton product sign'),
    ('m05-perspective-rh-w', 'src/f32/sse2/mat4.rs', 'Vec4::new(0.0, 0.0, r, -1.0),\n            Vec4::new(0.0, 0.0, r * z_near, 0.0),\n        )\n    }\n\n    /// Creates an infinite left-handed', 'Vec4::new(0.0, 0.0, r, 1.0),\n            Vec4::new(0.0, 0.0, r * z_near, 0.0),\n        )\n    }\n\n    /// Creates an infinite left-handed', ['C11', 'C07'], 'perspective_rh clip w sign'),
    ('m06-ivec3-checked-add-wraps', 'src/i32/ivec3.rs', 'let x = match self.x.checked_add(rhs.x) {', 'let x = match Some(self.x.wrapping_add(rhs.x)) {', ['C13'], 'checked_add lane x never None'),
    ('m07-vec2-from-angle-swap', 'src/f32/vec2.rs', 'let (sin, cos) = math::sin_cos(angle);\n        Self { x: cos, y: sin }', 'let (sin, cos) = math::sin_cos(angle);\n        Self { x: sin, y: cos }', ['C09', 'C02', 'C12'], 'from_angle swaps sin and cos'),
    ('m08-mat3-from-mat4-minor', 'src/f32/mat3.rs', '(0, 0) => Self::from_cols(m.y_axis.yzw(), m.z_axis.yzw(), m.w_axis.yzw()),', '(0, 0) => Self::from_cols(m.y_axis.yzw(), m.w_axis.yzw(), m.z_axis.yzw()),', ['C06'], 'minor (0,0) swaps two columns'),
    ('m09-vec3-midpoint', 'src/f32/vec3.rs', '(self + rhs) * 0.5', '(self + rhs) * 0.25', ['C02'], 'midpoint scale'),
    ('m10-write-to-slice-bound', 'src/f32/vec3.rs', 'slice[..3].copy_from_slice(&self.to_array());', 'slice[..2].copy_from_slice(&self.to_array()[..2]);', ['C17', 'C14'], 'write_to_slice drops z'),
    ('m11-uvec2-sat-add-signed', 'src/u32/uvec2.rs', 'x: self.x.saturating_add_signed(rhs.x),', 'x: self.x.wrapping_add_signed(rhs.x),', ['C13'], 'saturating_add_signed lane x wraps'),
    ('m12-vec4-select-swapped', 'src/f32/sse2/vec4.rs', '_mm_or_ps(\n                _mm_andnot_ps(mask.0, if_false.0),\n                _mm_and_ps(if_true.0, mask.0),', '_mm_or_ps(\n                _mm_andnot_ps(mask.0, if_true.0),\n                _mm_and_ps(if_false.0, mask.0),', ['C15', 'C07'], 'select picks the wrong operand'),
    ('m13-vec3a-cmpge-gt', 'src/f32/sse2/vec3a.rs', 'BVec3A(unsafe { _mm_cmpge_ps(self.0, rhs.0) })', 'BVec3A(unsafe { _mm_cmpgt_ps(self.0, rhs.0) })', ['C15', 'C07'], 'cmpge is strict'),
    ('m14-affine3a-inverse-translation', 'src/f32/affine3a.rs', 'let translation = -(matrix3 * self.translation);', 'let translation = matrix3 * self.translation;', ['C05', 'C03', 'C10'], 'affine inverse translation sign'),
    ('m15-mint-mat3-rowmajor', 'src/features/impl_mint.rs', 'impl From<mint::RowMatrix3<$t>> for $mat3 {\n            fn from(m: mint::RowMatrix3<$t>) -> Self {\n                Self::from_cols(m.x.into(), m.y.into(), m.z.into()).transpose()', 'impl From<mint::RowMatrix3<$t>> for $mat3 {\n            fn from(m: mint::RowMatrix3<$t>) -> Self {\n                Self::from_cols(m.x.into(), m.y.into(), m.z.into())', ['C19'], 'row-major mint matrix is not transposed'),
    ('m16-clamp-length-swapped', 'src/f32/vec3.rs', 'if length_sq < min * min {\n            min * (self / math::sqrt(length_sq))\n        } else if length_sq > max * max {\n            max * (self / math::sqrt(length_sq))', 'if length_sq < min * min {\n            max * (self / math::sqrt(length_sq))\n        } else if length_sq > max * max {\n            min * (self / math::sqrt(length_sq))', ['C12'], 'clamp_length swaps bounds'),
    ('m17-move-towards-overshoot', 'src/f32/vec3.rs', 'if len <= d || len <= 1e-4 {\n            return rhs;\n        }\n        *self + a / len * d', 'if len <= 1e-4 {\n            return rhs;\n        }\n        *self + a / len * d', ['C12'], 'move_towards may overshoot'),
    ('m18-look-to-rh-cross-order', 'src/f32/sse2/mat4.rs', 'let s = f.cross(up).normalize();\n        let u = s.cross(f);', 'let s = up.cross(f).normalize();\n        let u = s.cross(f);', ['C11', 'C07', 'C20'], 'look_to_rh handedness'),
    ('m19-from-rotation-arc-colinear-sign', 'src/f32/sse2/quat.rs', 'if from.dot(to) < 0.0 {\n            Self::from_rotation_arc(from, -to)', 'if from.dot(to) > 0.0 {\n            Self::from_rotation_arc(from, -to)', ['C12', 'C07'], 'from_rotation_arc_colinear picks the far direction'),
    ('m20-to-srt-sign-on-y', 'src/f32/sse2/mat4.rs', 'self.x_axis.length() * math::signum(det),\n            self.y_axis.length(),', 'self.x_axis.length(),\n            self.y_axis.length() * math::signum(det),', ['C10', 'C07'], 'determinant sign moved to the y scale'),
    ('m21-debug-fmt-order', 'src/f32/sse2/vec4.rs', '.field(&self.x)\n            .field(&self.y)\n            .field(&self.z)\n            .field(&self.w)', '.field(&self.x)\n            .field(&self.z)\n            .field(&self.y)\n            .field(&self.w)', ['C17', 'C07'], 'Debug prints y and z swapped on SSE2'),
    ('m22-as-u16vec3-lane', 'src/f32/vec3.rs', 'crate::U16Vec3::new(self.x as u16, self.y as u16, self.z as u16)', 'crate::U16Vec3::new(self.x as u16, self.y as u16, self.y as u16)', ['C14'], 'as_u16vec3 duplicates y'),
    ('m23-tryfrom-i64vec2', 'src/i32/ivec2.rs', 'Ok(Self::new(i32::try_from(v.x)?, i32::try_from(v.y)?))', 'Ok(Self::new(i32::try_from(v.x)?, v.y as i32))', ['C14'], 'TryFrom<I64Vec2> truncates y silently'),
    ('m24-vec4-from-vec3a-w', 'src/f32/sse2/vec4.rs', 'fn from((v, w): (Vec3A, f32)) -> Self {\n        v.extend(w)', 'fn from((v, _w): (Vec3A, f32)) -> Self {\n        Self(v.0)', ['C14', 'C08'], 'Vec4::from((Vec3A, w)) leaks the hidden lane instead of w'),
    ('m25-is-normalized-tolerance', 'src/f32/sse2/quat.rs', 'pub fn is_normalized(self) -> bool {\n        Vec4::from(self).is_normalized()', 'pub fn is_normalized(self) -> bool {\n        math::abs(self.length_squared() - 1.0) <= 2e-3', ['C20'], 'Quat::is_normalized uses a looser tolerance than every other type'),
    ('m26-dmat4-det-sign', 'src/f64/dmat4.rs', '+ m02 * (m10 * a1323 - m11 * a0323 + m13 * a0123)\n            - m03 * (m10 * a1223 - m11 * a0223 + m12 * a0123)\n    }\n\n    /// Returns the inverse', '+ m02 * (m10 * a1323 - m11 * a0323 + m13 * a0123)\n            + m03 * (m10 * a1223 - m11 * a0223 + m12 * a0123)\n    }\n\n    /// Returns the inverse', ['C03'], 'last cofactor sign of the 4x4 determinant'),
    ('m27-serde-mat3-order', 'src/features/impl_serde.rs', 'state.serialize_field(&m01)?;\n                state.serialize_field(&m02)?;\n                state.serialize_field(&m10)?;\n                state.serialize_field(&m11)?;', 'state.serialize_field(&m10)?;\n                state.serialize_field(&m02)?;\n                state.serialize_field(&m01)?;\n                state.serialize_field(&m11)?;', ['C19'], '3x3 matrices serialise two entries swapped'),
    ('m28-i64-rem-euclid', 'src/i64/i64vec3.rs', 'self.y.rem_euclid(rhs.y),', 'self.y % rhs.y,', ['C13'], 'rem_euclid lane y is the truncated remainder'),
    ('m29-vec3-refract', 'src/f32/vec3.rs', 'let k = 1.0 - eta * eta * (1.0 - n_dot_i * n_dot_i);', 'let k = 1.0 - eta * (1.0 - n_dot_i * n_dot_i);', ['C02'], 'refract discriminant'),
    ('m30-mat2-from-scale-angle', 'src/f32/sse2/mat2.rs', 'Self::new(cos * scale.x, sin * scale.x, -sin * scale.y, cos * scale.y)', 'Self::new(cos * scale.x, sin * scale.y, -sin * scale.x, cos * scale.y)', ['C10', 'C07'], 'from_scale_angle mixes the scale components'),
    # ---- batch 2
    ('m31-neon-round-ties-even', 'src/f32/neon/vec4.rs', 'Self(unsafe { vrndaq_f32(self.0) })', 'Self(unsafe { vrndnq_f32(self.0) })', ['C01'], 'NEON round() ties to even (thorough tier: aarch64 facts)', 'thorough'),
    ('m32-wasm32-floor-is-ceil', 'src/f32/wasm32/vec4.rs', 'Self(f32x4_floor(self.0))', 'Self(f32x4_ceil(self.0))', ['C01'], 'wasm32 floor() is ceil (thorough tier)', 'thorough'),
    ('m33-coresimd-dot3-four-lanes', 'src/coresimd.rs', 'pub(crate) fn dot3(lhs: f32x4, rhs: f32x4) -> f32 {\n    dot3_in_x(lhs, rhs)[0]', 'pub(crate) fn dot3(lhs: f32x4, rhs: f32x4) -> f32 {\n    (lhs * rhs).reduce_sum()', ['C08'], 'core-simd Vec3A::dot sums the hidden lane'),
    ('m34-vec4-write-to-slice-oob', 'src/f32/sse2/vec4.rs', 'pub fn write_to_slice(self, slice: &mut [f32]) {\n        assert!(slice.len() >= 4);', 'pub fn write_to_slice(self, slice: &mut [f32]) {\n        assert!(slice.len() >= 3);', ['C18'], 'raw 16-byte store after a 12-byte length check'),
    ('m35-bvec4-bitmask-shift', 'src/bool/bvec4.rs', '((self.w as u32) << 3)', '((self.w as u32) << 2)', ['C15'], 'bitmask puts w on bit 2'),
    ('m36-vec3a-with-z-writes-w', 'src/f32/sse2/vec3a.rs', 'pub fn with_z(mut self, z: f32) -> Self {\n        self.z = z;', 'pub fn with_z(mut self, z: f32) -> Self {\n        self.y = z;', ['C17', 'C16'], 'with_z changes y'),
    ('m37-mat3a-from-mat3-columns', 'src/f32/sse2/mat3a.rs', 'x_axis: m.x_axis.into(),\n            y_axis: m.y_axis.into(),\n            z_axis: m.z_axis.into(),\n        }\n    }\n}', 'x_axis: m.x_axis.into(),\n            y_axis: m.z_axis.into(),\n            z_axis: m.y_axis.into(),\n        }\n    }\n}', ['C05'], 'Mat3 -> Mat3A swaps columns'),
    ('m38-quat-from-rotation-y-sign', 'src/f32/sse2/quat.rs', 'Self::from_xyzw(0.0, s, 0.0, c)', 'Self::from_xyzw(0.0, -s, 0.0, c)', ['C09', 'C07'], 'from_rotation_y rotates clockwise'),
    ('m39-ortho-rh-gl-depth', 'src/f32/sse2/mat4.rs', 'let c = -2.0 / (far - near);\n        let tx = -(right + left) / (right - left);\n        let ty = -(top + bottom) / (top - bottom);\n        let tz = -(far + near) / (far - near);', 'let c = 2.0 / (far - near);\n        let tx = -(right + left) / (right - left);\n        let ty = -(top + bottom) / (top - bottom);\n        let tz = -(far + near) / (far - near);', ['C11', 'C07'], 'orthographic_rh_gl depth sign'),
    ('m40-i16vec4-wrapping-sub-lane', 'src/i16/i16vec4.rs', 'z: self.z.wrapping_sub(rhs.z),', 'z: self.z.wrapping_sub(rhs.w),', ['C13'], 'wrapping_sub lane z uses rhs.w'),
    ('m41-project-onto-normalized-no-assert', 'src/f32/vec3.rs', 'pub fn project_onto_normalized(self, rhs: Self) -> Self {\n        glam_assert!(rhs.is_normalized());', 'pub fn project_onto_normalized(self, rhs: Self) -> Self {', ['C20'], 'documented precondition no longer asserted'),
    ('m42-euler-order-table', 'src/euler.rs', 'EulerRot::XZY => Self::new(Axis::X, Parity::Odd, Repeated::No, Frame::Static),', 'EulerRot::XZY => Self::new(Axis::X, Parity::Even, Repeated::No, Frame::Static),', ['C09'], 'XZY decoded with the parity of XYZ'),
    ('m43-fma-without-fast-math', 'src/sse2.rs', '#[cfg(all(feature = "fast-math", target_feature = "fma"))]\n    {\n        _mm_fmadd_ps(a, b, c)\n    }\n\n    #[cfg(any(not(feature = "fast-math"), not(target_feature = "fma")))]\n    {\n        _mm_add_ps(_mm_mul_ps(a, b), c)', '#[cfg(target_feature = "fma")]\n    {\n        _mm_fmadd_ps(a, b, c)\n    }\n\n    #[cfg(not(target_feature = "fma"))]\n    {\n        _mm_add_ps(_mm_mul_ps(a, b), c)', ['C07'], 'fused multiply-add without fast-math'),
    ('m44-vec3a-min-position-hidden', 'src/f32/sse2/vec3a.rs', 'if self.z < min {\n            index = 2;\n        }\n        index\n    }\n\n    /// Returns the index of the first maximum', 'if self.z < min {\n            min = self.z;\n            index = 2;\n        }\n        if unsafe { _mm_cvtss_f32(_mm_shuffle_ps(self.0, self.0, 0b11_11_11_11)) } < min {\n            index = 0;\n        }\n        index\n    }\n\n    /// Returns the index of the first maximum', ['C08', 'C01'], 'min_position consults the hidden lane'),
    ('m45-ivec2-manhattan', 'src/i32/ivec2.rs', 'self.x.abs_diff(other.x) + self.y.abs_diff(other.y)', 'self.x.abs_diff(other.x) + self.x.abs_diff(other.y)', ['C13'], 'manhattan_distance mixes lanes'),
]


# behaviour-preserving edits: NO check may fire on these (run with --benign)
BENIGN = [
    ('b01-dot-reassociated', 'src/f32/vec3.rs', '(self.x * rhs.x) + (self.y * rhs.y) + (self.z * rhs.z)\n    }\n\n    /// Returns a vector where every component is the dot product', '(self.z * rhs.z) + ((self.x * rhs.x) + (self.y * rhs.y))\n    }\n\n    /// Returns a vector where every component is the dot product', ['C02', 'C03', 'C07', 'C08', 'C20'], 'dot product summed in another order (a few-epsilon property)'),
    ('b02-transpose-via-rows', 'src/f32/mat3.rs', 'x_axis: Vec3::new(self.x_axis.x, self.y_axis.x, self.z_axis.x),\n            y_axis: Vec3::new(self.x_axis.y, self.y_axis.y, self.z_axis.y),\n            z_axis: Vec3::new(self.x_axis.z, self.y_axis.z, self.z_axis.z),', 'x_axis: self.row(0),\n            y_axis: self.row(1),\n            z_axis: self.row(2),', ['C03', 'C06', 'C07', 'C18'], 'transpose written through row()'),
    ('b03-length-recip-direct', 'src/f32/vec3.rs', 'self.length().recip()', '1.0 / self.length()', ['C02', 'C07', 'C01'], 'length_recip written as a division'),
    ('b04-min-element-other-shuffles', 'src/f32/sse2/vec3a.rs', 'let v = _mm_min_ps(v, _mm_shuffle_ps(v, v, 0b01_01_10_10));\n            let v = _mm_min_ps(v, _mm_shuffle_ps(v, v, 0b00_00_00_01));', 'let v = _mm_min_ps(v, _mm_shuffle_ps(v, v, 0b00_00_00_01));\n            let v = _mm_min_ps(v, _mm_shuffle_ps(self.0, self.0, 0b10_10_10_10));', ['C01', 'C08', 'C07'], 'min_element folds the lanes in another (still hidden-lane-free) order'),
    ('b05-element-sum-order', 'src/f32/vec3.rs', 'self.x + self.y + self.z\n    }', 'self.z + self.y + self.x\n    }', ['C02', 'C01', 'C07'], 'element_sum in another order'),
    ('b06-write-to-slice-explicit', 'src/f32/vec3.rs', 'slice[..3].copy_from_slice(&self.to_array());', 'assert!(slice.len() >= 3);\n        slice[0] = self.x;\n        slice[1] = self.y;\n        slice[2] = self.z;', ['C17', 'C18', 'C14'], 'write_to_slice with an explicit length assert and element stores'),
    ('b11-dquat-rotate-towards-max-min', 'src/f64/dquat.rs', 'let s = (max_angle / angle).clamp(-1.0, 1.0);', 'let s = (max_angle / angle).max(-1.0).min(1.0);', ['C12', 'C18', 'C20'], 'clamp written as max().min()'),
    ('b12-mat3-write-cols-assert-then-store', 'src/f32/mat3.rs', 'slice[..9].copy_from_slice(&self.to_cols_array());', 'assert!(slice.len() >= 9);\n        let a = self.to_cols_array();\n        for i in 0..9 {\n            slice[i] = a[i];\n        }', ['C18', 'C06', 'C17'], 'write_cols_to_slice as a checked loop'),
    ('b13-dquat-arc-comparison-flipped-text', 'src/f64/dquat.rs', 'if dot > ONE_MINUS_EPS {\n            // 0° singularity: from ≈ to\n            Self::IDENTITY\n        } else if dot < -ONE_MINUS_EPS {\n            // 180° singularity: from ≈ -to\n            use core::f64::consts::PI;', 'if ONE_MINUS_EPS < dot {\n            // 0° singularity: from ≈ to\n            Self::IDENTITY\n        } else if -ONE_MINUS_EPS > dot {\n            // 180° singularity: from ≈ -to\n            use core::f64::consts::PI;', ['C12', 'C20'], 'comparisons written the other way round'),
    ('b14-vec3-sum-closure-operator', 'src/f32/vec3.rs', 'iter.fold(Self::ZERO, |a, &b| Self::add(a, b))', 'iter.fold(Self::ZERO, |a, &b| a + b)', ['C01', 'C18'], 'Sum closure written with the + operator'),
    ('b08-is-normalized-rewritten', 'src/f32/vec3.rs', 'math::abs(self.length_squared() - 1.0) <= 2e-4', '(self.length_squared() - 1.0).abs() <= 2e-4', ['C20', 'C02', 'C07'], 'is_normalized through the inherent abs'),
    ('b15-swizzle-default-through-let', 'src/swizzles/vec_traits.rs', 'fn xy(self) -> Self {\n        self\n    }', 'fn xy(self) -> Self {\n        let v = self;\n        v\n    }', ['C16'], 'identity swizzle through a temporary'),
    ('b16-from-slice-doc-reworded', 'src/f32/vec3.rs', '/// # Panics\n    ///\n    /// Panics if `slice` is less than 3 elements long.\n    #[inline]\n    #[must_use]\n    pub const fn from_slice', '/// # Panics\n    ///\n    /// This function will panic when fewer than 3 elements are supplied.\n    #[inline]\n    #[must_use]\n    pub const fn from_slice', ['C18', 'C20'], 'rustdoc of a panic reworded'),
    ('b17-bvec3-display-fields', 'src/bool/bvec3.rs', 'let arr = self.into_bool_array();\n        write!(f, "[{}, {}, {}]", arr[0], arr[1], arr[2])', 'write!(f, "[{}, {}, {}]", self.x, self.y, self.z)', ['C15', 'C07'], 'Display reads the bool fields directly'),
    ('b18-angle-between-lengths', 'src/f32/vec3.rs', '.div(math::sqrt(self.length_squared().mul(rhs.length_squared()))),', '.div(self.length().mul(rhs.length())),', ['C02', 'C04'], 'angle_between divides by the product of the lengths'),
    ('b19-try-normalize-guard-form', 'src/f32/vec3.rs', 'pub fn try_normalize(self) -> Option<Self> {\n        let rcp = self.length_recip();\n        if rcp.is_finite() && rcp > 0.0 {', 'pub fn try_normalize(self) -> Option<Self> {\n        let rcp = self.length_recip();\n        if rcp > 0.0 && rcp < f32::INFINITY {', ['C02', 'C07', 'C20'], 'finite-and-positive written as two comparisons'),
    ('b20-refract-strict-boundary', 'src/f32/vec3.rs', 'if k >= 0.0 {', 'if k > 0.0 {', ['C02'], 'refract: k == 0 on the other side'),
    ('b21-dquat-mul-vec3-two-cross', 'src/f64/dquat.rs', 'rhs.mul(w * w - b2)\n            .add(b.mul(rhs.dot(b) * 2.0))\n            .add(b.cross(rhs).mul(w * 2.0))', 'let t = b.cross(rhs).mul(2.0);\n        let _ = b2;\n        rhs.add(t.mul(w)).add(b.cross(t))', ['C04', 'C20', 'C11'], 'q*v through the two-cross-product formula (equal for unit q)'),
    ('b22-dquat-inverse-general', 'src/f64/dquat.rs', 'glam_assert!(self.is_normalized());\n        self.conjugate()', 'glam_assert!(self.is_normalized());\n        self.conjugate() / self.length_squared()', ['C04', 'C20', 'C12'], 'inverse as conjugate / |q|^2'),
    ('b23-affine3a-point-via-mul-add', 'src/f32/affine3a.rs', 'pub fn transform_point3a(&self, rhs: Vec3A) -> Vec3A {\n        self.matrix3 * rhs + self.translation', 'pub fn transform_point3a(&self, rhs: Vec3A) -> Vec3A {\n        self.matrix3.x_axis.mul_add(Vec3A::splat(rhs.x), self.matrix3.y_axis.mul_add(Vec3A::splat(rhs.y), self.matrix3.z_axis.mul_add(Vec3A::splat(rhs.z), self.translation)))', ['C07', 'C06', 'C11', 'C08'], 'transform_point3a through nested (always fused) mul_add'),
    ('b24-quat-shepperd-strict-guard', 'src/f32/sse2/quat.rs', 'if m22 <= 0.0 {', 'if m22 < 0.0 {', ['C05', 'C07'], 'Shepperd branch tie goes the other way'),
    ('b25-mat3-neg-via-scalar', 'src/f32/mat3.rs', 'Self::from_cols(self.x_axis.neg(), self.y_axis.neg(), self.z_axis.neg())', 'self.mul_scalar(-1.0)', ['C03', 'C07'], 'matrix negation as multiplication by -1.0'),
    ('b26-dvec2-move-towards-max', 'src/f64/dvec2.rs', 'if len <= d || len <= 1e-4 {', 'if len <= d.max(1e-4) {', ['C12'], 'reach test written with max'),
    ('b27-dvec3-rotate-towards-min-first', 'src/f64/dvec3.rs', '.max(angle_between - core::f64::consts::PI)\n            .min(angle_between);', '.min(angle_between)\n            .max(angle_between - core::f64::consts::PI);', ['C12', 'C18'], 'clamp of the rotation angle in the other order'),
    ('b28-vec2-lerp-expanded', 'src/f32/vec2.rs', 'self * (1.0 - s) + rhs * s', 'self - self * s + rhs * s', ['C12', 'C02'], 'lerp written as self - self*s + rhs*s (exact at both ends)'),
    ('b29-bvec3a-index-mod', 'src/bool/sse2/bvec3a.rs', '& 0x7', '% 8', ['C08', 'C15'], 'u32 % 8 for & 7'),
    ('b30-affine2-scale-copysign', 'src/f32/affine2.rs', 'self.matrix2.x_axis.length() * math::signum(det),', 'math::copysign(self.matrix2.x_axis.length(), det),', ['C10', 'C07'], 'scale.x through copysign'),
    ('b31-mat4-look-to-normalized-up', 'src/f32/sse2/mat4.rs', 'let s = f.cross(up).normalize();\n        let u = s.cross(f);\n\n        Self::from_cols(\n            Vec4::new(s.x, u.x, -f.x, 0.0),', 'let s = f.cross(up).normalize();\n        let u = s.cross(f).normalize();\n\n        Self::from_cols(\n            Vec4::new(s.x, u.x, -f.x, 0.0),', ['C11', 'C20'], 'look_to_rh re-normalises u (unit already under the documented precondition)'),
    ('b32-doc-feature-spelled-with-hyphen', 'src/f32/mat3.rs', '/// Will panic if `axis` is not normalized when `glam_assert` is enabled.\n    #[inline]\n    #[must_use]\n    pub fn from_axis_angle', '/// Will panic if `axis` is not normalized when the `glam-assert` feature is enabled.\n    #[inline]\n    #[must_use]\n    pub fn from_axis_angle', ['C20'], 'rustdoc names the cargo feature'),
    ('b33-comment-between-doc-and-fn', 'src/f32/vec2.rs', '/// Panics if `slice` is less than 2 elements long.\n    #[inline]\n    #[must_use]\n    pub const fn from_slice', '/// Panics if `slice` is less than 2 elements long.\n    // NOTE: const since 0.25.\n    #[inline]\n    #[must_use]\n    pub const fn from_slice', ['C18', 'C20'], 'a plain comment between rustdoc and attributes'),
    ('b34-doc-says-never-panics', 'src/f64/dvec2.rs', '    #[inline]\n    #[must_use]\n    pub fn normalize_or_zero(self) -> Self {', '    ///\n    /// Unlike [`Self::normalize`], this function will never panic, even when `glam_assert` is enabled.\n    #[inline]\n    #[must_use]\n    pub fn normalize_or_zero(self) -> Self {', ['C20'], 'rustdoc sentence saying the function never panics'),
    ('b35-look-to-doc-rewrapped', 'src/f32/sse2/mat4.rs', '/// Will panic if `dir` or `up` are not normalized when `glam_assert` is enabled.\n    #[inline]\n    #[must_use]\n    pub fn look_to_rh(', '/// Will panic if `dir` or `up` are not\n    /// normalized when `glam_assert` is enabled.\n    #[inline]\n    #[must_use]\n    pub fn look_to_rh(', ['C20', 'C11'], 'panic sentence wrapped over two doc lines'),
    ('b36-serde-visitor-match', 'src/features/impl_serde.rs', 'let x = seq\n                            .next_element()?\n                            .ok_or_else(|| de::Error::invalid_length(0, &self))?;\n                        let y = seq\n                            .next_element()?\n                            .ok_or_else(|| de::Error::invalid_length(1, &self))?;\n                        Ok($vec2::new(x, y))', 'let x = match seq.next_element()? {\n                            Some(x) => x,\n                            None => return Err(de::Error::invalid_length(0, &self)),\n                        };\n                        let y = match seq.next_element()? {\n                            Some(y) => y,\n                            None => return Err(de::Error::invalid_length(1, &self)),\n                        };\n                        Ok($vec2::new(x, y))', ['C19'], 'serde visitor written with match'),
    ('b37-vec3a-select-xor-blend', 'src/f32/sse2/vec3a.rs', '_mm_or_ps(\n                _mm_andnot_ps(mask.0, if_false.0),\n                _mm_and_ps(if_true.0, mask.0),\n            )', '_mm_xor_ps(if_false.0, _mm_and_ps(mask.0, _mm_xor_ps(if_true.0, if_false.0)))', ['C15', 'C01', 'C07'], 'select as the xor blend'),
    ('b38-vec4-abs-by-shifts', 'src/f32/sse2/vec4.rs', 'Self(unsafe { crate::sse2::m128_abs(self.0) })', 'Self(unsafe { _mm_castsi128_ps(_mm_srli_epi32(_mm_slli_epi32(_mm_castps_si128(self.0), 1), 1)) })', ['C01', 'C07', 'C20'], 'abs by shifting the sign bit out'),
    ('b39-vec3a-length-sqrt-ss', 'src/f32/sse2/vec3a.rs', '_mm_cvtss_f32(_mm_sqrt_ps(dot))', '_mm_cvtss_f32(_mm_sqrt_ss(dot))', ['C02', 'C07', 'C08', 'C12'], 'scalar square root instruction for a lane-0 result'),
    ('b40-vec4-wzyx-pshufd', 'src/swizzles/sse2/vec4_impl.rs', 'fn wzyx(self) -> Vec4 {\n        Vec4(unsafe { _mm_shuffle_ps(self.0, self.0, 0b00_01_10_11) })', 'fn wzyx(self) -> Vec4 {\n        Vec4(unsafe { _mm_castsi128_ps(_mm_shuffle_epi32(_mm_castps_si128(self.0), 0b00_01_10_11)) })', ['C16', 'C07'], 'swizzle through the integer shuffle'),
    ('b41-vec3-sum-ref-delegates', 'src/f32/vec3.rs', "I: Iterator<Item = &'a Self>,\n    {\n        iter.fold(Self::ZERO, |a, &b| Self::add(a, b))", "I: Iterator<Item = &'a Self>,\n    {\n        iter.copied().sum()", ['C01', 'C18'], 'Sum<&Self> delegating to the by-value impl'),
    ('b42-bvec3a-all-popcount', 'src/bool/sse2/bvec3a.rs', 'self.bitmask() == 0x7', 'self.bitmask().count_ones() == 3', ['C15', 'C01', 'C07'], 'all() through popcount'),
    ('b43-bvec3a-mask-wrapping-neg', 'src/bool/sse2/bvec3a.rs', 'MASK[x as usize], MASK[y as usize], MASK[z as usize], 0', '(x as u32).wrapping_neg(), (y as u32).wrapping_neg(), (z as u32).wrapping_neg(), 0', ['C15', 'C08'], 'mask lanes built with wrapping_neg'),
    ('b44-dvec3-is-normalized-two-sided', 'src/f64/dvec3.rs', 'math::abs(self.length_squared() - 1.0) <= 2e-4', '{\n            let d = self.length_squared() - 1.0;\n            -2e-4 <= d && d <= 2e-4\n        }', ['C20', 'C02'], 'is_normalized as a two-sided range test'),
    ('b45-vec4-neg-zero-minus', 'src/f32/sse2/vec4.rs', '_mm_xor_ps(_mm_set1_ps(-0.0), self.0)', '_mm_sub_ps(_mm_setzero_ps(), self.0)', ['C01'], 'negation as 0 - x (differs only in the sign of zero, which C01 does not distinguish)'),
    ('b46-dvec3-clamp-min-first', 'src/f64/dvec3.rs', 'self.max(min).min(max)', 'self.min(max).max(min)', ['C01', 'C17'], 'clamp in the other order (equal for min <= max)'),
    ('b47-i16vec3-clamp-min-first', 'src/i16/i16vec3.rs', 'self.max(min).min(max)', 'self.min(max).max(min)', ['C13'], 'integer clamp in the other order'),
    ('b48-doc-clause-order', 'src/f32/vec3.rs', '/// Will panic if `rhs` is not normalized when `glam_assert` is enabled.\n    #[inline]\n    #[must_use]\n    pub fn project_onto_normalized', '/// If `rhs` is not normalized this function will panic when `glam_assert` is enabled.\n    #[inline]\n    #[must_use]\n    pub fn project_onto_normalized', ['C20'], 'panic sentence with the clauses in another order'),
    ('b49-doc-split-in-two-sentences', 'src/f32/vec3.rs', '/// Will panic if `min` is negative when `glam_assert` is enabled.', '/// Will panic if `min` is negative. This check is only active when `glam_assert` is enabled.', ['C20'], 'panic sentence split in two'),
    ('b50-doc-example-inside-sentence', 'src/f32/vec3.rs', '/// Will panic if `min` is greater than `max` when `glam_assert` is enabled.\n    #[inline]\n    #[must_use]\n    pub fn clamp(', '/// Will panic if `min` is greater than `max`, e.g. `v.clamp(Vec3::ONE, Vec3::ZERO)`, when\n    /// `glam_assert` is enabled.\n    #[inline]\n    #[must_use]\n    pub fn clamp(', ['C20'], 'an example inside the panic sentence'),
    ('b51-doc-parenthetical-other-param', 'src/f32/vec3.rs', '/// Will panic if `rhs` is not normalized when `glam_assert` is enabled.\n    #[doc(alias("plane"))]\n    #[inline]\n    #[must_use]\n    pub fn reject_from_normalized', '/// Will panic if `rhs` is not normalized (`self` may have any length) when `glam_assert` is enabled.\n    #[doc(alias("plane"))]\n    #[inline]\n    #[must_use]\n    pub fn reject_from_normalized', ['C20'], 'a parenthetical remark naming another parameter'),
    ('b52-serde-visitor-let-else', 'src/features/impl_serde.rs', 'let x = seq\n                            .next_element()?\n                            .ok_or_else(|| de::Error::invalid_length(0, &self))?;\n                        let y = seq\n                            .next_element()?\n                            .ok_or_else(|| de::Error::invalid_length(1, &self))?;\n                        Ok($vec2::new(x, y))', 'let Some(x) = seq.next_element()? else {\n                            return Err(de::Error::invalid_length(0, &self));\n                        };\n                        let Some(y) = seq.next_element()? else {\n                            return Err(de::Error::invalid_length(1, &self));\n                        };\n                        Ok($vec2::new(x, y))', ['C19'], 'serde visitor written with let-else'),
    ('b53-vec2-index-cold-panic-helper', 'src/f32/vec2.rs', 'impl Index<usize> for Vec2 {\n    type Output = f32;\n    #[inline]\n    fn index(&self, index: usize) -> &Self::Output {\n        match index {\n            0 => &self.x,\n            1 => &self.y,\n            _ => panic!("index out of bounds"),', '#[cold]\n#[inline(never)]\nfn index_out_of_bounds() -> ! {\n    panic!("index out of bounds")\n}\n\nimpl Index<usize> for Vec2 {\n    type Output = f32;\n    #[inline]\n    fn index(&self, index: usize) -> &Self::Output {\n        match index {\n            0 => &self.x,\n            1 => &self.y,\n            _ => index_out_of_bounds(),', ['C18', 'C17'], 'out-of-line cold panic helper'),
    ('b09-cross-operand-order', 'src/f32/vec3.rs', 'x: self.y * rhs.z - rhs.y * self.z,', 'x: self.y * rhs.z - self.z * rhs.y,', ['C02', 'C03', 'C07', 'C11'], 'commuted product inside cross'),
]


def sh(cmd, **kw):
    return subprocess.run(cmd, shell=True, stdout=subprocess.PIPE, stderr=subprocess.STDOUT, **kw).stdout.decode('utf8', 'replace')


def fresh_copy():
    shutil.rmtree(SCR, ignore_errors=True)
    os.makedirs(SCR)
    sh('cd /repo && git archive HEAD | tar -x -C %s && cp /repo/Cargo.lock %s/' % (SCR, SCR))
    sh('cd %s && git init -q . && git add -A && git -c user.email=a@b -c user.name=x commit -qm base' % SCR)


def merge(n, benign):
    allr = {}
    for i in range(n):
        fn = os.path.join(VERIF, 'selftest_%sresults.%d.json' % ('benign_' if benign else '', i))
        for e in json.load(open(fn)):
            allr[e['id']] = e
        os.remove(fn)
    order = [m[0] for m in (BENIGN if benign else MUTANTS)]
    res = [allr[i] for i in order if i in allr]
    if benign:
        json.dump({'tier': 'quick', 'benign_edits': res}, open(os.path.join(VERIF, 'selftest_benign_results.json'), 'w'), indent=1)
        print('merged %d of %d benign edits, false alarms: %s' % (len(res), len(order), [r['id'] for r in res if r.get('fired')]))
    else:
        json.dump({'tier': 'quick', 'mutants': res}, open(os.path.join(VERIF, 'selftest_results.json'), 'w'), indent=1)
        print('merged %d of %d mutants, not caught: %s' % (len(res), len(order), [r['id'] for r in res if r['status'] != 'caught']))
    return 0


def main():
    only = None
    shard = None
    tier = 'quick'
    args = sys.argv[1:]
    while args:
        a = args.pop(0)
        if a == '--only':
            only = set(args.pop(0).split(','))
        elif a == '--tier':
            tier = args.pop(0)
        elif a == '--shard':      # --shard i/n: every n-th entry starting at i; run shards concurrently with distinct SELFTEST_SCRATCH / SELFTEST_OUT
            x, y = args.pop(0).split('/')
            shard = (int(x), int(y))
        elif a == '--merge':      # --merge n: combine the shard result files
            return merge(int(args.pop(0)), '--benign' in sys.argv)
    fresh_copy()
    env = dict(os.environ, GLAM_REPO=SCR, GLAM_VERIF_OUT=OUT)
    results = []
    benign = '--benign' in sys.argv
    for idx, mut in enumerate(BENIGN if benign else MUTANTS):
        if shard and idx % shard[1] != shard[0]:
            continue
        (mid, rel, old, new, checks, note) = mut[:6]
        mtier = mut[6] if len(mut) > 6 else tier
        if only and mid not in only:
            continue
        if old is None:
            continue
        p = os.path.join(SCR, rel)
        sh('cd %s && git checkout -q -- .' % SCR)
        src = open(p, encoding='utf8').read()
        if src.count(old) < 1:
            print('%-38s STALE (anchor text not found in %s)' % (mid, rel))
            results.append({'id': mid, 'status': 'stale'})
            continue
        open(p, 'w', encoding='utf8').write(src.replace(old, new, 1))
        fired = []
        detail = {}
        t0 = time.time()
        for c in checks:
            out = sh('cd %s && ./check %s --tier %s' % (VERIF, c, mtier), env=env)
            lines = [l for l in out.split('\n') if 'VIOLATION rule' in l or 'UNVERIFIABLE rule' in l]
            if 'VIOLATION property=' in out:
                fired.append(c)
                detail[c] = [l.strip()[:260] for l in lines[:2]]
        if benign:
            print('%-38s %s  fired=%s  (%.0fs)' % (mid, 'FALSE-ALARM' if fired else 'quiet', ','.join(fired) or '-', time.time() - t0))
            for c_, d_ in detail.items():
                print('      ', c_, d_[:1])
        else:
            print('%-38s %s  fired=%s  (%.0fs)' % (mid, 'CAUGHT' if fired else 'MISSED', ','.join(fired) or '-', time.time() - t0))
        sys.stdout.flush()
        results.append({'id': mid, 'file': rel, 'note': note, 'checks_run': checks, 'fired': fired, 'status': 'caught' if fired else 'missed', 'first_reports': detail})
    sh('cd %s && git checkout -q -- .' % SCR)
    if '--keep' not in sys.argv:
        shutil.rmtree(SCR, ignore_errors=True)
        shutil.rmtree(OUT, ignore_errors=True)
    if shard:
        json.dump(results, open(os.path.join(VERIF, 'selftest_%sresults.%d.json' % ('benign_' if benign else '', shard[0])), 'w'), indent=1)
        print('shard done: not caught / alarms: %s' % [r['id'] for r in results if (r.get('fired') if benign else r['status'] != 'caught')])
        return 0
    if benign:
        alarms = [r['id'] for r in results if r.get('fired')]
        if not only:
            json.dump({'tier': tier, 'benign_edits': results}, open(os.path.join(VERIF, 'selftest_benign_results.json'), 'w'), indent=1)
        print('summary: %d benign edits, false alarms: %s' % (len(results), alarms))
        return 1 if alarms else 0
    if not only:
        json.dump({'tier': tier, 'mutants': results}, open(os.path.join(VERIF, 'selftest_results.json'), 'w'), indent=1)
    missed = [r['id'] for r in results if r['status'] != 'caught']
    print('summary: %d mutants, %d caught, not caught: %s' % (len(results), len(results) - len(missed), missed))
    return 1 if missed else 0


if __name__ == '__main__':
    sys.exit(main())
