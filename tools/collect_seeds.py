#!/usr/bin/env python3
"""copies the confirmed seeded changes from /tmp/seed_out into /verif/seeded/<id>/ (patch.diff, demonstration, meta.json)"""
import json, os, re, shutil, sys
import sys
ROUND = sys.argv[1] if len(sys.argv) > 1 else '1'
SRC = '/tmp/seed_out' if ROUND == '1' else '/tmp/seed2_out'
DST = '/verif/seeded'
MAT = '/tmp/matrix' if ROUND == '1' else '/tmp/matrix2'
SUF = '' if ROUND == '1' else 'b'
for sid in sorted(os.listdir(SRC)):
    d = os.path.join(SRC, sid)
    if not os.path.exists(os.path.join(d, 'verified.json')):
        continue
    ver = json.load(open(os.path.join(d, 'verified.json')))
    if not ver.get('ok'):
        print(sid, 'not verified, skipped')
        continue
    out = os.path.join(DST, sid + SUF)
    os.makedirs(out, exist_ok=True)
    shutil.copy(os.path.join(d, 'patch.diff'), os.path.join(out, 'patch.diff'))
    demo = [f for f in os.listdir(d) if f.endswith('.rs')][0]
    shutil.copy(os.path.join(d, demo), os.path.join(out, demo))
    meta = json.load(open(os.path.join(d, 'meta.json')))
    fired = {}
    mt = os.path.join(MAT, sid + '.txt')
    if os.path.exists(mt):
        txt = open(mt, 'rb').read().decode('utf8', 'replace')
        for m in re.finditer(r'== (C\d\d) rc=(\d)', txt):
            fired[m.group(1)] = (m.group(2) == '1')
    new = {
        'property': sid,
        'breaks': meta.get('summary'),
        'needs_to_manifest': meta.get('needs'),
        'files': meta.get('files'),
        'demonstration': demo,
        'demonstration_features': meta.get('demo_features', ''),
        'produced_by': 'a fresh sub-agent given only the text of property %s and a scratch git worktree of /repo' % sid,
        'what_was_run_to_confirm': {
            'in': 'scratch worktree /tmp/seed%s_%s (removed afterwards); tools/verify_seed.sh %s' % ('' if ROUND == '1' else '2', sid, sid),
            'demonstration_with_patch_exit_code': ver['demo_rc_with_patch'],
            'pinned_suite_with_patch_exit_code': ver['suite_rc_with_patch'],
            'pinned_suite_passed_failed': ver['suite_passed_failed'],
            'demonstration_without_patch_exit_code': ver['demo_rc_without_patch'],
            'demo_rustflags': ({'C01': '-C target-feature=+sse4.1', 'C07': '-C target-feature=+fma,+avx2'} if ROUND == '1' else {'C16': '-C target-feature=+sse4.1'}).get(sid, ''),
        },
        'checks_that_fire_quick_tier': sorted(c for c, v in fired.items() if v),
        'checks_run': sorted(fired),
    }
    json.dump(new, open(os.path.join(out, 'meta.json'), 'w'), indent=1)
    print(sid, 'fired:', new['checks_that_fire_quick_tier'])
