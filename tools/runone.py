#!/usr/bin/env python3
import sys
sys.path.insert(0, '/verif/engine/lane')
sys.setrecursionlimit(20000)
from facts import Facts
from harness import Harness
import terms as tm
F = Facts(sys.argv[1]); H = Harness(F)
for pat in sys.argv[2:]:
    for name, it in F.items.items():
        if it['generic'] or not (name == pat or (pat.startswith('~') and pat[1:] in name)): continue
        r = H.run(it['key'])
        print('==', name, 'abort=%s diverged=%s' % (r.abort, r.diverged))
        print('   args:', r.args)
        print('   ret :', r.ret)
        for (ai, base, oid, ty, mut, ln) in r.arg_objs:
            print('   argobj a%d -> %s' % (ai, r.heap.get(oid)))
        for p in r.panics: print('   PANIC', p)
        for o in r.opaque: print('   OPAQUE', o[0], sorted(tm.show(x) for x in o[1])[:8])
        for m in r.mem_events: print('   MEM', m[:7])
