#!/usr/bin/env python3
"""Regression corpus from the red-team review (mutations that once evaded every check).  Each entry: (id, file, sed expression, checks that must
now report it).  usage: redteam.py [--only id,..] ; applies each to a scratch copy (never /repo) and runs the listed checks (quick tier)."""
import os, subprocess, sys, time, json
VERIF = os.path.dirname(os.path.dirname(os.path.abspath(__file__)))
SCR = os.environ.get('REDTEAM_SCRATCH', '/tmp/redteam_repo')
M = [
 # --- agent A (C01-C07)
 ('A1b-dvec3-cmpge-z', 'src/f64/dvec3.rs', r's/self\.y\.ge(&rhs\.y), self\.z\.ge(&rhs\.z))/self.y.ge(\&rhs.y), self.z.gt(\&rhs.z))/', ['C15', 'C01']),
 ('A2-vec4-product-zero-seed', 'src/f32/sse2/vec4.rs', r's/iter\.fold(Self::ONE, |a, &b| Self::mul(a, b))/iter.fold(Self::ZERO, |a, \&b| Self::mul(a, b))/', ['C01']),
 ('A3-vec4-index-2', 'src/f32/sse2/vec4.rs', r'1796s/2 => &self\.z,/2 => \&self.y,/', ['C17']),
 ('A4-dquat-length', 'src/f64/dquat.rs', r'528s/DVec4::from(self)\.length()/DVec4::from(self).length_squared()/', ['C04']),
 ('A5-dmat4-transform-vector3', 'src/f64/dmat4.rs', r'1081s/self\.z_axis\.mul(rhs\.z)/self.z_axis.mul(rhs.y)/', ['C11', 'C06']),
 ('A6-dquat-as-quat', 'src/f64/dquat.rs', r'790s/self\.z as f32, self\.w as f32/self.w as f32, self.z as f32/', ['C14', 'C05']),
 ('A7-vec4-cmpge-cmpnlt', 'src/f32/sse2/vec4.rs', r'411s/_mm_cmpge_ps/_mm_cmpnlt_ps/', ['C15']),
 ('A10-vec4-display-literal', 'src/f32/sse2/vec4.rs', r's/"\[{:\.\*}, {:\.\*}, {:\.\*}, {:\.\*}\]"/"[{:.*}, {:.*}, {:.*}; {:.*}]"/', ['C07', 'C17']),
 ('A11-libm-rem-euclid', 'src/f32/math.rs', r's/r + abs(b)/r + b/', ['C01']),
 ('A12-coresimd-dot4', 'src/coresimd.rs', r'17s/\[2, 3, 0, 0\]/[2, 2, 0, 0]/', ['C02', 'C07']),
 ('A13-neon-mat4-det', 'src/f32/neon/mat4.rs', r'613s/m21 \* m32 - m22 \* m31/m21 * m32 - m22 * m30/', ['C03']),
 ('A14-wasm32-quat-mul', 'src/f32/wasm32/quat.rs', r'765s/\[1\.0, 1\.0, -1\.0, -1\.0\]/[1.0, -1.0, 1.0, -1.0]/', ['C04']),
 ('A15-fastmath-fmadd-operands', 'src/sse2.rs', r'134s/_mm_fmadd_ps(a, b, c)/_mm_fmadd_ps(a, c, b)/', ['C12', 'C07']),
 ('A17-vec3a-neg-z-const', 'src/f32/sse2/vec3a.rs', r'81s/Self::new(0\.0, 0\.0, -1\.0)/Self::new(0.0, -1.0, 0.0)/', ['C17']),
 ('A18-vec3-length-removable-singularity', 'src/f32/vec3.rs', r'517s/math::sqrt(self\.dot(self))/self.dot(self) \/ math::sqrt(self.dot(self))/', ['C02']),
 # --- agent B (C08-C14)
 ('B1-dquat-from-scaled-axis', 'src/f64/dquat.rs', r's|Self::from_axis_angle(v / length, length)|Self::from_axis_angle(v / length, 0.5 * length)|', ['C09']),
 ('B2-dquat-rotate-towards-clamp', 'src/f64/dquat.rs', r's|let s = (max_angle / angle).clamp(-1.0, 1.0);|let s = (max_angle / angle).clamp(-1.0, 2.0);|', ['C12']),
 ('B3-dquat-look-at-lh', 'src/f64/dquat.rs', r's|Self::look_to_lh(center.sub(eye).normalize(), up)|Self::look_to_rh(center.sub(eye).normalize(), up)|', ['C11']),
 ('B4-dquat-slerp-threshold', 'src/f64/dquat.rs', r's|const DOT_THRESHOLD: f64 = 1.0 - f64::EPSILON;|const DOT_THRESHOLD: f64 = 0.5;|', ['C12']),
 ('B5-dquat-arc-antiparallel', 'src/f64/dquat.rs', r's|Self::from_axis_angle(from.any_orthonormal_vector(), PI)|Self::from_axis_angle(from.any_orthonormal_vector(), 0.5 * PI)|', ['C12']),
 ('B6-to-euler-gimbal-branch', 'src/euler.rs', r'382s|ea.x = math::atan2(-self.col(j)\[k\], self.col(j)\[j\]);|ea.x = math::atan2(self.col(j)[k], self.col(j)[j]);|', ['C09']),
 ('B7-affine3a-to-srt-rotation', 'src/f32/affine3a.rs', r'303s|(self.matrix3.z_axis \* inv_scale.z).into()|(self.matrix3.z_axis * inv_scale.y).into()|', ['C10']),
 ('B8-dvec3-midpoint', 'src/f64/dvec3.rs', r'865s|(self + rhs) \* 0.5|(self - rhs) * 0.5|', ['C02']),
 ('B9-f64-inverse-lerp', 'src/f64/float.rs', r'13s|(v - a) / (b - a)|(v - b) / (b - a)|', ['C12']),
 ('B10-vec3-lerp', 'src/f32/vec3.rs', r's|self \* (1.0 - s) + rhs \* s$|self * (1.0 - s * s) + rhs * s|', ['C02', 'C12']),
 ('B11-i16vec3-product-seed', 'src/i16/i16vec3.rs', r'1653s|Self::ONE|Self::ZERO|', ['C13']),
 ('B12-i16vec3-element-sum-wrapping', 'src/i16/i16vec3.rs', r'320s|self.x + self.y + self.z|self.x + self.y.wrapping_add(self.z)|', ['C13']),
 ('B13a-checked-manhattan-saturating', 'src/i16/i16vec3.rs', r'507s|let d = d.checked_add(self.y.abs_diff(other.y))?;|let d = d.saturating_add(self.y.abs_diff(other.y));|', ['C13']),
 ('B13b-checked-manhattan-sub', 'src/i16/i16vec3.rs', r'508s|d.checked_add(self.z.abs_diff(other.z))|d.checked_sub(self.z.abs_diff(other.z))|', ['C13']),
 ('B14-i8vec4-add-wrapping-lane', 'src/i8/i8vec4.rs', r'1279s|self.w.add(rhs.w)|self.w.wrapping_add(rhs.w)|', ['C13']),
 ('B15-coresimd-vec3a-from-vec2', 'src/f32/coresimd/vec3a.rs', r'1967s|Self::new(v.x, v.y, z)|Self::new(v.y, v.x, z)|', ['C14']),
 ('B16-neon-element-product-hidden', 'src/f32/neon/vec3a.rs', r'375s|vmuls_laneq_f32(s, self.0, 2)|vmuls_laneq_f32(s, self.0, 3)|', ['C08']),
 ('B18-bvec3a-hash-hidden', 'src/bool/sse2/bvec3a.rs', r'153s|self.bitmask().hash(state);|(unsafe { _mm_movemask_ps(self.0) } as u32).hash(state);|', ['C08', 'C15']),
 ('B19-to-axis-angle-eps', 'src/f64/dquat.rs', r'445s|const EPSILON: f64 = 1.0e-8;|const EPSILON: f64 = 1.0e-1;|', ['C09']),
 ('B21-dvec3-slerp-fallback-length', 'src/f64/dvec3.rs', r'1116s|rotation \* self \* (result_length / self_length)|rotation * self * (result_length / rhs_length)|', ['C12']),
 ('B23-f64-acos-noclamp', 'src/f64/math.rs', r'117s|f64::acos(f64::clamp(f, -1.0, 1.0))|f64::acos(f)|', ['C02', 'C12']),
 ('B25-coresimd-ortho-rh', 'src/f32/coresimd/mat4.rs', r'1115s|r \* near,|r * far,|', ['C11']),
 ('B27-clamp-length-max-direction', 'src/f64/dvec3.rs', r'913s|if length_sq > max \* max {|if length_sq < max * max {|', ['C12']),
 ('B28-any-orthogonal-vector-zero', 'src/f64/dvec3.rs', r'1035s|if math::abs(self.x) > math::abs(self.y) {|if math::abs(self.x) < math::abs(self.y) {|', ['C12']),
 ('B30-dquat-slerp-dot-sign', 'src/f64/dquat.rs', r'713s|if dot < 0.0 {|if dot > 0.0 {|', ['C12']),
 # --- agent C (C15-C20)
 ('C1-vec3-from-tuple', 'src/f32/vec3.rs', r'2039s/t.0, t.1, t.2/t.0, t.2, t.1/', ['C14', 'C17']),
 ('C2-ivec3-from-array', 'src/i32/ivec3.rs', r'110s/a\[0\], a\[1\], a\[2\]/a[0], a[2], a[1]/', ['C14', 'C17']),
 ('C3-quat-to-array', 'src/f32/sse2/quat.rs', r'497s/self.x, self.y, self.z, self.w/self.x, self.y, self.w, self.z/', ['C17', 'C14']),
 ('C5-neon-bvec3a-all', 'src/bool/neon/bvec3a.rs', r'93s/0x7/0x3/', ['C15']),
 ('C7-wasm32-wzyx', 'src/swizzles/wasm32/vec4_impl.rs', r'1779s/<3, 2, 5, 4>/<3, 2, 5, 5>/', ['C16']),
 ('C8-ivec2-wrapping-add-plus', 'src/i32/ivec2.rs', r'630s/self.x.wrapping_add(rhs.x)/self.x + rhs.x/', ['C13', 'C18']),
 ('C9-quat-from-slice-exact-len', 'src/f32/sse2/quat.rs', r'112s/>= 4/== 4/', ['C18']),
 ('C11-dmat4-row-arm-deleted', 'src/f64/dmat4.rs', r'560d', ['C18', 'C06']),
 ('C12-neon-write-to-slice-len', 'src/f32/neon/vec4.rs', r'164s/>= 4/>= 3/', ['C18']),
 ('C13-vec3-sum-reduce-unwrap', 'src/f32/vec3.rs', r'1923s/iter.fold(Self::ZERO, Self::add)/iter.reduce(Self::add).unwrap()/', ['C18', 'C01']),
 ('C14-serde-deser-name', 'src/features/impl_serde.rs', r'276s/stringify!(\$quat)/"Quat"/', ['C19']),
 ('C15-cuda-vec3-align', 'src/f32/vec3.rs', r'18s/^/#[cfg_attr(feature = "cuda", repr(align(16)))]\n/', ['C19']),
 ('C16-pod-for-bvec4a', 'src/features/impl_bytemuck.rs', r'31s/^/unsafe impl Pod for crate::BVec4A {}\nunsafe impl Zeroable for crate::BVec4A {}\n/', ['C19', 'C15']),
 ('C17-clamp-assert-any', 'src/f32/vec3.rs', r'281s/min.cmple(max).all()/min.cmple(max).any()/', ['C20']),
 ('C18-clamp-length-min-strict', 'src/f32/vec3.rs', r'928s/0.0 <= min/0.0 < min/', ['C20']),
 ('C19-extra-assert-angle-between', 'src/f32/vec3.rs', r'998s/^/        glam_assert!(rhs.is_normalized());\n/', ['C20']),
 ('C20-any-orthonormal-pair', 'src/f32/vec3.rs', r'1076s/sign + self.y \* self.y \* a/sign + self.y * self.x * a/', ['C12', 'C20']),
 ('C21-mat3-from-translation-bottom', 'src/f32/mat3.rs', r'326s/translation.y, 1.0/translation.y, 0.0/', ['C10', 'C11', 'C20']),
 ('C24-bvec3a-display-u32', 'src/bool/sse2/bvec3a.rs', r'233s/into_bool_array/into_u32_array/', ['C15']),
 # --- round 2, agent B (C08-C14)
 ('R2B-E1-to-euler-guard-reversed', 'src/euler.rs', r's/if (cy > 16.0/if (cy < 16.0/', ['C09']),
 ('R2B-a-to-axis-angle-guard-reversed', 'src/f64/dquat.rs', r'448s/if length >= EPSILON {/if length < EPSILON {/', ['C09']),
 ('R2B-f-from-scaled-axis-guard-reversed', 'src/f64/dquat.rs', r'143s/if length == 0.0 {/if length != 0.0 {/', ['C09']),
 ('R2B-b-slerp-threshold-reversed', 'src/f64/dquat.rs', r'719s/if dot > DOT_THRESHOLD {/if dot < DOT_THRESHOLD {/', ['C12']),
 ('R2B-c-arc-guard-reversed', 'src/f64/dquat.rs', r'303s/if dot > ONE_MINUS_EPS {/if dot < ONE_MINUS_EPS {/', ['C12']),
 ('R2B-A6-vec-slerp-fallback-sign', 'src/f64/dvec3.rs', r'1108s/if dot < 0.0 {/if dot > 0.0 {/', ['C12']),
 ('R2B-d-vec-slerp-lerp-swapped', 'src/f64/dvec3.rs', r'1119s/self.lerp(rhs, s)/rhs.lerp(self, s)/', ['C12']),
 ('R2B-M1-quat-slerp-lerp-swapped', 'src/f64/dquat.rs', r'721s/self.lerp_impl(end, s)/end.lerp_impl(self, s)/', ['C12']),
 ('R2B-e-vec-slerp-half-angle', 'src/f64/dvec3.rs', r'1113s/core::f64::consts::PI \* s/core::f64::consts::FRAC_PI_2 * s/', ['C12']),
 ('R2B-M7-arc-halfturn-axis', 'src/f64/dquat.rs', r'309s/from.any_orthonormal_vector()/from/', ['C12']),
 ('R2B-M6-rotate-towards-fallback-axis', 'src/f64/dvec3.rs', r'1021s/.unwrap_or_else(|| self.any_orthogonal_vector().normalize());/.unwrap_or(Self::X);/', ['C12']),
 ('R2B-g-quat-angle-between', 'src/f64/dquat.rs', r'622s/ \* 2.0$//', ['C04', 'C12']),
 ('R2B-M8-dvec2-rotate-towards-pi32', 'src/f64/dvec2.rs', r'1003s/core::f64::consts::PI/(core::f32::consts::PI as f64)/', ['C12']),
 ('R2B-T2-arc-threshold-1000eps', 'src/f64/dquat.rs', r'301s/1.0 - 2.0 \* f64::EPSILON/1.0 - 1000.0 * f64::EPSILON/', ['C12']),
 ('R2B-w-orthonormal-pair-sign', 'src/f64/dvec3.rs', r'1071s/let sign = math::signum(self.z);/let sign = 1.0;/', ['C12']),
 ('R2B-i-dquat-xyz', 'src/f64/dquat.rs', r'483s/DVec3::new(self.x, self.y, self.z)/DVec3::new(self.x, self.z, self.y)/', ['C14', 'C17', 'C04']),
 # --- round 2, agent C (C15-C20)
 ('R2C-M1-vec4-aligned-store-to-slice', 'src/f32/sse2/vec4.rs', r'174s/_mm_storeu_ps/_mm_store_ps/', ['C18']),
 ('R2C-M2-coresimd-quat-assert-removed', 'src/f32/coresimd/quat.rs', r'126d', ['C20']),
 ('R2C-M3-dquat-angle-between-assert-or', 'src/f64/dquat.rs', r'621s/&&/||/', ['C20']),
 ('R2C-M31-dquat-lerp-debug-assert', 'src/f64/dquat.rs', r'683s/glam_assert!/debug_assert!/', ['C18', 'C20']),
 ('R2C-M6-bvec3-true-const', 'src/bool/bvec3.rs', r's/pub const TRUE: Self = Self::splat(true);/pub const TRUE: Self = Self::splat(false);/', ['C15', 'C17']),
 ('R2C-M8-swizzle-default-xy', 'src/swizzles/vec_traits.rs', r'11s/self/self.yx()/', ['C16']),
 ('R2C-M10-anybitpattern-bvec4a', 'src/features/impl_bytemuck.rs', r'10s/^/unsafe impl AnyBitPattern for crate::BVec4A {}\nunsafe impl Zeroable for crate::BVec4A {}\n/', ['C19', 'C15']),
 ('R2C-M11-serde-bvec4a-u32', 'src/features/impl_serde.rs', r'967s/\[bool; 4\]/[u32; 4]/', ['C19']),
 # R2C-M14 (BVec4A(pub __m128)) is not counted: the scalar-math BVec3A/BVec4A already expose pub u32 lanes upstream, so an exposed representation does not break C15, which quantifies over the 2^N valid masks
 ('R2C-M51-vec3a-clamp-length-max-strict', 'src/f32/sse2/vec3a.rs', r'919s/0.0 <= max/0.0 < max/', ['C20']),
 ('R2C-M5-debug-glam-assert-feature-name', 'src/macros.rs', r's/feature = "debug-glam-assert"/feature = "debug_glam_assert"/', ['C20', 'C07']),
 ('R2C-M7-bvec3-display-literal', 'src/bool/bvec3.rs', r's/write!(f, "\[{}, {}, {}\]", arr\[0\], arr\[1\], arr\[2\])/write!(f, "({}, {}, {})", arr[0], arr[1], arr[2])/', ['C15']),
 ('R2C-M16-dquat-extra-assert', 'src/f64/dquat.rs', r'130s/$/\n        glam_assert!(angle <= core::f64::consts::PI \&\& angle >= -core::f64::consts::PI);/', ['C20']),
 ('R2C-M4-dmat4-perspective-assert-or', 'src/f64/dmat4.rs', r'803s/&&/||/', ['C20']),
 ('R2C-M12-rkyv-bvec3', 'src/features/impl_rkyv.rs', r's/^    impl_rkyv!(Vec4);/    impl_rkyv!(Vec4);\n    impl_rkyv!(crate::BVec3);/', ['C19']),
 ('R2C-M91-from-slice-doc-removed', 'src/f32/vec3.rs', r'138,140d', ['C18']),
 # --- round 2, agent A (C01-C07)
 ('R2A-A-f32-mul-mat4', 'src/f32/sse2/mat4.rs', r'1436s/rhs.mul_scalar(self)/rhs.div_scalar(self)/', ['C03', 'C07']),
 ('R2A-B-mat3-transform-point2', 'src/f32/mat3.rs', r'524s/rhs + self.z_axis.xy()/rhs + self.y_axis.xy()/', ['C11', 'C06']),
 ('R2A-C-dmat3-free-ctor', 'src/f64/dmat3.rs', r'17s/DMat3::from_cols(x_axis, y_axis, z_axis)/DMat3::from_cols(x_axis, z_axis, y_axis)/', ['C06', 'C17']),
 ('R2A-D-daffine3-identity', 'src/f64/daffine3.rs', r'28s/matrix3: DMat3::IDENTITY,/matrix3: DMat3::ZERO,/', ['C05', 'C06']),
 ('R2A-E-vec4-map', 'src/f32/sse2/vec4.rs', r'120s/f(self.z), f(self.w))/f(self.z), f(self.z))/', ['C17', 'C01']),
 ('R2A-G-dmat3-neg-sign', 'src/f64/dmat3.rs', r's/        Self::from_cols(self.x_axis.neg(), self.y_axis.neg(), self.z_axis.neg())/        Self::ZERO.sub_mat3(\&self)/', ['C03']),
 ('R2A-N1-daffine3-product-order', 'src/f64/daffine3.rs', r's/        iter.fold(Self::IDENTITY, |a, &b| a \* b)/        iter.fold(Self::IDENTITY, |a, \&b| b * a)/', ['C05', 'C06']),
 ('R2A-N8-dvec3-distance-expanded', 'src/f64/dvec3.rs', r's/        (self - rhs).length()$/        math::sqrt(self.length_squared() + rhs.length_squared() - 2.0 * self.dot(rhs))/', ['C02']),
 ('R2A-S1-dvec2-distance-squared-expanded', 'src/f64/dvec2.rs', r'485s/(self - rhs).length_squared()/self.length_squared() + rhs.length_squared() - 2.0 * self.dot(rhs)/', ['C02']),

 # round 3 (reviewers rt3a / rt3b / rt3c)
 ('R3A-E1a-vec3-cmpge-nan', 'src/f32/vec3.rs', r'393s/self.z.ge(&rhs.z)/!self.z.lt(\&rhs.z)/', ['C01']),
 ('R3A-E1b-vec4-cmpge-cmpnlt', 'src/f32/sse2/vec4.rs', r'411s/_mm_cmpge_ps/_mm_cmpnlt_ps/', ['C01']),
 ('R3A-E1c-coresimd-vec4-cmpge-gt', 'src/f32/coresimd/vec4.rs', r'383s/simd_ge/simd_gt/', ['C01']),
 ('R3A-E2a-dquat-as-quat-swapped', 'src/f64/dquat.rs', r'790s/self.z as f32, self.w as f32/self.w as f32, self.z as f32/', ['C05']),
 ('R3A-E2b-coresimd-quat-as-dquat-swapped', 'src/f32/coresimd/quat.rs', r'833s/self.z as f64, self.w as f64/self.w as f64, self.z as f64/', ['C05']),
 ('R3A-E3a-f32-minus-vec4-swapped', 'src/f32/sse2/vec4.rs', r'1560s/_mm_sub_ps(_mm_set1_ps(self), rhs.0)/_mm_sub_ps(rhs.0, _mm_set1_ps(self))/', ['C07']),
 ('R3A-E4-mat2-mul-vec2-shuffle', 'src/f32/sse2/mat2.rs', r'322s/0b01_00_11_10/0b01_00_10_11/', ['C03']),
 ('R3B-a05-to-euler-threshold-1000eps', 'src/euler.rs', r's/> 16.0 \* \$scalar::EPSILON/> 1000.0 * $scalar::EPSILON/', ['C09']),
 ('R3B-b02-dquat-to-axis-angle-1e-6', 'src/f64/dquat.rs', r'445s/1.0e-8/1.0e-6/', ['C09']),
 ('R3B-k01-dquat-from-scaled-axis-1e-11', 'src/f64/dquat.rs', r'143s/length == 0.0/length < 1.0e-11/', ['C09']),
 ('R3B-a08-dquat-slerp-f32-epsilon', 'src/f64/dquat.rs', r'718s/1.0 - f64::EPSILON/1.0 - f32::EPSILON as f64/', ['C12']),
 ('R3B-a09-dquat-rotate-towards-1e-3', 'src/f64/dquat.rs', r'641s/1e-4/1e-3/', ['C12']),
 ('R3B-a02-dquat-to-axis-angle-degenerate-angle', 'src/f64/dquat.rs', r'453s/(DVec3::X, 0.0)/(DVec3::X, 1.0)/', ['C09']),
 ('R3B-d04-dvec3-orthogonal-guard-le', 'src/f64/dvec3.rs', r'1035s/ > / <= /', ['C12']),
 ('R3B-d05-vec3-orthogonal-guard-no-abs', 'src/f32/vec3.rs', r'1035s/if math::abs(self.x) > math::abs(self.y)/if self.x > self.y/', ['C12']),
 ('R3B-b03-vec4-lerp-s-squared', 'src/f32/sse2/vec4.rs', r'844s/rhs \* s$/rhs * (s * s)/', ['C12']),
 ('R3C-EV7-debug-glam-assert-inverted', 'src/macros.rs', r's/all(debug_assertions, feature = "debug-glam-assert")/all(not(debug_assertions), feature = "debug-glam-assert")/', ['C20']),
 ('R3C-EV8-quat-deserialized-through-f32', 'src/features/impl_serde.rs', r'260s/let x = seq/let x: f32 = seq/;263s/let y = seq/let y: f32 = seq/;266s/let z = seq/let z: f32 = seq/;269s/let w = seq/let w: f32 = seq/;272s/from_xyzw(x, y, z, w)/from_xyzw(x as $t, y as $t, z as $t, w as $t)/', ['C19']),
 ('R3C-EV9-quat-deserialized-negated', 'src/features/impl_serde.rs', r'272s/Ok([$]quat::from_xyzw(x, y, z, w))/Ok(-$quat::from_xyzw(x, y, z, w))/', ['C19']),
 ('R3C-EV10-write-to-slice-refuses-nan', 'src/f64/dvec3.rs', r'155s/^/        assert!(!self.is_nan(), "refusing to write NaN");\n/', ['C18']),
 ('R3C-EV11-dvec2-from-array-adds-zero', 'src/f64/dvec2.rs', r'119s/Self::new(a\[0\], a\[1\])/Self::new(a[0] + 0.0, a[1] + 0.0)/', ['C17']),
 ('R3C-EV1-arc-assert-wrong-operand', 'src/f32/sse2/quat.rs', r'320s/to.is_normalized()/from.is_normalized()/', ['C20']),
 ('R3C-EV2-project-onto-normalized-asserts-self', '@sh', r"for f in $(grep -rl 'glam_assert!(rhs.is_normalized());' src); do sed -i 's/glam_assert!(rhs.is_normalized());/glam_assert!(self.is_normalized());/' $f; done", ['C20']),
 ('R3C-EV3-look-to-up-assert-dropped', 'src/f32/sse2/mat4.rs', r'830d', ['C20']),
 ('R3C-EV4-clamp-length-max-strict-everywhere', '@sh', r"for f in $(grep -rl 'glam_assert!(0.0 <= max);' src); do sed -i 's/glam_assert!(0.0 <= max);/glam_assert!(0.0 < max);/' $f; done", ['C20']),
 ('R3C-EV5-slerp-end-assert-dropped-everywhere', '@sh', r"for f in $(grep -rl 'glam_assert!(end.is_normalized());' src); do sed -i '/glam_assert!(end.is_normalized());/d' $f; done", ['C20']),
 ('R3C-EV6-scale-any-to-all-everywhere', '@sh', r"for f in $(grep -rlE 'glam_assert!\(scale.cmpne\((D?Vec[23])::ZERO\).any\(\)\);' src); do sed -i -E 's/glam_assert!\(scale.cmpne\((D?Vec[23])::ZERO\).any\(\)\);/glam_assert!(scale.cmpne(\1::ZERO).all());/' $f; done", ['C20']),
]


def sh(cmd, **kw):
    return subprocess.run(cmd, shell=True, stdout=subprocess.PIPE, stderr=subprocess.STDOUT, **kw).stdout.decode('utf8', 'replace')


def main():
    only = None
    if '--only' in sys.argv:
        only = set(sys.argv[sys.argv.index('--only') + 1].split(','))
    shard = None
    if '--shard' in sys.argv:          # --shard i/n : every n-th mutant starting at i (run the shards concurrently with distinct REDTEAM_SCRATCH)
        a, b = sys.argv[sys.argv.index('--shard') + 1].split('/')
        shard = (int(a), int(b))
    if '--merge' in sys.argv:          # --merge n : combine redteam_results.<i>.json into redteam_results.json
        n = int(sys.argv[sys.argv.index('--merge') + 1])
        allr = {}
        for i in range(n):
            for e in json.load(open(os.path.join(VERIF, 'redteam_results.%d.json' % i))):
                allr[e['id']] = e
        order = [m[0] for m in M]
        out = [allr[i] for i in order if i in allr]
        json.dump(out, open(os.path.join(VERIF, 'redteam_results.json'), 'w'), indent=1)
        for i in range(n):
            os.remove(os.path.join(VERIF, 'redteam_results.%d.json' % i))
        print('merged %d of %d; not caught: %s' % (len(out), len(order), [e['id'] for e in out if e['status'] != 'caught']))
        return
    if not os.path.isdir(os.path.join(SCR, '.git')):
        sh('rm -rf %s && mkdir -p %s && cd /repo && git archive HEAD | tar -x -C %s && cp /repo/Cargo.lock %s/ && cd %s && git init -q . && git add -A && git -c user.email=a@b -c user.name=x commit -qm base' % (SCR, SCR, SCR, SCR, SCR))
    env = dict(os.environ, GLAM_REPO=SCR, GLAM_VERIF_OUT=SCR + '_out')
    res = []
    for idx, (mid, rel, expr, checks) in enumerate(M):
        if only and mid not in only:
            continue
        if shard and idx % shard[1] != shard[0]:
            continue
        sh('cd %s && git checkout -q -- .' % SCR)
        if rel == '@sh':
            subprocess.run(expr, shell=True, cwd=SCR)       # a multi-file (template-wide) edit given as a shell command run in the scratch copy
        else:
            subprocess.run(['sed', '-i', expr, os.path.join(SCR, rel)])
        if not sh('cd %s && git diff --stat' % SCR).strip():
            print('%-40s STALE (sed changed nothing)' % mid)
            res.append((mid, 'stale', []))
            continue
        fired = []
        t0 = time.time()
        for c in checks:
            out = sh('cd %s && ./check %s --tier quick' % (VERIF, c), env=env)
            if 'VIOLATION property=' in out:
                fired.append(c)
        print('%-40s %s fired=%s of %s (%.0fs)' % (mid, 'CAUGHT' if fired else 'MISSED', ','.join(fired) or '-', ','.join(checks), time.time() - t0))
        sys.stdout.flush()
        res.append((mid, 'caught' if fired else 'missed', fired))
    sh('cd %s && git checkout -q -- .' % SCR)
    if shard:
        json.dump([{'id': a, 'status': b, 'fired': c} for a, b, c in res], open(os.path.join(VERIF, 'redteam_results.%d.json' % shard[0]), 'w'), indent=1)
    elif not only:
        json.dump([{'id': a, 'status': b, 'fired': c} for a, b, c in res], open(os.path.join(VERIF, 'redteam_results.json'), 'w'), indent=1)
    print('summary: %d, missed: %s' % (len(res), [a for a, b, c in res if b != 'caught']))


if __name__ == '__main__':
    main()
